#!/usr/bin/env python3
"""Re-run the check against every kept seeded change whose last recorded outcome is MISSED
(optionally restricted to the given property ids) and record the new outcome in meta.json."""
import glob, json, os, re, subprocess, sys
only = set(sys.argv[1:])
for mp in sorted(glob.glob("/verif/seeded/*/meta.json")):
    m = json.load(open(mp))
    if only and m["property"] not in only:
        continue
    cr = m["check_run"]
    if not cr["outcome"].startswith("MISSED"):
        continue
    patch = os.path.join(os.path.dirname(mp), "patch.diff")
    p = subprocess.run(["/verif/tools/msb.sh", "try", m["property"], patch], stdout=subprocess.PIPE,
                       stderr=subprocess.STDOUT)
    out = p.stdout.decode()
    mm = re.search(r"disagreements (\d+), property failures (\d+)", out)
    if p.returncode == 1 and "VIOLATION" in out and mm:
        nf = "no-failing-input-found" in out
        cr.setdefault("history", []).append("first run: " + cr["outcome"][:160])
        cr["outcome"] = ("caught after strengthening the generator: exit 1, VIOLATION%s (%s disagreements, %s "
                         "property failures, quick tier); MISSED by the check as first built"
                         % (" ending no-failing-input-found" if nf else " with failing input", mm.group(1), mm.group(2)))
        print("now caught:", mp)
    else:
        print("still missed:", mp, out[-300:].replace("\n", " "))
    json.dump(m, open(mp, "w"), indent=1)
