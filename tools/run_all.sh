#!/bin/sh
# tools/run_all.sh [tier] [seed]  - run every property's check sequentially on the current /repo tree
TIER="${1:-quick}"; SEED="${2:-1}"
cd "$(dirname "$0")/.."
for f in props/C*.json; do
  P=$(basename "$f" .json)
  S=$(date +%s)
  VERIF_SEED=$SEED python3 check.py "$P" --tier "$TIER" > "run/all_$P.log" 2>&1
  RC=$?
  E=$(( $(date +%s) - S ))
  echo "$P rc=$RC ${E}s $(grep -E 'tier=' run/all_$P.log | tail -1 | cut -c1-170)"
  grep -E "VIOLATION|INFRASTRUCTURE" "run/all_$P.log" | head -3
done
