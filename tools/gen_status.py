#!/usr/bin/env python3
"""Regenerate the status table and the seeded-change table inside DESIGN.md (between markers)."""
import glob, json, os, re
ROOT = os.path.dirname(os.path.dirname(os.path.abspath(__file__)))
os.chdir(ROOT)
props = [json.loads(l) for l in open("properties.jsonl")]
known = json.load(open("known_findings.json"))["findings"]
rows = ["| id | theorems (discharged/stated) | quick cases (distinct non-trivial) | quick wall s | open findings | fixed | level |",
        "|---|---|---|---|---|---|---|"]
for p in props:
    pid = p["id"]
    cfgp = "props/%s.json" % pid
    if not os.path.exists(cfgp):
        rows.append("| %s | not built | | | | | |" % pid)
        continue
    cfg = json.load(open(cfgp))
    ev = json.load(open("evidence/%s.json" % pid)) if os.path.exists("evidence/%s.json" % pid) else None
    cov = ev["coverage"] if ev else {}
    op = [f["id"] for f in known if f["property"] == pid and f["status"] == "open"]
    fx = [f["commit"] for f in known if f["property"] == pid and f["status"] == "fixed"]
    note = (cfg.get("manifest", {}).get("level_note", "") or "")
    partial = "proof (partial)" if re.search(r"\bPARTIAL\b|partial", note) else "proof"
    rows.append("| %s | %s/%s | %s (%s) | %s | %s | %s | %s |" % (
        pid, cov.get("discharged", "-"), cov.get("obligations", "-"),
        cov.get("evaluations", "-"), cov.get("distinct_nontrivial", "-"),
        ev["wall_s"] if ev else "-", ", ".join(op) or "–", ", ".join(fx) or "–", partial))
status = "\n".join(rows)
srows = ["| seeded change | property | what it needs to manifest (author's words, abridged) | outcome of `check.py` (quick) |",
         "|---|---|---|---|"]
for d in sorted(glob.glob("seeded/*/meta.json")):
    m = json.load(open(d))
    name = os.path.basename(os.path.dirname(d))
    notes = m.get("needs_to_manifest_and_commands (author's notes)", "")
    notes = re.sub(r"\s+", " ", notes)[:260].replace("|", "/")
    srows.append("| %s | %s | %s | %s |" % (name, m["property"], notes, m["check_run"]["outcome"].replace("|", "/")))
seeded = "\n".join(srows)
s = open("DESIGN.md").read()
s = re.sub(r"(<!-- STATUS-TABLE-BEGIN -->).*?(<!-- STATUS-TABLE-END -->)", lambda m: m.group(1) + "\n" + status + "\n" + m.group(2), s, flags=re.S)
s = re.sub(r"(<!-- SEEDED-TABLE-BEGIN -->).*?(<!-- SEEDED-TABLE-END -->)", lambda m: m.group(1) + "\n" + seeded + "\n" + m.group(2), s, flags=re.S)
import subprocess
st = subprocess.run(["python3", os.path.join(ROOT, "tools", "seeded_stats.py")], stdout=subprocess.PIPE).stdout.decode()
st = "```\n" + "\n".join(l for l in st.splitlines()) + "\n```"
s = re.sub(r"(<!-- SEEDED-STATS-BEGIN -->).*?(<!-- SEEDED-STATS-END -->)", lambda m: m.group(1) + "\n" + st + "\n" + m.group(2), s, flags=re.S)
open("DESIGN.md", "w").write(s)
print("status rows:", len(rows) - 2, "seeded rows:", len(srows) - 2)
