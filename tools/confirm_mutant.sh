#!/bin/sh
# tools/confirm_mutant.sh <worktree> <patch.diff> <demo.rs> <name>
# Confirms in a scratch worktree: the change compiles, the existing suite still passes with it,
# the demonstration fails with it and passes without it. Prints one JSON line.
WT="$1"; PATCH="$2"; DEMO="$3"; NAME="$4"
export CARGO_NET_OFFLINE=true CARGO_INCREMENTAL=0 CARGO_PROFILE_DEV_DEBUG=0 CARGO_PROFILE_TEST_DEBUG=0
cd "$WT" || exit 2
git checkout -q -- . ; rm -f tests/seeded_demo.rs
git apply "$PATCH" || { echo "{\"name\":\"$NAME\",\"error\":\"patch does not apply\"}"; exit 2; }
SUITE=$(timeout 1500 cargo nextest run --workspace --no-fail-fast --offline 2>&1 | grep -E "Summary|tests run" | tail -1)
cp "$DEMO" tests/seeded_demo.rs
timeout 900 cargo test --offline --test seeded_demo >/tmp/confirm_$NAME.with.log 2>&1; WITH=$?
git checkout -q -- .
timeout 900 cargo test --offline --test seeded_demo >/tmp/confirm_$NAME.without.log 2>&1; WITHOUT=$?
rm -f tests/seeded_demo.rs
echo "{\"name\":\"$NAME\",\"suite_with_change\":\"$SUITE\",\"demo_exit_with_change\":$WITH,\"demo_exit_without_change\":$WITHOUT}"
