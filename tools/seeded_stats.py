#!/usr/bin/env python3
"""tools/seeded_stats.py  per-round statistics of the kept seeded changes (from seeded/*/meta.json)"""
import glob, json, os, re, collections
rounds = collections.OrderedDict()
for d in sorted(glob.glob("/verif/seeded/*")):
    name = os.path.basename(d)
    m = json.load(open(d + "/meta.json"))
    r = re.search(r"-(r(\d)m|m)\d$", name)
    rnd = int(r.group(2)) if r.group(2) else 1
    o = m["check_run"]["outcome"]
    st = rounds.setdefault(rnd, collections.Counter())
    st["kept"] += 1
    if o.startswith("caught:"):
        st["caught by the check as first built"] += 1
    elif o.startswith("caught") or o.startswith("first run: INFRASTRUCTURE"):
        st["missed first, caught after strengthening"] += 1
    elif "but caught by" in o:
        st["missed by its own check, caught by a neighbouring property's check"] += 1
    else:
        st["STILL MISSED"] += 1
        print("still missed:", name, "|", o[:120])
for rnd, st in rounds.items():
    print("round", rnd, dict(st))
