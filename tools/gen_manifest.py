#!/usr/bin/env python3
"""Regenerate MANIFEST.json from props/*.json (claimed checks) and properties.jsonl
(everything else goes to not_applicable with the reason in tools/not_claimed.json)."""
import json, os, glob
ROOT = os.path.dirname(os.path.dirname(os.path.abspath(__file__)))
props = [json.loads(l) for l in open(os.path.join(ROOT, "properties.jsonl"))]
old = json.load(open(os.path.join(ROOT, "MANIFEST.json")))
reasons = {}
rp = os.path.join(ROOT, "tools", "not_claimed.json")
if os.path.exists(rp):
    reasons = json.load(open(rp))
checks, claimed = [], []
for p in props:
    pid = p["id"]
    cp = os.path.join(ROOT, "props", pid + ".json")
    if not os.path.exists(cp):
        continue
    cfg = json.load(open(cp))
    man = cfg.get("manifest")
    if not man or not man.get("claim", True):
        continue
    # claim a property only once its check has run clean at least once in this tree
    evp = os.path.join(ROOT, "evidence", pid + ".json")
    if not os.path.exists(evp):
        continue
    ev = json.load(open(evp))
    cov = ev.get("coverage", {})
    if ev.get("violations", 1) != 0 or cov.get("obligations", 0) < 1 \
            or cov.get("discharged") != cov.get("obligations"):
        continue
    claimed.append(pid)
    checks.append({
        "property_id": pid,
        "quick_cmd": "python3 check.py %s --tier quick" % pid,
        "thorough_cmd": "python3 check.py %s --tier thorough" % pid,
        "evidence_file": "/verif/evidence/%s.json" % pid,
        "replay_cmd_template": "python3 check.py %s --replay {path}" % pid,
        "engine": "coq-model+correspondence",
        "level_claimed": {"category": cfg.get("level", "proof"), "text": man["level_text"],
                          "design_ref": man.get("design_ref", "DESIGN.md section 5, " + pid)},
        "level_note": man["level_note"],
        "technique": man.get("technique", "machine-checked proof in Coq over a Gallina model + "
                             "vm_compute correspondence against the real code"),
    })
m = {
    "version": 1,
    "setup_cmd": "cd /verif && ./setup.sh",
    "hooks": old["hooks"],
    "engines": [{"name": "coq-model+correspondence", "path": "/verif/check.py",
                 "serves_properties": claimed,
                 "kind_free_text": "Coq 8.16 theorems over a hand-written Gallina model "
                 "(coq/theories); the model's executable definitions are run by vm_compute inside "
                 "coqc on the cases the Rust harness (harness/) ran on the real code; agreement and "
                 "the property instance are decided inside Coq"}],
    "checks": checks,
    "not_applicable": [{"property_id": p["id"],
                        "reason": reasons.get(p["id"], "check not built yet (planned in DESIGN.md "
                                              "section 5); not claimed until its model, theorems "
                                              "and correspondence run exist")}
                       for p in props if p["id"] not in claimed],
    "notes": old.get("notes", ""),
}
json.dump(m, open(os.path.join(ROOT, "MANIFEST.json"), "w"), indent=1)
print("claimed:", claimed)
