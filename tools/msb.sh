#!/bin/sh
# tools/msb.sh sync                      (re)create the mutant sandbox /tmp/msb: a git worktree of /repo HEAD and a
#                                        copy of /verif whose harness depends on that worktree
# tools/msb.sh try <PROP> <patch.diff>   apply the patch in the sandbox repo, run the sandbox check, revert
# The sandbox lets seeded changes be tested while checks keep running against /repo itself.
set -e
SB="${MSB:-/tmp/msb}"
case "$1" in
sync)
  if [ ! -d $SB/repo ]; then git -C /repo worktree add -q --detach $SB/repo HEAD; fi
  git -C $SB/repo checkout -q --detach "$(git -C /repo rev-parse HEAD)"
  mkdir -p $SB/verif
  rsync -a --delete --exclude harness/target --exclude run --exclude replays --exclude .git /verif/ $SB/verif/
  sed -i "s#path = \"/repo\"#path = \"$SB/repo\"#" $SB/verif/harness/Cargo.toml
  mkdir -p $SB/verif/run $SB/verif/replays
  echo "sandbox synced at $(git -C $SB/repo rev-parse --short HEAD)"
  ;;
try)
  P="$2"; PATCH="$3"
  cd $SB/repo; git checkout -q -- .
  git apply "$PATCH" || { echo "patch does not apply"; exit 2; }
  cd $SB/verif
  set +e
  VERIF_REPO=$SB/repo python3 check.py "$P" > run/mutant_$P.log 2>&1
  RC=$?
  git -C $SB/repo checkout -q -- .
  grep -E "VIOLATION|INFRASTRUCTURE|tier=" run/mutant_$P.log | head -5
  echo "exit=$RC"
  exit $RC
  ;;
esac
