#!/bin/sh
# tools/start_mut_round.sh <round-tag> <PROP>...   prepares /tmp/mut/<PROP> (scratch worktree of /repo HEAD) and
# /tmp/mutout<tag>/<PROP> + INSTR_<PROP>.md (prompt = tools/prompts/mutant.md + the property record + the round's extra
# paragraph from tools/prompts/round_<tag>_extra.md when present).  The coordinator then launches one fresh
# sub-agent per property with "read /tmp/mutout<tag>/INSTR_<PROP>.md".
TAG="$1"; shift
OUT=/tmp/mutout$TAG; mkdir -p $OUT /tmp/mut
for P in "$@"; do
  [ -d /tmp/mut/$P ] || git -C /repo worktree add -q --detach /tmp/mut/$P HEAD
  mkdir -p $OUT/$P
  { sed "s#WORKTREE#/tmp/mut/$P#g; s#OUTDIR#$OUT/$P#g" /verif/tools/prompts/mutant.md
    python3 - "$P" <<'PY'
import json, sys
for l in open("/verif/properties.jsonl"):
    j = json.loads(l)
    if j["id"] == sys.argv[1]:
        print(json.dumps(j, indent=1))
PY
    [ -f /verif/tools/prompts/round_${TAG}_extra.md ] && cat /verif/tools/prompts/round_${TAG}_extra.md
    echo
    echo "Practical: export CARGO_NET_OFFLINE=true CARGO_INCREMENTAL=0 CARGO_PROFILE_DEV_DEBUG=0 CARGO_PROFILE_TEST_DEBUG=0 before building (keeps the build directory small); the machine is shared, builds may be slow - be patient, use generous timeouts."
  } > $OUT/INSTR_$P.md
done
ls $OUT
