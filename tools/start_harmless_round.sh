#!/bin/sh
# tools/start_harmless_round.sh <PROP>...  prepares /tmp/mut/h<PROP> worktrees and /tmp/mutouth/<PROP> + INSTR files for
# the "harmless refactoring" round (false-alarm test): prompt tools/prompts/harmless.md + the property record.
OUT=/tmp/mutouth; mkdir -p $OUT /tmp/mut
for P in "$@"; do
  [ -d /tmp/mut/h$P ] || git -C /repo worktree add -q --detach /tmp/mut/h$P HEAD
  mkdir -p $OUT/$P
  { sed "s#WORKTREE#/tmp/mut/h$P#g; s#OUTDIR#$OUT/$P#g" /verif/tools/prompts/harmless.md
    python3 - "$P" <<'PY'
import json, sys
for l in open("/verif/properties.jsonl"):
    j = json.loads(l)
    if j["id"] == sys.argv[1]:
        print(json.dumps(j, indent=1))
PY
  } > $OUT/INSTR_$P.md
done
ls $OUT
