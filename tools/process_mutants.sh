#!/bin/sh
# tools/process_mutants.sh <PROP> ...   confirm each delivered mutant in its scratch worktree, then run the
# property's check against it in /repo (restored afterwards); append results to run/mutants.log
for P in "$@"; do
  for i in 1 2 3; do
    [ -f /tmp/mutout/$P/patch$i.diff ] || continue
    C=$(/verif/tools/confirm_mutant.sh /tmp/mut/$P /tmp/mutout/$P/patch$i.diff /tmp/mutout/$P/demo$i.rs ${P}_$i 2>&1 | grep '^{' | tail -1)
    R=$(/verif/tools/try_mutant.sh $P /tmp/mutout/$P/patch$i.diff 2>&1 | grep -E "VIOLATION|tier=|exit=|INFRA" | tr '\n' ' ')
    echo "$P $i CONFIRM $C CHECK $R" >> /verif/run/mutants.log
  done
done
echo "DONE $@" >> /verif/run/mutants.log
