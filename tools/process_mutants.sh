#!/bin/sh
# tools/process_mutants.sh <PROP> ...   (env MUTOUT=/tmp/mutout, TAG=m, LOG=/verif/run/mutants.log)
# Confirm each delivered mutant in its scratch worktree (/tmp/mut/<PROP>), then run the property's check
# against it in /repo (restored afterwards); append one line per mutant to $LOG.
MUTOUT="${MUTOUT:-/tmp/mutout}"; TAG="${TAG:-m}"; LOG="${LOG:-/verif/run/mutants.log}"
for P in "$@"; do
  for i in 1 2 3; do
    [ -f $MUTOUT/$P/patch$i.diff ] || continue
    C=$(/verif/tools/confirm_mutant.sh /tmp/mut/$P $MUTOUT/$P/patch$i.diff $MUTOUT/$P/demo$i.rs ${P}_$TAG$i 2>&1 | grep '^{' | tail -1)
    R=$(/verif/tools/msb.sh try $P $MUTOUT/$P/patch$i.diff 2>&1 | grep -E "VIOLATION|tier=|exit=|INFRA|apply" | tr '\n' ' ')
    echo "$P $TAG$i $MUTOUT CONFIRM $C CHECK $R" >> $LOG
  done
done
echo "DONE $@" >> $LOG
