#!/usr/bin/env python3
"""tools/record_outcome.py <seeded id> <new outcome text>   keeps the previous outcome in check_run.history"""
import json, sys
mp = "/verif/seeded/%s/meta.json" % sys.argv[1]
m = json.load(open(mp))
cr = m["check_run"]
cr.setdefault("history", []).append("earlier: " + cr["outcome"][:200])
cr["outcome"] = sys.argv[2]
json.dump(m, open(mp, "w"), indent=1)
