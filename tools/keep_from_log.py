#!/usr/bin/env python3
"""tools/keep_from_log.py [logfile]  Reads lines `<P> <tag><i> <mutout> CONFIRM {json} CHECK <text>` and keeps
every confirmed mutant (suite green with change, demo fails with / passes without) under
seeded/<P>-<tag><i>/, recording the check outcome."""
import json, re, subprocess, sys, os, shutil
log = sys.argv[1] if len(sys.argv) > 1 else "/verif/run/mutants2.log"
for line in open(log):
    m = re.match(r"(C\d+) ([a-z0-9]*?)(\d) (\S+) CONFIRM (\{.*?\}) CHECK (.*)$", line.strip())
    if not m:
        continue
    P, tag, i, mutout, cj, chk = m.groups()
    dst = "/verif/seeded/%s-%s%s" % (P, tag, i)
    if os.path.exists(dst + "/meta.json"):
        continue
    c = json.loads(cj)
    ok = re.search(r"(\d+) tests run: \1 passed", c.get("suite_with_change", "")) \
        and c["demo_exit_with_change"] != 0 and c["demo_exit_without_change"] == 0
    if not ok:
        print("NOT CONFIRMED", P, tag + i, c)
        continue
    caught = "exit=1" in chk and "VIOLATION" in chk
    nf = "no-failing-input-found" in chk
    mm = re.search(r"disagreements (\d+), property failures (\d+)", chk)
    outcome = ("caught: exit 1, VIOLATION%s (%s disagreements, %s property failures, quick tier)"
               % (" ending no-failing-input-found" if nf else " with failing input", mm.group(1), mm.group(2))) if caught and mm \
        else "MISSED: " + chk[-200:]
    c["suite_with_change"] = re.sub(r"\s+", " ", c["suite_with_change"]).strip()
    os.makedirs(dst, exist_ok=True)
    src = os.path.join(mutout, P)
    shutil.copy(os.path.join(src, "patch%s.diff" % i), dst + "/patch.diff")
    shutil.copy(os.path.join(src, "demo%s.rs" % i), dst + "/demo.rs")
    notes = open(os.path.join(src, "notes.md")).read() if os.path.exists(os.path.join(src, "notes.md")) else ""
    parts = re.split(r"\n(?=#+ )", notes)
    mine = [p for p in parts if re.search(r"(patch|change|mutant|demo)\s*%s\b" % i, p.split("\n", 1)[0], re.I)]
    meta = {"property": P,
            "origin": "fresh sub-agent given only the property record%s and its own scratch worktree" % (
                " plus summaries of the round-1 changes to avoid" if tag != "m" else ""),
            "needs_to_manifest_and_commands (author's notes)": (mine[0] if mine else notes)[:6000],
            "confirmed_by_coordinator": c,
            "confirmation_cmd": "tools/confirm_mutant.sh <scratch worktree> patch.diff demo.rs  (suite with change: all pass; demo: fails with the change, passes without)",
            "check_run": {"cmd": "tools/try_mutant.sh %s seeded/%s-%s%s/patch.diff" % (P, P, tag, i), "outcome": outcome}}
    json.dump(meta, open(dst + "/meta.json", "w"), indent=1)
    print(("kept " if caught else "MISSED ") + dst)
