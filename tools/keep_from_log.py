#!/usr/bin/env python3
"""Reads run/mutants.log lines `<P> <i> CONFIRM {json} CHECK <text>` and keeps every confirmed mutant
(suite green with change, demo fails with / passes without) under seeded/, recording the check outcome."""
import json, re, subprocess, sys, os
for line in open("/verif/run/mutants.log"):
    m = re.match(r"(C\d+) (\d) CONFIRM (\{.*?\}) CHECK (.*)$", line.strip())
    if not m:
        continue
    P, i, cj, chk = m.groups()
    if os.path.exists("/verif/seeded/%s-m%s/meta.json" % (P, i)):
        continue
    c = json.loads(cj)
    ok = "passed" in c.get("suite_with_change", "") and " 0 failed" not in c["suite_with_change"] \
        and re.search(r"(\d+) tests run: \1 passed", c["suite_with_change"]) \
        and c["demo_exit_with_change"] != 0 and c["demo_exit_without_change"] == 0
    if not ok:
        print("NOT CONFIRMED", P, i, c)
        continue
    caught = "exit=1" in chk and "VIOLATION" in chk
    nf = "no-failing-input-found" in chk
    mm = re.search(r"disagreements (\d+), property failures (\d+)", chk)
    outcome = ("caught: exit 1, VIOLATION%s (%s disagreements, %s property failures, quick tier)"
               % (" ending no-failing-input-found" if nf else " with failing input", mm.group(1), mm.group(2))) if caught and mm \
        else "MISSED: " + chk[-200:]
    c["suite_with_change"] = re.sub(r"\s+", " ", c["suite_with_change"]).strip()
    subprocess.check_call(["python3", "/verif/tools/keep_mutant.py", P, i, "/tmp/mutout/" + P, json.dumps(c), outcome])
    if not caught:
        print("MISSED", P, i)
