#!/usr/bin/env python3
"""tools/keep_mutant.py <PROP> <i> <mutout_dir> '<confirm json>' '<check outcome text>'
Stores a confirmed seeded change as /verif/seeded/<PROP>-m<i>/{patch.diff,demo.rs,meta.json}."""
import json, os, shutil, sys, re
prop, i, src, confirm, outcome = sys.argv[1:6]
dst = "/verif/seeded/%s-m%s" % (prop, i)
os.makedirs(dst, exist_ok=True)
shutil.copy(os.path.join(src, "patch%s.diff" % i), os.path.join(dst, "patch.diff"))
shutil.copy(os.path.join(src, "demo%s.rs" % i), os.path.join(dst, "demo.rs"))
notes = open(os.path.join(src, "notes.md")).read() if os.path.exists(os.path.join(src, "notes.md")) else ""
# cut the section of notes.md that talks about this change, if it is sectioned
parts = re.split(r"\n(?=#+ )", notes)
mine = [p for p in parts if re.search(r"(patch|change|mutant|demo)\s*%s\b" % i, p.split("\n", 1)[0], re.I)]
meta = {
    "property": prop,
    "origin": "fresh sub-agent given only the property record and its own scratch worktree (/tmp/mut/%s)" % prop,
    "needs_to_manifest_and_commands (author's notes)": (mine[0] if mine else notes)[:6000],
    "confirmed_by_coordinator": json.loads(confirm),
    "confirmation_cmd": "tools/confirm_mutant.sh <scratch worktree> patch.diff demo.rs  (suite with change: all pass; demo: fails with the change, passes without)",
    "check_run": {"cmd": "tools/try_mutant.sh %s seeded/%s-m%s/patch.diff" % (prop, prop, i), "outcome": outcome},
}
json.dump(meta, open(os.path.join(dst, "meta.json"), "w"), indent=1)
print("kept", dst)
