#!/bin/sh
# tools/try_mutant.sh <PROP> <patch.diff> [tier]
# Applies a seeded change to /repo, runs the property's check, and ALWAYS restores /repo.
# Prints the check's summary lines; exit code = the check's exit code (1 = caught).
PROP="$1"; PATCH="$2"; TIER="${3:-quick}"
cd /repo || exit 2
if [ -n "$(git status --porcelain --untracked-files=no)" ]; then echo "/repo not clean"; exit 2; fi
git apply "$PATCH" || { echo "patch does not apply"; exit 2; }
cd /verif
cp -f "evidence/${PROP}.json" "run/evidence_${PROP}.bak" 2>/dev/null
python3 check.py "$PROP" --tier "$TIER" > "run/mutant_${PROP}.log" 2>&1
RC=$?
git -C /repo checkout -- .
[ -f "run/evidence_${PROP}.bak" ] && mv -f "run/evidence_${PROP}.bak" "evidence/${PROP}.json"
grep -E "VIOLATION|KNOWN-FINDING|INFRASTRUCTURE|tier=" "run/mutant_${PROP}.log" | head -8
echo "exit=$RC"
exit $RC
