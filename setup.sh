#!/bin/sh
# placeholder; replaced by the real build below
exit 0
