#!/bin/sh
# Builds the whole framework offline from files on disk: the Coq development (full .vo build)
# and the correspondence harness against /repo's current working tree.
set -e
cd "$(dirname "$0")"
export CARGO_NET_OFFLINE=true
mkdir -p run evidence replays
cd coq
( echo "-Q theories IB"; find theories -name '*.v' | sort ) > _CoqProject
coq_makefile -f _CoqProject -o Makefile
timeout 3000 make -k -j16 || echo "WARNING: some Coq files did not build; the affected checks will report it"
cd ../harness
cp /repo/Cargo.lock Cargo.lock
cp /repo/Cargo.lock .repo-lock-copy
timeout 3000 cargo build --offline --bins
if grep -q '"release": true' ../props/*.json 2>/dev/null; then
  timeout 3000 cargo build --offline --release --bins
fi
echo "setup done"
