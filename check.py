#!/usr/bin/env python3
"""check.py <PROPERTY> [--tier quick|thorough] [--replay FILE]

One run = (1) proof side: build theories/Props/<P>.vo, hygiene greps, Print Assumptions;
          (2) implementation side: build the harness against /repo's current working tree and
              run it (committed corpus first, then the seeded / exhaustive generator);
          (3) correspondence: every case is rendered to a Gallina term and judged INSIDE Coq by
              check_<P> (model vs observed, property instance on the observed outcome);
          (4) verdict + evidence/<P>.json.
Exit 0: property held on everything explored. Exit 1: "VIOLATION property=<P> replay=<file>".
Exit 2: infrastructure error (no verdict).
Nothing property-specific is decided in this file; per-property data lives in props/<P>.json.
"""
import concurrent.futures
import fcntl
import hashlib
import json
import os
import re
import subprocess
import sys
import time

ROOT = os.path.dirname(os.path.abspath(__file__))
COQ = os.path.join(ROOT, "coq")
HARNESS = os.path.join(ROOT, "harness")
REPO = os.environ.get("VERIF_REPO", "/repo")   # the sandbox for seeded changes points this elsewhere
RUN = os.path.join(ROOT, "run")
FORBIDDEN = re.compile(
    r"\b(Admitted|admit|Axiom|Axioms|Parameter|Parameters|Conjecture|Conjectures)\b"
    r"|Unset\s+Guard|bypass_check|Admit\s+Obligations|type-in-type|impredicative-set"
    r"|Unset\s+Universe\s+Checking|Unset\s+Positivity")
ENV = dict(os.environ, CARGO_NET_OFFLINE="true")


class Infra(Exception):
    pass


def log(msg):
    print(msg, flush=True)


def sh(cmd, cwd=None, timeout=3600, env=None, stdin=None):
    p = subprocess.run(cmd, cwd=cwd, env=env or ENV, stdout=subprocess.PIPE,
                       stderr=subprocess.STDOUT, timeout=timeout, input=stdin)
    out = p.stdout.decode("utf-8", "replace")
    out = "\n".join(l for l in out.splitlines() if "conda.cli.condarc" not in l)
    return p.returncode, out


class Lock:
    def __init__(self, name, shared=False):
        os.makedirs(RUN, exist_ok=True)
        self.path = os.path.join(RUN, ".lock-" + name)
        self.mode = fcntl.LOCK_SH if shared else fcntl.LOCK_EX

    def __enter__(self):
        self.f = open(self.path, "a")
        fcntl.flock(self.f, self.mode)

    def __exit__(self, *a):
        fcntl.flock(self.f, fcntl.LOCK_UN)
        self.f.close()


# ------------------------------------------------------------------ proof side

def coq_files():
    out = []
    for d, _, fs in os.walk(os.path.join(COQ, "theories")):
        for f in fs:
            if f.endswith(".v"):
                out.append(os.path.relpath(os.path.join(d, f), COQ))
    return sorted(out)


def makefile_stale():
    want = "-Q theories IB\n" + "\n".join(coq_files()) + "\n"
    cp = os.path.join(COQ, "_CoqProject")
    have = open(cp).read() if os.path.exists(cp) else ""
    return want != have or not os.path.exists(os.path.join(COQ, "Makefile")), want


def ensure_makefile():
    """Regenerate _CoqProject / Makefile when the set of .v files changed (exclusive lock: waits
    for running builds, which hold the lock shared)."""
    stale, want = makefile_stale()
    if not stale:
        return
    with Lock("coq"):
        stale, want = makefile_stale()
        if not stale:
            return
        open(os.path.join(COQ, "_CoqProject"), "w").write(want)
        rc, out = sh(["coq_makefile", "-f", "_CoqProject", "-o", "Makefile"], cwd=COQ)
        if rc != 0:
            raise Infra("coq_makefile failed:\n" + out)


def coq_build(targets, clean=False, timeout=3000, jobs=16):
    """Full .vo build (never -vos) of the given targets and everything they depend on."""
    ensure_makefile()
    if clean:
        with Lock("coq"):
            sh(["make", "clean"], cwd=COQ)
    with Lock("coq", shared=True):
        rc, out = sh(["make", "-j%d" % jobs] + targets, cwd=COQ, timeout=timeout)
    return rc, out


def hygiene():
    """No Admitted/admit/Axiom/... anywhere in the development (comments stripped)."""
    bad = []
    for f in coq_files():
        src = open(os.path.join(COQ, f)).read()
        # strip (possibly nested) comments
        out, depth, i = [], 0, 0
        while i < len(src):
            if src.startswith("(*", i):
                depth += 1
                i += 2
            elif src.startswith("*)", i) and depth > 0:
                depth -= 1
                i += 2
            else:
                if depth == 0:
                    out.append(src[i])
                elif src[i] == "\n":
                    out.append("\n")
                i += 1
        code = "".join(out)
        # string literals cannot hide a vernacular command; keep them
        for n, line in enumerate(code.splitlines(), 1):
            if FORBIDDEN.search(line):
                bad.append("%s:%d: %s" % (f, n, line.strip()))
        # Variable / Hypothesis outside a Section declares an axiom
        depth = 0
        for n, line in enumerate(code.splitlines(), 1):
            s = line.strip()
            if re.match(r"(Section|Module\s+Type)\b", s):
                depth += 1 if s.startswith("Section") else 0
            elif re.match(r"End\s+\w+\s*\.", s) and depth > 0:
                depth -= 1
            elif depth == 0 and re.match(r"(Variables?|Hypothes[ie]s|Context)\b", s):
                bad.append("%s:%d: %s (outside a Section)" % (f, n, s))
    return bad


def theorem_names(props_file):
    src = open(os.path.join(COQ, props_file)).read()
    return re.findall(r"^\s*(?:Theorem|Corollary)\s+([A-Za-z_][\w']*)", src, re.M)


def print_assumptions(pid, module, names, rundir):
    """coqc a generated file that prints the assumptions of every property theorem."""
    path = os.path.join(rundir, "assumptions_%s.v" % pid)
    with open(path, "w") as f:
        f.write("From IB Require Import %s.\n" % module)
        for n in names:
            f.write('Goal True. idtac "@@@ %s". Abort.\nPrint Assumptions %s.\n' % (n, n))
    rc, out = sh(["coqc", "-noglob", "-Q", os.path.join(COQ, "theories"), "IB", path],
                 cwd=rundir, timeout=900)
    if rc != 0:
        return None, out
    res = {}
    for chunk in out.split("@@@ ")[1:]:
        name, _, body = chunk.partition("\n")
        name = name.strip()
        if "Closed under the global context" in body:
            res[name] = []
        else:
            res[name] = re.findall(r"^([A-Za-z_][\w'.]*)\s*:", body, re.M)
    return res, out


# ------------------------------------------------------------------ implementation side

def build_harness(binname, release=False):
    with Lock("cargo"):
        lock_src = os.path.join(REPO, "Cargo.lock")
        stamp = os.path.join(HARNESS, ".repo-lock-copy")
        cur = open(lock_src).read()
        if not os.path.exists(stamp) or open(stamp).read() != cur \
                or not os.path.exists(os.path.join(HARNESS, "Cargo.lock")):
            open(os.path.join(HARNESS, "Cargo.lock"), "w").write(cur)
            open(stamp, "w").write(cur)
        cmd = ["cargo", "build", "--offline", "--bin", binname] + (["--release"] if release else [])
        rc, out = sh(cmd, cwd=HARNESS, timeout=3000)
    if rc != 0:
        raise Infra("harness does not build against /repo's current tree (exit 2, no verdict):\n"
                    + out[-6000:])
    return os.path.join(HARNESS, "target", "release" if release else "debug", binname)


def run_harness(exe, args, timeout):
    p = subprocess.run([exe] + args, cwd=HARNESS, env=ENV, stdout=subprocess.PIPE,
                       stderr=subprocess.PIPE, timeout=timeout)
    if p.returncode != 0:
        raise Infra("harness %s %s exited %d:\n%s" % (exe, args, p.returncode,
                                                     p.stderr.decode("utf-8", "replace")[-4000:]))
    cases = []
    for line in p.stdout.decode("utf-8").split("\n"):
        if line.startswith("{"):
            cases.append(json.loads(line))
    return cases


# ------------------------------------------------------------------ JSON -> Gallina

PLAIN = re.compile(r"^[A-Za-z0-9_ .:/,;=+*<>()\[\]{}|!?@#$%^&~'-]*$")


def render(v):
    if v is None:
        return "JN"
    if v is True:
        return "(JB true)"
    if v is False:
        return "(JB false)"
    if isinstance(v, int):
        return "(JI %d)" % v if v >= 0 else "(JI (%d))" % v
    if isinstance(v, float):
        raise Infra("bare float in a case (floats must be passed as {\"f\": hex}): %r" % v)
    if isinstance(v, str):
        if PLAIN.match(v):
            return '(JS "%s"%%string)' % v
        return "(JY [%s])" % ";".join(str(b) for b in v.encode("utf-8"))
    if isinstance(v, list):
        return "(JL [%s])" % ";".join(render(x) for x in v)
    if isinstance(v, dict):
        if set(v) == {"f"}:
            return "(JF %s%%float)" % v["f"]
        if set(v) == {"bytes"}:
            return "(JY [%s])" % ";".join(str(b) for b in v["bytes"])
        raise Infra("JSON object in a case: %r" % v)
    raise Infra("cannot render %r" % (v,))


def render_case(checkfn, c):
    return '%s "%s"%%string %s %s' % (checkfn, c["kind"], render(c["in"]), render(c["out"]))


TUPLE = re.compile(r"\((true|false), (true|false), (true|false), (true|false)\)")


def judge_shard(args):
    idx, module, terms, rundir = args
    path = os.path.join(rundir, "shard_%d.v" % idx)
    with open(path, "w") as f:
        f.write("From Coq Require Import List ZArith String Floats.\n")
        f.write("From IB Require Import Util.J %s.\n" % module)
        f.write("Import ListNotations.\nOpen Scope Z_scope.\n")
        f.write("Definition r : list verdict := [\n%s\n].\n" % ";\n".join(terms))
        f.write("Set Printing Width 100000000.\nSet Printing Depth 100000000.\n")
        f.write("Eval vm_compute in (map (fun v => "
                "(v_agree v, v_prop v, v_known v, v_malformed v)) r).\n")
    t0 = time.time()
    for attempt in range(4):
        p = subprocess.run(["coqc", "-noglob", "-Q", os.path.join(COQ, "theories"), "IB", path],
                           cwd=rundir, stdout=subprocess.PIPE, stderr=subprocess.STDOUT,
                           timeout=3000)
        # coqc killed by a signal (the kernel's OOM killer on an overloaded machine) says nothing
        # about the cases: wait a little and evaluate the shard again
        if p.returncode >= 0:
            break
        time.sleep(5 + 10 * attempt)
    out = p.stdout.decode("utf-8", "replace")
    if p.returncode != 0:
        return idx, None, out[-3000:], time.time() - t0
    res = [tuple(x == "true" for x in m) for m in TUPLE.findall(out)]
    if not terms:
        res = []
    return idx, res, out[-500:] if len(res) != len(terms) else "", time.time() - t0


def judge(cfg, cases, rundir, tag="s"):
    """Return one (agree, prop, known, malformed) per case, decided inside Coq."""
    if not cases:
        return []
    module, checkfn = cfg["corr_module"], cfg["check_fn"]
    terms = [render_case(checkfn, c) for c in cases]
    max_bytes = cfg.get("shard_bytes", 300000)
    max_cases = cfg.get("shard_cases", 400)
    # at least 16 shards when there is enough work, bounded by size and count
    target = max(1, min(max_cases, (len(terms) + 15) // 16))
    shards, cur, size = [], [], 0
    for t in terms:
        if cur and (size + len(t) > max_bytes or len(cur) >= target):
            shards.append(cur)
            cur, size = [], 0
        cur.append(t)
        size += len(t)
    if cur:
        shards.append(cur)
    sub = os.path.join(rundir, tag)
    os.makedirs(sub, exist_ok=True)
    results = [None] * len(shards)
    with concurrent.futures.ThreadPoolExecutor(max_workers=16) as ex:
        for idx, res, msg, dt in ex.map(judge_shard,
                                        [(i, module, s, sub) for i, s in enumerate(shards)]):
            if res is None or len(res) != len(shards[idx]):
                raise Infra("correspondence shard %d did not evaluate (renderer / decoder bug, "
                            "not a verdict):\n%s" % (idx, msg))
            results[idx] = res
            if os.environ.get("VERIF_TIMING"):
                print("shard %d (%s): %d cases, %.1fs" % (idx, tag, len(shards[idx]), dt), file=sys.stderr)
    flat = [r for s in results for r in s]
    assert len(flat) == len(cases)
    return flat


# ------------------------------------------------------------------ shrinking

def shrink_candidates(v):
    """Smaller variants of a JSON value: drop one list element, halve an int, ... (one step)."""
    if isinstance(v, list):
        for i in range(len(v)):
            yield v[:i] + v[i + 1:]
        for i in range(len(v)):
            for s in shrink_candidates(v[i]):
                yield v[:i] + [s] + v[i + 1:]
    elif isinstance(v, bool) or v is None:
        return
    elif isinstance(v, int):
        if v != 0:
            yield 0
            if abs(v) > 1:
                yield v // 2
            yield v - 1 if v > 0 else v + 1
    elif isinstance(v, str):
        if v:
            yield v[:-1]
            yield v[1:]


def size_of(v):
    return len(json.dumps(v))


def shrink(cfg, exe, case, rundir, failing, budget_s=120):
    """Greedy delta-debugging: keep a smaller input while `failing(verdict)` still holds."""
    t0 = time.time()
    best = case
    rounds = 0
    while time.time() - t0 < budget_s and rounds < 40:
        rounds += 1
        cands = []
        seen = set()
        for cin in shrink_candidates(best["in"]):
            key = json.dumps(cin, sort_keys=True)
            if key in seen or size_of(cin) >= size_of(best["in"]):
                continue
            seen.add(key)
            cands.append({"kind": best["kind"], "in": cin, "tags": ["shrink"],
                          "nontrivial": True})
            if len(cands) >= 200:
                break
        if not cands:
            break
        rp = os.path.join(rundir, "shrink_in.jsonl")
        with open(rp, "w") as f:
            for c in cands:
                f.write(json.dumps(c) + "\n")
        try:
            ran = run_harness(exe, ["--replay", rp], timeout=cfg.get("harness_timeout_s", 900))
            ran = [c for c in ran if c["out"] != ["invalid"]]
            vs = judge(cfg, ran, rundir, tag="shrink")
        except (Infra, subprocess.TimeoutExpired):
            break
        good = [(size_of(c["in"]), i) for i, (c, v) in enumerate(zip(ran, vs))
                if not v[3] and failing(v)]
        if not good:
            break
        best = ran[min(good)[1]]
    return best


# ------------------------------------------------------------------ main

def load_known(pid):
    path = os.path.join(ROOT, "known_findings.json")
    if not os.path.exists(path):
        return []
    return [e for e in json.load(open(path))["findings"] if e["property"] == pid]


def write_replay(pid, payload):
    os.makedirs(os.path.join(ROOT, "replays"), exist_ok=True)
    h = hashlib.sha1(json.dumps(payload, sort_keys=True).encode()).hexdigest()[:12]
    path = os.path.join(ROOT, "replays", "%s-%s.json" % (pid, h))
    json.dump(payload, open(path, "w"), indent=1)
    return path


def main():
    if len(sys.argv) < 2:
        print(__doc__)
        return 2
    pid = sys.argv[1]
    tier = os.environ.get("VERIF_TIER", "quick")
    replay = None
    i = 2
    while i < len(sys.argv):
        if sys.argv[i] == "--tier":
            tier = sys.argv[i + 1]
            i += 1
        elif sys.argv[i] == "--replay":
            replay = sys.argv[i + 1]
            i += 1
        i += 1
    if tier not in ("quick", "thorough"):
        tier = "quick"
    seed = int(os.environ.get("VERIF_SEED", "0") or 0)
    cfg = json.load(open(os.path.join(ROOT, "props", pid + ".json")))
    rundir = os.path.join(RUN, pid)
    os.makedirs(rundir, exist_ok=True)
    t0 = time.time()
    try:
        return run_check(pid, cfg, tier, seed, rundir, t0, replay)
    except Infra as e:
        log("INFRASTRUCTURE ERROR (no verdict) property=%s\n%s" % (pid, e))
        return 2
    except subprocess.TimeoutExpired as e:
        log("INFRASTRUCTURE ERROR (timeout, no verdict) property=%s: %s" % (pid, e))
        return 2


def run_check(pid, cfg, tier, seed, rundir, t0, replay):
    props_file = cfg["props_file"]
    props_vo = props_file[:-2] + ".vo"
    corr_vo = "theories/" + cfg["corr_module"].replace(".", "/") + ".vo"
    allowed = cfg.get("allowed_axioms", {})
    broken = []        # proof obligations / correspondence relations that no longer check

    # ---- 1. proof side
    bad = hygiene()
    if bad:
        raise Infra("forbidden vernacular in the development:\n" + "\n".join(bad))
    # a from-scratch rebuild of the whole development is opt-in (VERIF_CLEAN=1): the thorough tier
    # re-checks the property's compiled cone with the independent checker coqchk instead
    clean = tier == "thorough" and not replay and os.environ.get("VERIF_CLEAN") == "1"
    rc, out = coq_build([corr_vo], clean=clean)
    if rc != 0:
        raise Infra("correspondence module does not build:\n" + out[-4000:])
    rc, out = coq_build([props_vo])
    names = theorem_names(props_file)
    assumptions = {}
    if rc != 0:
        m = re.search(r'File "([^"]+)", line (\d+)', out)
        broken.append({"what": "proof obligation", "file": m.group(1) if m else props_file,
                       "detail": out[-1500:]})
        discharged = 0
    else:
        assumptions, aout = print_assumptions(pid, cfg["props_module"], names, rundir)
        if assumptions is None:
            raise Infra("Print Assumptions run failed:\n" + aout[-3000:])
        discharged = 0
        for n in names:
            extra = [a for a in assumptions.get(n, ["<missing>"])
                     if a not in allowed.get(n, []) and a not in allowed.get("*", [])]
            if extra:
                broken.append({"what": "assumptions of theorem " + n, "detail": extra})
            else:
                discharged += 1
    coqchk_out = None
    if tier == "thorough" and not replay and rc == 0 and os.environ.get("VERIF_NO_COQCHK") != "1":
        crc, coqchk_out = sh(["coqchk", "-o", "-silent", "-Q", "theories", "IB",
                              cfg["props_module"].join(["IB.", ""])], cwd=COQ, timeout=3000)
        if crc != 0:
            broken.append({"what": "coqchk", "detail": coqchk_out[-1500:]})

    # ---- 2. implementation side
    exe = build_harness(cfg["bin"], release=cfg.get("release", False))
    htimeout = cfg.get("harness_timeout_s", 900) * (4 if tier == "thorough" else 1)
    cases = []
    known = load_known(pid)
    corpus_path = os.path.join(ROOT, "corpus", pid + ".jsonl")
    if replay:
        rp = json.load(open(replay))
        tmp = os.path.join(rundir, "replay_in.jsonl")
        with open(tmp, "w") as f:
            f.write(json.dumps({"kind": rp["case"]["kind"], "in": rp["case"]["in"],
                                "tags": ["replay"]}) + "\n")
        cases = run_harness(exe, ["--replay", tmp] + cfg.get("extra_args", []), htimeout)
    else:
        tmp = os.path.join(rundir, "corpus_in.jsonl")
        with open(tmp, "w") as f:
            if os.path.exists(corpus_path):
                for line in open(corpus_path):
                    if line.strip():
                        f.write(line.strip() + "\n")
            for e in known:
                if e.get("witness"):
                    w = dict(e["witness"])
                    w["tags"] = ["witness:" + e["id"], "status:" + e["status"]]
                    f.write(json.dumps(w) + "\n")
        for extra in cfg.get("runs", {}).get(tier, [[]]):
            cases += run_harness(exe, ["--replay", tmp] + extra, htimeout)
            cases += run_harness(exe, ["--seed", str(seed), "--tier", tier] + extra, htimeout)
    with open(os.path.join(rundir, "cases.jsonl"), "w") as f:
        for c in cases:
            f.write(json.dumps(c) + "\n")

    # ---- 3. correspondence, decided in Coq
    verdicts = judge(cfg, cases, rundir)
    # A case the decoder rejects although the harness produced it is a renderer/decoder bug - EXCEPT
    # when the implementation itself failed in a way the decoder has no shape for: an unexpected
    # panic / hang / abort of the real code is an observed outcome, not an infrastructure problem;
    # it counts as a disagreement and a failed property instance (the replay is that input).
    GENERIC_FAIL = (["panic"], ["hang"], ["abort"])
    # The same holds for an ERROR outcome (["err", <class>]) of a class the decoder does not know:
    # on the unchanged tree every error class the real code produces is decodable, so an unknown
    # one is new behaviour of the code, not a renderer problem.
    def generic_fail(out):
        return out in GENERIC_FAIL or (isinstance(out, list) and len(out) >= 1 and out[0] == "err")
    verdicts = [(False, False, False, False) if (v[3] and generic_fail(c["out"])) else v
                for c, v in zip(cases, verdicts)]
    malformed = [c for c, v in zip(cases, verdicts) if v[3]]
    if malformed:
        raise Infra("the Coq decoder rejected %d case(s) as malformed, e.g. %s"
                    % (len(malformed), json.dumps(malformed[0])[:600]))

    # ---- 4. verdict
    open_known = [e for e in known if e["status"] == "open"]
    # A known-finding class excuses the failed PROPERTY instance only: the model still has to
    # predict what the real code does there (agree), otherwise the code now fails in a different way
    # than the recorded finding.  (VERIF_KNOWN_AGREE=0 restores the old, laxer rule.)
    strict_known = os.environ.get("VERIF_KNOWN_AGREE", "1") != "0"
    disagree = [(c, v) for c, v in zip(cases, verdicts) if not v[0] and (strict_known or not v[2])]
    propfail = [(c, v) for c, v in zip(cases, verdicts) if not v[2] and not v[1]]
    in_known = sum(1 for v in verdicts if v[2])
    for e in open_known:
        log("KNOWN-FINDING: property=%s %s" % (pid, e["what_fails"]))
        wit = [(c, v) for c, v in zip(cases, verdicts)
               if ("witness:" + e["id"]) in c.get("tags", [])]
        if wit and all(v[1] for _, v in wit):
            log("note: known finding %s no longer reproduces on this tree "
                "(its class is not covered by a theorem; nothing shown is lost)" % e["id"])

    violations = 0
    replay_path = None
    if propfail or disagree or broken:
        violations = 1
        if propfail:
            c, v = min(propfail, key=lambda cv: size_of(cv[0]["in"]))
            c = shrink(cfg, exe, c, rundir, lambda w: not w[2] and not w[1])
            payload = {"property": pid, "seed": seed, "tier": tier, "case": c,
                       "impl_outcome": c["out"], "prop_instance": False,
                       "broken": "property instance prop_%s is false on the implementation's "
                                 "observed outcome" % pid,
                       "cmd": "python3 check.py %s --replay <this file>" % pid}
            replay_path = write_replay(pid, payload)
            log("VIOLATION property=%s replay=%s" % (pid, replay_path))
        else:
            if disagree:
                c, v = min(disagree, key=lambda cv: size_of(cv[0]["in"]))
                c = shrink(cfg, exe, c, rundir, lambda w: not w[0] and (strict_known or not w[2]))
                what = ("correspondence %s: implementation and model disagree on this input; "
                        "the property instance still holds on every case explored "
                        "(%d cases)" % (cfg["check_fn"], len(cases)))
                payload = {"property": pid, "seed": seed, "tier": tier, "case": c,
                           "impl_outcome": c["out"], "prop_instance": None, "broken": what,
                           "cmd": "python3 check.py %s --replay <this file>" % pid}
            else:
                payload = {"property": pid, "seed": seed, "tier": tier, "case": None,
                           "broken": broken, "prop_instance": None,
                           "cmd": "cd /verif/coq && make %s" % props_vo}
            replay_path = write_replay(pid, payload)
            log("VIOLATION property=%s replay=%s no-failing-input-found" % (pid, replay_path))

    # ---- 5. evidence
    distinct = set()
    for c in cases:
        if c.get("nontrivial"):
            distinct.add(hashlib.sha1(json.dumps([c["kind"], c["in"]],
                                                 sort_keys=True).encode()).hexdigest())
    kinds, tags, outcomes = {}, {}, {}
    for c in cases:
        kinds[c["kind"]] = kinds.get(c["kind"], 0) + 1
        for t in c.get("tags", []):
            tags[t] = tags.get(t, 0) + 1
        o = c["out"]
        ok = o[0] if isinstance(o, list) and o and isinstance(o[0], str) else type(o).__name__
        outcomes[ok] = outcomes.get(ok, 0) + 1
    samples = []
    step = max(1, len(cases) // 5)
    for c in cases[::step][:6]:
        s = json.dumps({"kind": c["kind"], "in": c["in"], "out": c["out"]})
        samples.append(json.loads(s) if len(s) < 1500 else {"kind": c["kind"],
                                                             "truncated": s[:1500]})
    ev = {
        "property_id": pid, "tier": tier, "seed": seed, "level": cfg.get("level", "proof"),
        "coverage": {
            "obligations": len(names), "discharged": discharged,
            "theorems": {n: assumptions.get(n) for n in names},
            "checker_cmd": "cd /verif/coq && make -j16 %s  (coqc 8.16.1 full .vo build) + "
                           "Print Assumptions per theorem%s"
                           % (props_vo, " + coqchk -o" if coqchk_out is not None else ""),
            "trusted_base": cfg.get("trusted_base", []),
            "evaluations": len(cases),
            "distinct_nontrivial": len(distinct),
            "traces_validated_against_impl": len(cases) - in_known,
            "cases_in_known_finding_class": in_known,
            "disagreements": len(disagree), "property_instance_failures": len(propfail),
            "rule": cfg.get("rule", ""),
            "exhaustive": cfg.get("exhaustive", False),
            "distribution": {"kinds": kinds, "tags": tags, "outcomes": outcomes},
            "samples": samples,
        },
        "assumptions": cfg.get("assumptions", []),
        "wall_s": round(time.time() - t0, 1),
        "violations": violations,
    }
    if coqchk_out is not None:
        ev["coverage"]["coqchk"] = coqchk_out[-1200:]
    if not replay:
        os.makedirs(os.path.join(ROOT, "evidence"), exist_ok=True)
        json.dump(ev, open(os.path.join(ROOT, "evidence", pid + ".json"), "w"), indent=1)
    log("%s tier=%s seed=%d: theorems %d/%d, cases %d (distinct non-trivial %d, known-class %d), "
        "disagreements %d, property failures %d, %.1fs"
        % (pid, tier, seed, discharged, len(names), len(cases), len(distinct), in_known,
           len(disagree), len(propfail), time.time() - t0))
    if replay and cases:
        log("replay outcome: agree=%s prop=%s known=%s impl=%s"
            % (verdicts[0][0], verdicts[0][1], verdicts[0][2], json.dumps(cases[0]["out"])[:400]))
    return 1 if violations else 0


if __name__ == "__main__":
    sys.exit(main())
