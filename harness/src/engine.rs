//! engine correspondence harness (under construction)
