//! Correspondence harness for the shared engine model (C01, C02, C04, C05, C07).
//!
//! Mirrors `coq/theories/Engine/Lang.v`: a closed step language whose programs are built here
//! as REAL typed ironbeam pipelines through the public API and run with `collect_seq` /
//! `collect_par`.  JSON format of values / functions / steps / sources: see `Engine/Decode.v`.
use ironbeam::collection::LiftableCombiner;
use ironbeam::combiners::DistinctSet;
use ironbeam::{CombineFn, Max, Min, PCollection, Pipeline, Sum, TopK, from_vec, read_jsonl_streaming,
               side_hashmap, side_vec};
use serde::{Deserialize, Serialize};
use serde_json::{Value, json};
use std::panic::{AssertUnwindSafe, catch_unwind};
use std::sync::atomic::{AtomicU64, Ordering};
use std::sync::mpsc;
use std::sync::Arc;
use std::time::Duration;

use crate::SplitMix64;

// ------------------------------------------------------------------ values

/// Variant order matters: the derived `Ord` is what `Lang.val_cmp` mirrors.
#[derive(Clone, PartialEq, Eq, PartialOrd, Ord, Debug, Serialize, Deserialize)]
pub enum Val {
    Int(i64),
    Pair(Box<Val>, Box<Val>),
    List(Vec<Val>),
    None,
    Some(Box<Val>),
}

/// A deliberately COARSE (but lawful) `Hash`: equal values hash equally, many unequal values
/// collide (integers that agree modulo 16, lists of the same length).  The crate may rely on
/// `Eq` for key identity only; anything that identifies keys by their hash is exposed.
impl std::hash::Hash for Val {
    fn hash<H: std::hash::Hasher>(&self, h: &mut H) {
        match self {
            Val::Int(z) => {
                if *z == SLOW_KEY {
                    // a key that is slow to hash: the partition holding it finishes its local
                    // phase AFTER later partitions (completion order != partition order)
                    std::thread::sleep(Duration::from_millis(2));
                }
                h.write_u8(z.rem_euclid(16) as u8)
            }
            Val::Pair(a, b) => {
                h.write_u8(101);
                a.hash(h);
                b.hash(h);
            }
            Val::List(l) => {
                h.write_u8(102);
                h.write_usize(l.len());
            }
            Val::None => h.write_u8(103),
            Val::Some(x) => {
                h.write_u8(104);
                x.hash(h);
            }
        }
    }
}

impl Default for Val {
    fn default() -> Self {
        Val::Int(0)
    }
}
/// `Int + Int`; anything else: the left operand (Lang.comb_sum: `a + vint v`, vint of a non-int = 0,
/// and the accumulator is always an Int)
impl std::ops::Add for Val {
    type Output = Val;
    fn add(self, rhs: Val) -> Val {
        match (&self, &rhs) {
            (Val::Int(a), Val::Int(b)) => Val::Int(a + b),
            _ => self,
        }
    }
}

/// A second value type, so that a mis-ordered value operator really hits a downcast panic.
#[derive(Clone, PartialEq, Eq, Hash, PartialOrd, Ord, Debug)]
pub struct Wrapped(pub Val);

pub fn pair(a: Val, b: Val) -> Val {
    Val::Pair(Box::new(a), Box::new(b))
}

pub fn val_json(v: &Val) -> Value {
    match v {
        Val::Int(z) => json!(z),
        Val::Pair(a, b) => json!(["p", val_json(a), val_json(b)]),
        Val::List(l) => json!(["l", l.iter().map(val_json).collect::<Vec<_>>()]),
        Val::None => Value::Null,
        Val::Some(x) => json!(["s", val_json(x)]),
    }
}

type R<T> = Result<T, String>;
fn bad<T>(what: &str, j: &Value) -> R<T> {
    Err(format!("bad {what}: {j}"))
}
fn tag_of(j: &Value) -> Option<(&str, &[Value])> {
    let a = j.as_array()?;
    let t = a.first()?.as_str()?;
    Some((t, &a[1..]))
}
const BOUND: i64 = 1 << 40;
fn small(j: &Value) -> R<i64> {
    match j.as_i64() {
        Some(z) if z.abs() < BOUND => Ok(z),
        _ => bad("int", j),
    }
}
fn pos(j: &Value) -> R<i64> {
    match j.as_i64() {
        Some(z) if z > 0 && z < BOUND => Ok(z),
        _ => bad("positive int", j),
    }
}
fn nat(j: &Value) -> R<usize> {
    match j.as_i64() {
        Some(z) if (0..1_000_000).contains(&z) => Ok(z as usize),
        _ => bad("nat", j),
    }
}

fn batch_nat(j: &Value) -> R<usize> {
    match j.as_i64() {
        Some(z) if z as usize == BATCH_MAX || z as usize == BATCH_MAX - 1 => Ok(z as usize),
        _ => nat(j),
    }
}

pub fn parse_val(j: &Value) -> R<Val> {
    if j.is_null() {
        return Ok(Val::None);
    }
    if j.is_i64() {
        return Ok(Val::Int(small(j)?));
    }
    match tag_of(j) {
        Some(("p", [a, b])) => Ok(pair(parse_val(a)?, parse_val(b)?)),
        Some(("l", [l])) => Ok(Val::List(parse_vals(l)?)),
        Some(("s", [x])) => Ok(Val::Some(Box::new(parse_val(x)?))),
        _ => bad("value", j),
    }
}
pub fn parse_vals(j: &Value) -> R<Vec<Val>> {
    match j.as_array() {
        Some(a) => a.iter().map(parse_val).collect(),
        None => bad("value list", j),
    }
}

// ------------------------------------------------------------------ element functions (Lang.v)

#[derive(Clone, Debug, PartialEq)]
pub enum EFun {
    Id,
    Add(i64),
    Mul(i64),
    Mod(i64),
    Fst,
    Snd,
    Swap,
    Dup,
    Sum,
    Len,
    Wrap,
    KeyMod(i64),
    Comp(Box<EFun>, Box<EFun>),
}
#[derive(Clone, Debug, PartialEq)]
pub enum PFun {
    True,
    False,
    ModEq(i64, i64),
    Lt(i64),
    Not(Box<PFun>),
}
#[derive(Clone, Debug, PartialEq)]
pub enum GFun {
    Repeat(usize),
    UpTo(i64),
    Elems,
    None,
}
#[derive(Clone, Debug, PartialEq)]
pub enum BFun {
    Each(EFun),
    Rev,
    DropLast,
    /// every element twice (expanding, element-wise)
    Dup,
    /// prepend Int(-1) to every chunk (expanding, chunk-sensitive)
    Header,
}
/// side-input functions (Lang.sfun / spred)
#[derive(Clone, Debug, PartialEq)]
pub enum SFun {
    AddLen,
    AddSum,
}
#[derive(Clone, Debug, PartialEq)]
pub enum SPred {
    In,
    NotIn,
    LenGt(usize),
}
pub fn sfn(h: &SFun, side: &[Val], v: &Val) -> Val {
    match (h, v) {
        (SFun::AddLen, Val::Int(z)) => Val::Int(z + side.len() as i64),
        (SFun::AddSum, Val::Int(z)) => Val::Int(z + zsum(side)),
        _ => v.clone(),
    }
}
pub fn spn(q: &SPred, side: &[Val], v: &Val) -> bool {
    match q {
        SPred::In => side.contains(v),
        SPred::NotIn => !side.contains(v),
        SPred::LenGt(n) => side.len() > *n,
    }
}
/// Lang.side_lookup: the LAST pair with that key wins (HashMap collect), else the default
pub fn side_lookup(pairs: &[Val], dflt: i64, v: &Val) -> Val {
    let mut acc = Val::Int(dflt);
    for kv in pairs {
        if let Val::Pair(k, x) = kv {
            if **k == *v {
                acc = (**x).clone();
            }
        }
    }
    acc
}

#[derive(Clone, Debug, PartialEq)]
pub enum Cid {
    Sum,
    Count,
    Min,
    Max,
    TopK(usize),
    Distinct,
    SumMod(i64),
    Gcd,
}
impl Cid {
    pub fn list_out(&self) -> bool {
        matches!(self, Cid::TopK(_) | Cid::Distinct)
    }
}

pub fn zsum(l: &[Val]) -> i64 {
    l.iter().fold(0i64, |a, v| if let Val::Int(z) = v { a + z } else { a })
}
pub fn ikey(v: &Val) -> i64 {
    match v {
        Val::Int(z) => *z,
        Val::Pair(a, _) => ikey(a),
        Val::List(l) => l.len() as i64,
        Val::None => 0,
        Val::Some(x) => ikey(x),
    }
}
pub fn vint(v: &Val) -> i64 {
    if let Val::Int(z) = v { *z } else { 0 }
}

pub fn ef(f: &EFun, v: &Val) -> Val {
    match f {
        EFun::Id => v.clone(),
        EFun::Add(c) => match v {
            Val::Int(z) => Val::Int(z + c),
            _ => v.clone(),
        },
        EFun::Mul(c) => match v {
            Val::Int(z) => Val::Int(z * c),
            _ => v.clone(),
        },
        EFun::Mod(m) => match v {
            Val::Int(z) => Val::Int(z.rem_euclid(*m)),
            _ => v.clone(),
        },
        EFun::Fst => match v {
            Val::Pair(a, _) => (**a).clone(),
            _ => v.clone(),
        },
        EFun::Snd => match v {
            Val::Pair(_, b) => (**b).clone(),
            _ => v.clone(),
        },
        EFun::Swap => match v {
            Val::Pair(a, b) => Val::Pair(b.clone(), a.clone()),
            _ => v.clone(),
        },
        EFun::Dup => pair(v.clone(), v.clone()),
        EFun::Sum => match v {
            Val::List(l) => Val::Int(zsum(l)),
            _ => v.clone(),
        },
        EFun::Len => match v {
            Val::List(l) => Val::Int(l.len() as i64),
            _ => v.clone(),
        },
        EFun::Wrap => Val::List(vec![v.clone()]),
        EFun::KeyMod(m) => pair(Val::Int(ikey(v).rem_euclid(*m)), v.clone()),
        EFun::Comp(f, g) => ef(g, &ef(f, v)),
    }
}
pub fn pf(p: &PFun, v: &Val) -> bool {
    match p {
        PFun::True => true,
        PFun::False => false,
        PFun::ModEq(m, r) => ikey(v).rem_euclid(*m) == *r,
        PFun::Lt(c) => ikey(v) < *c,
        PFun::Not(q) => !pf(q, v),
    }
}
pub fn gf(g: &GFun, v: &Val) -> Vec<Val> {
    match g {
        GFun::Repeat(n) => vec![v.clone(); *n],
        GFun::UpTo(m) => (0..ikey(v).rem_euclid(*m)).map(Val::Int).collect(),
        GFun::Elems => match v {
            Val::List(l) => l.clone(),
            Val::Pair(k, b) => match &**b {
                Val::List(l) => l.iter().map(|x| pair((**k).clone(), x.clone())).collect(),
                _ => vec![v.clone()],
            },
            _ => vec![v.clone()],
        },
        GFun::None => vec![],
    }
}
pub fn bf(b: &BFun, l: &[Val]) -> Vec<Val> {
    match b {
        BFun::Each(f) => l.iter().map(|x| ef(f, x)).collect(),
        BFun::Rev => l.iter().rev().cloned().collect(),
        BFun::DropLast => l[..l.len().saturating_sub(1)].to_vec(),
        BFun::Dup => l.iter().flat_map(|x| [x.clone(), x.clone()]).collect(),
        BFun::Header => std::iter::once(Val::Int(-1)).chain(l.iter().cloned()).collect(),
    }
}

pub fn parse_efun(j: &Value) -> R<EFun> {
    Ok(match tag_of(j) {
        Some(("id", [])) => EFun::Id,
        Some(("add", [c])) => EFun::Add(small(c)?),
        Some(("mul", [c])) => EFun::Mul(small(c)?),
        Some(("mod", [m])) => EFun::Mod(pos(m)?),
        Some(("fst", [])) => EFun::Fst,
        Some(("snd", [])) => EFun::Snd,
        Some(("swap", [])) => EFun::Swap,
        Some(("dup", [])) => EFun::Dup,
        Some(("sum", [])) => EFun::Sum,
        Some(("len", [])) => EFun::Len,
        Some(("wrap", [])) => EFun::Wrap,
        Some(("keymod", [m])) => EFun::KeyMod(pos(m)?),
        Some(("comp", [f, g])) => EFun::Comp(Box::new(parse_efun(f)?), Box::new(parse_efun(g)?)),
        _ => return bad("efun", j),
    })
}
pub fn efun_json(f: &EFun) -> Value {
    match f {
        EFun::Id => json!(["id"]),
        EFun::Add(c) => json!(["add", c]),
        EFun::Mul(c) => json!(["mul", c]),
        EFun::Mod(m) => json!(["mod", m]),
        EFun::Fst => json!(["fst"]),
        EFun::Snd => json!(["snd"]),
        EFun::Swap => json!(["swap"]),
        EFun::Dup => json!(["dup"]),
        EFun::Sum => json!(["sum"]),
        EFun::Len => json!(["len"]),
        EFun::Wrap => json!(["wrap"]),
        EFun::KeyMod(m) => json!(["keymod", m]),
        EFun::Comp(f, g) => json!(["comp", efun_json(f), efun_json(g)]),
    }
}
pub fn parse_pfun(j: &Value) -> R<PFun> {
    Ok(match tag_of(j) {
        Some(("true", [])) => PFun::True,
        Some(("false", [])) => PFun::False,
        Some(("modeq", [m, r])) => PFun::ModEq(pos(m)?, small(r)?),
        Some(("lt", [c])) => PFun::Lt(small(c)?),
        Some(("not", [p])) => PFun::Not(Box::new(parse_pfun(p)?)),
        _ => return bad("pfun", j),
    })
}
pub fn pfun_json(p: &PFun) -> Value {
    match p {
        PFun::True => json!(["true"]),
        PFun::False => json!(["false"]),
        PFun::ModEq(m, r) => json!(["modeq", m, r]),
        PFun::Lt(c) => json!(["lt", c]),
        PFun::Not(q) => json!(["not", pfun_json(q)]),
    }
}
pub fn parse_gfun(j: &Value) -> R<GFun> {
    Ok(match tag_of(j) {
        Some(("repeat", [n])) => GFun::Repeat(nat(n)?),
        Some(("upto", [m])) => GFun::UpTo(pos(m)?),
        Some(("elems", [])) => GFun::Elems,
        Some(("none", [])) => GFun::None,
        _ => return bad("gfun", j),
    })
}
pub fn gfun_json(g: &GFun) -> Value {
    match g {
        GFun::Repeat(n) => json!(["repeat", n]),
        GFun::UpTo(m) => json!(["upto", m]),
        GFun::Elems => json!(["elems"]),
        GFun::None => json!(["none"]),
    }
}
pub fn parse_bfun(j: &Value) -> R<BFun> {
    Ok(match tag_of(j) {
        Some(("each", [f])) => BFun::Each(parse_efun(f)?),
        Some(("rev", [])) => BFun::Rev,
        Some(("droplast", [])) => BFun::DropLast,
        Some(("dup", [])) => BFun::Dup,
        Some(("header", [])) => BFun::Header,
        _ => return bad("bfun", j),
    })
}
pub fn bfun_json(b: &BFun) -> Value {
    match b {
        BFun::Each(f) => json!(["each", efun_json(f)]),
        BFun::Rev => json!(["rev"]),
        BFun::DropLast => json!(["droplast"]),
        BFun::Dup => json!(["dup"]),
        BFun::Header => json!(["header"]),
    }
}
pub fn parse_cid(j: &Value) -> R<Cid> {
    Ok(match tag_of(j) {
        Some(("sum", [])) => Cid::Sum,
        Some(("count", [])) => Cid::Count,
        Some(("min", [])) => Cid::Min,
        Some(("max", [])) => Cid::Max,
        Some(("topk", [k])) => Cid::TopK(nat(k)?),
        Some(("distinct", [])) => Cid::Distinct,
        Some(("summod", [m])) => Cid::SumMod(pos(m)?),
        Some(("gcd", [])) => Cid::Gcd,
        _ => return bad("cid", j),
    })
}
pub fn cid_json(c: &Cid) -> Value {
    match c {
        Cid::Sum => json!(["sum"]),
        Cid::Count => json!(["count"]),
        Cid::Min => json!(["min"]),
        Cid::Max => json!(["max"]),
        Cid::TopK(k) => json!(["topk", k]),
        Cid::Distinct => json!(["distinct"]),
        Cid::SumMod(m) => json!(["summod", m]),
        Cid::Gcd => json!(["gcd"]),
    }
}

// ------------------------------------------------------------------ steps, sources, typing

#[derive(Clone, Copy, Debug, PartialEq, Eq)]
pub enum Shape {
    U,
    KV,
    KG,
    KW,
    L,
}
#[derive(Clone, Copy, Debug, PartialEq, Eq)]
pub enum JoinKind {
    Inner,
    Left,
    Right,
    Full,
}
impl JoinKind {
    pub fn name(self) -> &'static str {
        match self {
            JoinKind::Inner => "inner",
            JoinKind::Left => "left",
            JoinKind::Right => "right",
            JoinKind::Full => "full",
        }
    }
}

#[derive(Clone, Debug, PartialEq)]
pub enum Step {
    Map(EFun),
    Filter(PFun),
    FlatMap(GFun),
    KeyBy(EFun),
    Unkey,
    MapValues(EFun),
    FilterValues(PFun),
    MapValuesW(EFun),
    FilterValuesW(PFun),
    MapValuesBack(EFun),
    MapBatches(usize, BFun),
    MapValuesBatches(usize, BFun),
    GroupByKey,
    CombineValues(Cid),
    CombineValuesLifted(Cid),
    CombineGlobally(Cid, bool, Option<usize>),
    Distinct,
    DistinctPerKey,
    TopKPerKey(usize),
    GroupsToList,
    Join(JoinKind, Vec<Step>, Vec<Val>),
    /// map_with_side(&side_vec(side), ..)
    MapWithSide(Vec<Val>, SFun),
    /// filter_with_side(&side_vec(side), ..): predicate on the whole element
    FilterWithSide(Vec<Val>, SPred),
    /// map_with_side_map(&side_hashmap(pairs), lookup or default)
    MapWithSideMap(Vec<Val>, i64),
    /// try_map: Ok(f x) when p x, else Err; only as the LAST step of a program (applied by the
    /// runner, see `run_program`; rows are reported as Some(v) / None)
    TryMap(EFun, PFun),
    /// the debug taps of ironbeam::testing::PCollectionDebugExt (identity on any shape):
    /// 0 debug_inspect, 1 debug_inspect_with (a counting closure), 2 debug_count, k >= 3 debug_sample(k - 3)
    Debug(usize),
    /// apply_transform::<Val>(Arc::new(CustomMapOp(f))): a user-written DynOp with default hints
    CustomMap(EFun),
}

#[derive(Clone, Debug, PartialEq)]
pub enum Src {
    Vec(Shape, Vec<Val>),
    Sharded(Shape, Vec<Vec<Val>>, usize),
    /// `from_custom_source` over a Vec payload with a user-written VecOps whose `len` is `None`
    NoLen(Shape, Vec<Val>),
}
/// a user-written VecOps: splits and clones like the built-in one but cannot tell its length
pub struct NoLenOps(pub Arc<dyn ironbeam::VecOps>);
impl ironbeam::VecOps for NoLenOps {
    fn len(&self, _data: &dyn std::any::Any) -> Option<usize> {
        None
    }
    fn split(&self, data: &dyn std::any::Any, n: usize) -> Option<Vec<ironbeam::Partition>> {
        self.0.split(data, n)
    }
    fn clone_any(&self, data: &dyn std::any::Any) -> Option<ironbeam::Partition> {
        self.0.clone_any(data)
    }
}
fn nolen_source<T: ironbeam::RFBound>(p: &Pipeline, rows: Vec<T>) -> PCollection<T> {
    ironbeam::from_custom_source::<T, Vec<T>>(p, rows, Arc::new(NoLenOps(ironbeam::type_token::vec_ops_for::<T>())))
}
impl Src {
    pub fn shape(&self) -> Shape {
        match self {
            Src::Vec(s, _) | Src::Sharded(s, _, _) | Src::NoLen(s, _) => *s,
        }
    }
    pub fn len(&self) -> usize {
        match self {
            Src::Vec(_, d) | Src::NoLen(_, d) => d.len(),
            Src::Sharded(_, sh, _) => sh.iter().map(Vec::len).sum(),
        }
    }
    pub fn data(&self) -> Vec<Val> {
        match self {
            Src::Vec(_, d) | Src::NoLen(_, d) => d.clone(),
            Src::Sharded(_, sh, _) => sh.concat(),
        }
    }
}

pub fn parse_step(j: &Value) -> R<Step> {
    Ok(match tag_of(j) {
        Some(("map", [f])) => Step::Map(parse_efun(f)?),
        Some(("filter", [p])) => Step::Filter(parse_pfun(p)?),
        Some(("flat_map", [g])) => Step::FlatMap(parse_gfun(g)?),
        Some(("key_by", [f])) => Step::KeyBy(parse_efun(f)?),
        Some(("unkey", [])) => Step::Unkey,
        Some(("map_values", [f])) => Step::MapValues(parse_efun(f)?),
        Some(("filter_values", [p])) => Step::FilterValues(parse_pfun(p)?),
        Some(("map_values_w", [f])) => Step::MapValuesW(parse_efun(f)?),
        Some(("filter_values_w", [p])) => Step::FilterValuesW(parse_pfun(p)?),
        Some(("map_values_back", [f])) => Step::MapValuesBack(parse_efun(f)?),
        Some(("map_batches", [n, b])) => Step::MapBatches(batch_nat(n)?, parse_bfun(b)?),
        Some(("map_values_batches", [n, b])) => Step::MapValuesBatches(batch_nat(n)?, parse_bfun(b)?),
        Some(("group_by_key", [])) => Step::GroupByKey,
        Some(("combine_values", [c])) => Step::CombineValues(parse_cid(c)?),
        Some(("combine_values_lifted", [c])) => Step::CombineValuesLifted(parse_cid(c)?),
        Some(("combine_globally", [c, l, f])) => {
            let lifted = match l.as_bool() {
                Some(b) => b,
                None => return bad("lifted flag", l),
            };
            // a fan-out may be any usize (the model clamps huge ones: they all mean "one group")
            let fanout = if f.is_null() {
                None
            } else {
                match f.as_i64() {
                    Some(z) if z >= 0 => Some(z as usize),
                    _ => return bad("fanout", f),
                }
            };
            Step::CombineGlobally(parse_cid(c)?, lifted, fanout)
        }
        Some(("distinct", [])) => Step::Distinct,
        Some(("distinct_per_key", [])) => Step::DistinctPerKey,
        Some(("top_k_per_key", [k])) => Step::TopKPerKey(nat(k)?),
        Some(("groups_to_list", [])) => Step::GroupsToList,
        Some(("map_with_side", [sd, h])) => Step::MapWithSide(parse_vals(sd)?, match tag_of(h) {
            Some(("addlen", [])) => SFun::AddLen,
            Some(("addsum", [])) => SFun::AddSum,
            _ => return bad("sfun", h),
        }),
        Some(("filter_with_side", [sd, q])) => Step::FilterWithSide(parse_vals(sd)?, match tag_of(q) {
            Some(("in", [])) => SPred::In,
            Some(("notin", [])) => SPred::NotIn,
            Some(("lengt", [n])) => SPred::LenGt(nat(n)?),
            _ => return bad("spred", q),
        }),
        Some(("map_with_side_map", [prs, d])) => {
            let prs = parse_vals(prs)?;
            if !prs.iter().all(|v| matches!(v, Val::Pair(..))) {
                return bad("side map pairs", j);
            }
            Step::MapWithSideMap(prs, small(d)?)
        }
        Some(("try_map", [f, p])) => Step::TryMap(parse_efun(f)?, parse_pfun(p)?),
        Some(("debug", [k])) => Step::Debug(nat(k)?),
        Some(("custom_map", [f])) => Step::CustomMap(parse_efun(f)?),
        Some(("join", [k, rs, rd])) => {
            let kind = match k.as_str() {
                Some("inner") => JoinKind::Inner,
                Some("left") => JoinKind::Left,
                Some("right") => JoinKind::Right,
                Some("full") => JoinKind::Full,
                _ => return bad("join kind", k),
            };
            Step::Join(kind, parse_steps(rs)?, parse_vals(rd)?)
        }
        _ => return bad("step", j),
    })
}
pub fn parse_steps(j: &Value) -> R<Vec<Step>> {
    match j.as_array() {
        Some(a) => a.iter().map(parse_step).collect(),
        None => bad("steps", j),
    }
}
pub fn step_json(s: &Step) -> Value {
    match s {
        Step::Map(f) => json!(["map", efun_json(f)]),
        Step::Filter(p) => json!(["filter", pfun_json(p)]),
        Step::FlatMap(g) => json!(["flat_map", gfun_json(g)]),
        Step::KeyBy(f) => json!(["key_by", efun_json(f)]),
        Step::Unkey => json!(["unkey"]),
        Step::MapValues(f) => json!(["map_values", efun_json(f)]),
        Step::FilterValues(p) => json!(["filter_values", pfun_json(p)]),
        Step::MapValuesW(f) => json!(["map_values_w", efun_json(f)]),
        Step::FilterValuesW(p) => json!(["filter_values_w", pfun_json(p)]),
        Step::MapValuesBack(f) => json!(["map_values_back", efun_json(f)]),
        Step::MapBatches(n, b) => json!(["map_batches", n, bfun_json(b)]),
        Step::MapValuesBatches(n, b) => json!(["map_values_batches", n, bfun_json(b)]),
        Step::GroupByKey => json!(["group_by_key"]),
        Step::CombineValues(c) => json!(["combine_values", cid_json(c)]),
        Step::CombineValuesLifted(c) => json!(["combine_values_lifted", cid_json(c)]),
        Step::CombineGlobally(c, l, f) => json!(["combine_globally", cid_json(c), l, f]),
        Step::Distinct => json!(["distinct"]),
        Step::DistinctPerKey => json!(["distinct_per_key"]),
        Step::TopKPerKey(k) => json!(["top_k_per_key", k]),
        Step::GroupsToList => json!(["groups_to_list"]),
        Step::Join(k, rs, rd) => json!(["join", k.name(), steps_json(rs), vals_json(rd)]),
        Step::MapWithSide(sd, h) => json!(["map_with_side", vals_json(sd),
            match h { SFun::AddLen => json!(["addlen"]), SFun::AddSum => json!(["addsum"]) }]),
        Step::FilterWithSide(sd, q) => json!(["filter_with_side", vals_json(sd), match q {
            SPred::In => json!(["in"]),
            SPred::NotIn => json!(["notin"]),
            SPred::LenGt(n) => json!(["lengt", n]),
        }]),
        Step::MapWithSideMap(prs, d) => json!(["map_with_side_map", vals_json(prs), d]),
        Step::TryMap(f, p) => json!(["try_map", efun_json(f), pfun_json(p)]),
        Step::Debug(k) => json!(["debug", k]),
        Step::CustomMap(f) => json!(["custom_map", efun_json(f)]),
    }
}
pub fn steps_json(s: &[Step]) -> Value {
    Value::Array(s.iter().map(step_json).collect())
}
pub fn vals_json(v: &[Val]) -> Value {
    Value::Array(v.iter().map(val_json).collect())
}
fn shape_name(s: Shape) -> R<&'static str> {
    match s {
        Shape::U => Ok("u"),
        Shape::KV => Ok("kv"),
        Shape::KG => Ok("kg"),
        _ => Err("source shape".into()),
    }
}
/// rows 0..n-1 of the compact source form ["range", shape, n]: "u": Int i; "kv": (i mod 7, i)
pub fn range_rows(shape: Shape, n: usize) -> Vec<Val> {
    (0..n as i64)
        .map(|i| if shape == Shape::KV { pair(Val::Int(i % 7), Val::Int(i)) } else { Val::Int(i) })
        .collect()
}
pub fn range_src(shape: Shape, n: usize) -> Src {
    Src::Vec(shape, range_rows(shape, n))
}
pub fn src_json(s: &Src) -> Value {
    match s {
        // long canonical ranges are printed in the compact form (Decode.v expands it identically)
        Src::Vec(sh @ (Shape::U | Shape::KV), d) if d.len() >= 1000 && *d == range_rows(*sh, d.len()) => {
            json!(["range", shape_name(*sh).unwrap(), d.len()])
        }
        Src::Vec(sh, d) => json!(["vec", shape_name(*sh).unwrap(), vals_json(d)]),
        Src::NoLen(sh, d) => json!(["nolen", shape_name(*sh).unwrap(), vals_json(d)]),
        Src::Sharded(sh, shards, total) => json!([
            "sharded",
            shape_name(*sh).unwrap(),
            shards.iter().map(|s| vals_json(s)).collect::<Vec<_>>(),
            total
        ]),
    }
}
pub fn parse_src(j: &Value) -> R<Src> {
    let shape = |s: &Value| match s.as_str() {
        Some("u") => Ok(Shape::U),
        Some("kv") => Ok(Shape::KV),
        Some("kg") => Ok(Shape::KG),
        _ => bad("source shape", s),
    };
    let src = match tag_of(j) {
        Some(("vec", [s, d])) => Src::Vec(shape(s)?, parse_vals(d)?),
        Some(("nolen", [s, d])) => Src::NoLen(shape(s)?, parse_vals(d)?),
        Some(("range", [s, n])) => {
            let shp = shape(s)?;
            if shp == Shape::KG {
                return bad("range source shape", s);
            }
            range_src(shp, nat(n)?)
        }
        Some(("sharded", [s, sh, n])) => {
            let sh = match sh.as_array() {
                Some(a) => a.iter().map(parse_vals).collect::<R<Vec<_>>>()?,
                None => return bad("shards", sh),
            };
            let shp = shape(s)?;
            if shp == Shape::KG {
                return bad("sharded source shape", s);
            }
            Src::Sharded(shp, sh, nat(n)?)
        }
        _ => return bad("source", j),
    };
    // rows must have the row type of the shape
    let ok_row = |v: &Val| match src.shape() {
        Shape::U => true,
        Shape::KV => matches!(v, Val::Pair(..)),
        Shape::KG => matches!(v, Val::Pair(_, b) if matches!(**b, Val::List(_))),
        _ => false,
    };
    if !src.data().iter().all(ok_row) {
        return Err("source row does not have the shape's row type".into());
    }
    Ok(src)
}

/// Typing rules of the step language (the model's `compile` assumes them).
pub fn step_shape(s: &Step, t: Shape) -> R<Shape> {
    use Shape::*;
    let need = |ok: bool, out: Shape| if ok { Ok(out) } else { Err(format!("ill-typed step {s:?} on {t:?}")) };
    match s {
        Step::Map(_) | Step::KeyBy(_) | Step::MapBatches(..) | Step::CombineGlobally(..)
        | Step::MapWithSide(..) | Step::MapWithSideMap(..) | Step::TryMap(..) | Step::CustomMap(_) if t != U => {
            need(false, U)
        }
        Step::CustomMap(_) => Ok(U),
        Step::Debug(_) => Ok(t),
        Step::MapWithSide(..) | Step::MapWithSideMap(..) => Ok(U),
        // the element type becomes Result<Val, String>: nothing may follow (see steps_shape)
        Step::TryMap(..) => Ok(U),
        Step::FilterWithSide(..) => Ok(t),
        Step::Map(_) => Ok(U),
        Step::KeyBy(_) => Ok(KV),
        Step::MapBatches(..) => Ok(U),
        Step::CombineGlobally(c, _, _) => Ok(if c.list_out() { L } else { U }),
        Step::Filter(_) => Ok(t),
        Step::FlatMap(g) => match (g, t) {
            (GFun::UpTo(_), U) => Ok(U),
            (GFun::Elems, U) => Ok(U),
            (GFun::Elems, KG) => Ok(KV),
            (GFun::Elems, L) => Ok(U),
            (GFun::Repeat(_) | GFun::None, U | KV | KW | L) => Ok(t),
            _ => need(false, t),
        },
        Step::Unkey => need(t == KV, U),
        Step::MapValues(_) | Step::FilterValues(_) | Step::MapValuesBatches(..) => need(t == KV, KV),
        Step::MapValuesW(_) => need(t == KV, KW),
        Step::FilterValuesW(_) => need(t == KW, KW),
        Step::MapValuesBack(_) => need(t == KW, KV),
        Step::GroupByKey => need(t == KV, KG),
        Step::CombineValues(c) => need(t == KV, if c.list_out() { KG } else { KV }),
        Step::CombineValuesLifted(c) => need(t == KG, if c.list_out() { KG } else { KV }),
        Step::Distinct => need(t == U || t == KV, t),
        Step::DistinctPerKey => need(t == KV, KV),
        Step::TopKPerKey(_) => need(t == KV, KG),
        Step::GroupsToList => need(t == KG, KV),
        Step::Join(_, rs, _) => {
            if t != KV || steps_shape(rs, KV)? != KV {
                return need(false, KV);
            }
            Ok(KV)
        }
    }
}
pub fn steps_shape(steps: &[Step], mut t: Shape) -> R<Shape> {
    for (i, s) in steps.iter().enumerate() {
        if matches!(s, Step::TryMap(..)) && i + 1 != steps.len() {
            return Err("try_map is only allowed as the last step".into());
        }
        if let Step::Join(_, rs, _) = s {
            if rs.iter().any(|r| matches!(r, Step::TryMap(..))) {
                return Err("try_map inside a join side".into());
            }
        }
        t = step_shape(s, t)?;
    }
    Ok(t)
}

// ---- classifiers mirrored in Engine/Canon.v (used only to steer generators and to tag cases)

pub fn elementwise_step(s: &Step) -> bool {
    match s {
        Step::Map(_) | Step::Filter(_) | Step::FlatMap(_) | Step::KeyBy(_) | Step::Unkey
        | Step::MapValues(_) | Step::FilterValues(_) | Step::MapValuesW(_) | Step::FilterValuesW(_)
        | Step::MapValuesBack(_) | Step::GroupsToList => true,
        Step::MapWithSide(..) | Step::FilterWithSide(..) | Step::MapWithSideMap(..) | Step::TryMap(..) => true,
        Step::Debug(_) | Step::CustomMap(_) => true,
        Step::MapBatches(_, BFun::Each(_) | BFun::Dup) | Step::MapValuesBatches(_, BFun::Each(_)) => true,
        _ => false,
    }
}
pub fn has_barrier(steps: &[Step]) -> bool {
    !steps.iter().all(elementwise_step)
}
/// the step iterates a HashMap / HashSet: row order (or list order) downstream is arbitrary
pub fn hash_step(s: &Step) -> bool {
    matches!(
        s,
        Step::GroupByKey | Step::CombineValues(_) | Step::CombineValuesLifted(_) | Step::Distinct
            | Step::DistinctPerKey | Step::TopKPerKey(_) | Step::Join(..)
            | Step::CombineGlobally(Cid::Distinct, _, _)
    )
}
/// a batch function that is not element-wise: the result legitimately depends on the partitioning
pub fn partition_dependent(steps: &[Step]) -> bool {
    steps.iter().any(|s| match s {
        Step::MapBatches(_, b) => !matches!(b, BFun::Each(_) | BFun::Dup),
        Step::MapValuesBatches(_, b) => !matches!(b, BFun::Each(_)),
        Step::Join(_, rs, _) => partition_dependent(rs),
        _ => false,
    })
}
pub fn is_join(s: &Step) -> bool {
    matches!(s, Step::Join(..))
}
/// a join fed by another join (on either side)
pub fn nested_join(steps: &[Step]) -> bool {
    let mut seen = false;
    for s in steps {
        if let Step::Join(_, rs, _) = s {
            if seen || rs.iter().any(is_join) {
                return true;
            }
            seen = true;
        }
    }
    false
}
/// cost hint of a value-only / key-preserving / reorder-safe operator, None for any other operator
fn vo_cost(s: &Step) -> Option<Vec<Option<u8>>> {
    // one entry per stateless operator the step compiles to; None entry = not value-only;
    // outer None = the step is a barrier
    Some(match s {
        Step::MapValues(_) | Step::MapValuesW(_) | Step::MapValuesBack(_) => vec![Some(3)],
        Step::FilterValues(_) | Step::FilterValuesW(_) => vec![Some(1)],
        Step::MapValuesBatches(..) => vec![Some(2)],
        Step::Map(_) | Step::Filter(_) | Step::FlatMap(_) | Step::KeyBy(_) | Step::Unkey
        | Step::MapBatches(..) | Step::GroupsToList | Step::MapWithSide(..) | Step::FilterWithSide(..)
        | Step::MapWithSideMap(..) | Step::TryMap(..) | Step::Debug(_) | Step::CustomMap(_) => vec![None],
        _ => return None,
    })
}
/// The open known-finding class "C02-reorder": in the chain that is finally planned (the steps
/// after the last join; a join freezes everything upstream unoptimised) some maximal run of
/// stateless operators consists only of value-only operators, has length >= 2, and its stable
/// sort by (cost != 1, cost) differs from the written order.
pub fn reorder_changes(steps: &[Step]) -> bool {
    let start = steps.iter().rposition(is_join).map_or(0, |i| i + 1);
    // operators of the planned chain, barriers as separators; the join's own map and the
    // flat_map tails of distinct / distinct_per_key are non-value-only operators
    let mut runs: Vec<Vec<Option<u8>>> = vec![vec![]];
    if start > 0 {
        runs.last_mut().unwrap().push(None);
    }
    for s in &steps[start..] {
        match vo_cost(s) {
            Some(ops) => runs.last_mut().unwrap().extend(ops),
            None => {
                runs.push(vec![]);
                if matches!(s, Step::Distinct | Step::DistinctPerKey) {
                    runs.last_mut().unwrap().push(None);
                }
            }
        }
    }
    runs.iter().any(|run| {
        if run.len() < 2 || run.iter().any(Option::is_none) {
            return false;
        }
        let costs: Vec<u8> = run.iter().map(|c| c.unwrap()).collect();
        let mut sorted = costs.clone();
        sorted.sort_by_key(|c| (*c != 1, *c));
        sorted != costs
    })
}

// ------------------------------------------------------------------ user combiners (Lang.comb_*)

#[derive(Clone)]
pub struct CountC;
impl CombineFn<Val, i64, Val> for CountC {
    fn create(&self) -> i64 {
        0
    }
    fn add_input(&self, acc: &mut i64, _v: Val) {
        *acc += 1;
    }
    fn merge(&self, acc: &mut i64, other: i64) {
        *acc += other;
    }
    fn finish(&self, acc: i64) -> Val {
        Val::Int(acc)
    }
}
impl LiftableCombiner<Val, i64, Val> for CountC {
    fn build_from_group(&self, values: &[Val]) -> i64 {
        values.len() as i64
    }
}

#[derive(Clone)]
pub struct SumModC(pub i64);
impl CombineFn<Val, i64, Val> for SumModC {
    fn create(&self) -> i64 {
        0
    }
    fn add_input(&self, acc: &mut i64, v: Val) {
        *acc = (*acc + vint(&v)).rem_euclid(self.0);
    }
    fn merge(&self, acc: &mut i64, other: i64) {
        *acc = (*acc + other).rem_euclid(self.0);
    }
    fn finish(&self, acc: i64) -> Val {
        Val::Int(acc)
    }
}
// this user combiner relies on the PROVIDED `build_from_group` of the trait (create + add_input
// over the group), like most user-written liftable combiners do
impl LiftableCombiner<Val, i64, Val> for SumModC {}

pub fn zgcd(a: i64, b: i64) -> i64 {
    let (mut a, mut b) = (a.unsigned_abs(), b.unsigned_abs());
    while b != 0 {
        (a, b) = (b, a % b);
    }
    a as i64
}
#[derive(Clone)]
pub struct GcdC;
impl CombineFn<Val, i64, Val> for GcdC {
    fn create(&self) -> i64 {
        0
    }
    fn add_input(&self, acc: &mut i64, v: Val) {
        *acc = zgcd(*acc, vint(&v));
    }
    fn merge(&self, acc: &mut i64, other: i64) {
        *acc = zgcd(*acc, other);
    }
    fn finish(&self, acc: i64) -> Val {
        Val::Int(acc)
    }
}
impl LiftableCombiner<Val, i64, Val> for GcdC {
    fn build_from_group(&self, values: &[Val]) -> i64 {
        values.iter().fold(0i64, |a, v| zgcd(a, vint(v)))
    }
}

// ------------------------------------------------------------------ building the real pipeline

pub enum Coll {
    U(PCollection<Val>),
    KV(PCollection<(Val, Val)>),
    KG(PCollection<(Val, Vec<Val>)>),
    KW(PCollection<(Val, Wrapped)>),
    L(PCollection<Vec<Val>>),
}

/// a row of any shape as the model's value
pub trait Row: Clone + Send + Sync + 'static {
    fn to_val(&self) -> Val;
}
impl Row for Val {
    fn to_val(&self) -> Val {
        self.clone()
    }
}
impl Row for (Val, Val) {
    fn to_val(&self) -> Val {
        pair(self.0.clone(), self.1.clone())
    }
}
impl Row for (Val, Vec<Val>) {
    fn to_val(&self) -> Val {
        pair(self.0.clone(), Val::List(self.1.clone()))
    }
}
impl Row for (Val, Wrapped) {
    fn to_val(&self) -> Val {
        pair(self.0.clone(), self.1.0.clone())
    }
}
impl Row for Vec<Val> {
    fn to_val(&self) -> Val {
        Val::List(self.clone())
    }
}
/// try_map results: Ok(v) -> Some(v), Err -> None (converted after collecting)
impl Row for Result<Val, String> {
    fn to_val(&self) -> Val {
        match self {
            Ok(v) => Val::Some(Box::new(v.clone())),
            Err(_) => Val::None,
        }
    }
}

static TICK: AtomicU64 = AtomicU64::new(0);
/// disturb rayon's schedule a little: every few closure calls yield the worker thread, now and
/// then spin for a moment (closures stay pure: nothing observable depends on it)
fn perturb() {
    let t = TICK.fetch_add(1, Ordering::Relaxed);
    if t % 5 == 0 {
        std::thread::yield_now();
    }
    if t % 97 == 0 {
        for _ in 0..200 {
            std::hint::spin_loop();
        }
    }
}

fn filt<T: Row>(c: PCollection<T>, p: &PFun) -> PCollection<T> {
    let p = p.clone();
    c.filter(move |r: &T| {
        perturb();
        pf(&p, &r.to_val())
    })
}
/// a user-written stateless operator (default capability hints): maps `ef f` over Vec<Val>
pub struct CustomMapOp(pub EFun);
impl ironbeam::DynOp for CustomMapOp {
    fn apply(&self, input: ironbeam::Partition) -> ironbeam::Partition {
        let v = input.downcast::<Vec<Val>>().expect("CustomMapOp input type");
        Box::new(v.iter().map(|x| ef(&self.0, x)).collect::<Vec<Val>>()) as ironbeam::Partition
    }
}
static DEBUG_SEEN: AtomicU64 = AtomicU64::new(0);
fn tap<T: Row + std::fmt::Debug>(c: PCollection<T>, k: usize) -> PCollection<T> {
    use ironbeam::testing::PCollectionDebugExt;
    match k {
        0 => c.debug_inspect("l"),
        1 => c.debug_inspect_with("l", |_| {
            DEBUG_SEEN.fetch_add(1, Ordering::Relaxed);
        }),
        2 => c.debug_count("l"),
        _ => c.debug_sample(k - 3, "l"),
    }
}
fn filt_side<T: Row>(c: PCollection<T>, side: &[Val], q: &SPred) -> PCollection<T> {
    let q = q.clone();
    c.filter_with_side(&side_vec(side.to_vec()), move |r: &T, s: &[Val]| {
        perturb();
        spn(&q, s, &r.to_val())
    })
}
/// Batch sizes travel as JSON integers below 2^62: `BATCH_MAX` stands for `usize::MAX` ("the whole
/// partition in one call"), `BATCH_MAX - 1` for `usize::MAX / 2`.  The model treats every size
/// beyond a million alike (Decode.v clamps it): one chunk per partition.
pub const BATCH_MAX: usize = 1 << 61;
pub fn real_batch(n: usize) -> usize {
    if n == BATCH_MAX {
        usize::MAX
    } else if n == BATCH_MAX - 1 {
        usize::MAX / 2
    } else {
        n
    }
}
/// a user-written composite transform: one map
struct MapComposite(EFun);
impl ironbeam::extensions::CompositeTransform<Val, Val> for MapComposite {
    fn expand(&self, input: PCollection<Val>) -> PCollection<Val> {
        let f = self.0.clone();
        input.map(move |x: &Val| {
            perturb();
            ef(&f, x)
        })
    }
}
fn rep<T: Row>(c: PCollection<T>, n: usize) -> PCollection<T> {
    c.flat_map(move |r: &T| vec![r.clone(); n])
}

/// scalar-output combiners: `$body` is expanded once per combiner with `$c` bound to it
#[macro_export]
macro_rules! with_scalar_comb {
    ($cid:expr, $c:ident => $body:expr) => {
        match $cid {
            Cid::Sum => {
                let $c = Sum::<Val>::new();
                $body
            }
            Cid::Count => {
                let $c = CountC;
                $body
            }
            Cid::Min => {
                let $c = Min::<Val>::new();
                $body
            }
            Cid::Max => {
                let $c = Max::<Val>::new();
                $body
            }
            Cid::SumMod(m) => {
                let $c = SumModC(*m);
                $body
            }
            Cid::Gcd => {
                let $c = GcdC;
                $body
            }
            Cid::TopK(_) | Cid::Distinct => unreachable!(),
        }
    };
}
#[macro_export]
macro_rules! with_list_comb {
    ($cid:expr, $c:ident => $body:expr) => {
        match $cid {
            Cid::TopK(k) => {
                let $c = TopK::<Val>::new(*k);
                $body
            }
            Cid::Distinct => {
                let $c = DistinctSet::<Val>::default();
                $body
            }
            _ => unreachable!(),
        }
    };
}

fn unjoin<V: Row, W: Row>(
    c: PCollection<(Val, (V, W))>,
    fv: fn(&V) -> Val,
    fw: fn(&W) -> Val,
) -> PCollection<(Val, Val)> {
    c.map(move |r: &(Val, (V, W))| (r.0.clone(), pair(fv(&r.1.0), fw(&r.1.1))))
}
impl Row for Option<Val> {
    fn to_val(&self) -> Val {
        match self {
            None => Val::None,
            Some(x) => Val::Some(Box::new(x.clone())),
        }
    }
}
fn plain(v: &Val) -> Val {
    v.clone()
}
fn opt(v: &Option<Val>) -> Val {
    v.to_val()
}

pub fn apply_step(p: &Pipeline, c: Coll, s: &Step) -> R<Coll> {
    use Coll::*;
    let ill = || Err(format!("ill-typed step {s:?}"));
    Ok(match (s, c) {
        // maps written `x + c` with c divisible by 3 go through a user CompositeTransform
        // (extensions.rs: apply_composite) that expands to the same single map
        (Step::Map(f @ EFun::Add(k)), U(c)) if k % 3 == 0 => U(c.apply_composite(&MapComposite(f.clone()))),
        (Step::Map(f), U(c)) => {
            let f = f.clone();
            U(c.map(move |x: &Val| {
                perturb();
                ef(&f, x)
            }))
        }
        (Step::MapWithSide(side, h), U(c)) => {
            let h = h.clone();
            U(c.map_with_side(&side_vec(side.clone()), move |x: &Val, s: &[Val]| sfn(&h, s, x)))
        }
        (Step::MapWithSideMap(prs, d), U(c)) => {
            let d = *d;
            let pairs: Vec<(Val, Val)> = kv_rows(prs);
            U(c.map_with_side_map(&side_hashmap(pairs), move |x: &Val, m: &std::collections::HashMap<Val, Val>| {
                m.get(x).cloned().unwrap_or(Val::Int(d))
            }))
        }
        (Step::CustomMap(f), U(c)) => U(c.apply_transform::<Val>(std::sync::Arc::new(CustomMapOp(f.clone())))),
        (Step::Debug(k), U(c)) => U(tap(c, *k)),
        (Step::Debug(k), KV(c)) => KV(tap(c, *k)),
        (Step::Debug(k), KG(c)) => KG(tap(c, *k)),
        (Step::Debug(k), KW(c)) => KW(tap(c, *k)),
        (Step::Debug(k), L(c)) => L(tap(c, *k)),
        (Step::FilterWithSide(side, q), U(c)) => U(filt_side(c, side, q)),
        (Step::FilterWithSide(side, q), KV(c)) => KV(filt_side(c, side, q)),
        (Step::FilterWithSide(side, q), KG(c)) => KG(filt_side(c, side, q)),
        (Step::FilterWithSide(side, q), KW(c)) => KW(filt_side(c, side, q)),
        (Step::FilterWithSide(side, q), L(c)) => L(filt_side(c, side, q)),
        (Step::Filter(p), U(c)) => U(filt(c, p)),
        (Step::Filter(p), KV(c)) => KV(filt(c, p)),
        (Step::Filter(p), KG(c)) => KG(filt(c, p)),
        (Step::Filter(p), KW(c)) => KW(filt(c, p)),
        (Step::Filter(p), L(c)) => L(filt(c, p)),
        (Step::FlatMap(g @ (GFun::UpTo(_) | GFun::Elems)), U(c)) => {
            let g = g.clone();
            U(c.flat_map(move |x: &Val| gf(&g, x)))
        }
        (Step::FlatMap(GFun::Elems), KG(c)) => KV(c.flat_map(|r: &(Val, Vec<Val>)| {
            r.1.iter().map(|x| (r.0.clone(), x.clone())).collect::<Vec<_>>()
        })),
        (Step::FlatMap(GFun::Elems), L(c)) => U(c.flat_map(|r: &Vec<Val>| r.clone())),
        (Step::FlatMap(g @ (GFun::Repeat(_) | GFun::None)), c) => {
            let n = if let GFun::Repeat(n) = g { *n } else { 0 };
            match c {
                U(c) => U(rep(c, n)),
                KV(c) => KV(rep(c, n)),
                KW(c) => KW(rep(c, n)),
                L(c) => L(rep(c, n)),
                KG(_) => return ill(),
            }
        }
        (Step::KeyBy(f), U(c)) => {
            let f = f.clone();
            KV(c.key_by(move |x: &Val| {
                perturb();
                ef(&f, x)
            }))
        }
        (Step::Unkey, KV(c)) => U(c.map(|r: &(Val, Val)| pair(r.0.clone(), r.1.clone()))),
        (Step::MapValues(f), KV(c)) => {
            let f = f.clone();
            KV(c.map_values(move |v: &Val| {
                perturb();
                ef(&f, v)
            }))
        }
        (Step::FilterValues(p), KV(c)) => {
            let p = p.clone();
            KV(c.filter_values(move |v: &Val| pf(&p, v)))
        }
        (Step::MapValuesW(f), KV(c)) => {
            let f = f.clone();
            KW(c.map_values(move |v: &Val| Wrapped(ef(&f, v))))
        }
        (Step::FilterValuesW(p), KW(c)) => {
            let p = p.clone();
            KW(c.filter_values(move |w: &Wrapped| pf(&p, &w.0)))
        }
        (Step::MapValuesBack(f), KW(c)) => {
            let f = f.clone();
            KV(c.map_values(move |w: &Wrapped| ef(&f, &w.0)))
        }
        (Step::MapBatches(n, b), U(c)) => {
            let b = b.clone();
            U(c.map_batches(real_batch(*n), move |chunk: &[Val]| bf(&b, chunk)))
        }
        (Step::MapValuesBatches(n, b), KV(c)) => {
            let b = b.clone();
            KV(c.map_values_batches(real_batch(*n), move |chunk: &[Val]| bf(&b, chunk)))
        }
        (Step::GroupByKey, KV(c)) => KG(c.group_by_key()),
        (Step::CombineValues(cid), KV(c)) => {
            if cid.list_out() {
                with_list_comb!(cid, cb => KG(c.combine_values(cb)))
            } else {
                with_scalar_comb!(cid, cb => KV(c.combine_values(cb)))
            }
        }
        (Step::CombineValuesLifted(cid), KG(c)) => {
            if cid.list_out() {
                with_list_comb!(cid, cb => KG(c.combine_values_lifted(cb)))
            } else {
                with_scalar_comb!(cid, cb => KV(c.combine_values_lifted(cb)))
            }
        }
        (Step::CombineGlobally(cid, lifted, fanout), U(c)) => match (cid.list_out(), *lifted) {
            (true, false) => with_list_comb!(cid, cb => L(c.combine_globally(cb, *fanout))),
            (true, true) => with_list_comb!(cid, cb => L(c.combine_globally_lifted(cb, *fanout))),
            (false, false) => with_scalar_comb!(cid, cb => U(c.combine_globally(cb, *fanout))),
            (false, true) => with_scalar_comb!(cid, cb => U(c.combine_globally_lifted(cb, *fanout))),
        },
        (Step::Distinct, U(c)) => U(c.distinct()),
        (Step::Distinct, KV(c)) => KV(c.distinct()),
        (Step::DistinctPerKey, KV(c)) => KV(c.distinct_per_key()),
        (Step::TopKPerKey(k), KV(c)) => KG(c.top_k_per_key(*k)),
        (Step::GroupsToList, KG(c)) => {
            KV(c.map(|r: &(Val, Vec<Val>)| (r.0.clone(), Val::List(r.1.clone()))))
        }
        (Step::Join(kind, rsteps, rdata), KV(left)) => {
            let rrows: Vec<(Val, Val)> = rdata
                .iter()
                .map(|v| match v {
                    Val::Pair(k, x) => Ok(((**k).clone(), (**x).clone())),
                    _ => Err("right row is not a pair".to_string()),
                })
                .collect::<R<_>>()?;
            // The public API lets the right side live in another Pipeline (the builders snapshot
            // it from `right.pipeline`); the model is pipeline-agnostic.  Deterministically about
            // half of the joins (all four kinds) build their right side in a fresh Pipeline.
            let own = Pipeline::default();
            let rp: &Pipeline =
                if (rrows.len() + rsteps.len() + *kind as usize) % 2 == 0 { &own } else { p };
            let right = match apply_steps(rp, KV(from_vec(rp, rrows)), rsteps)? {
                KV(r) => r,
                _ => return ill(),
            };
            KV(match kind {
                JoinKind::Inner => unjoin(left.join_inner(&right), plain, plain),
                JoinKind::Left => unjoin(left.join_left(&right), plain, opt),
                JoinKind::Right => unjoin(left.join_right(&right), opt, plain),
                JoinKind::Full => unjoin(left.join_full(&right), opt, opt),
            })
        }
        _ => return ill(),
    })
}
pub fn apply_steps(p: &Pipeline, mut c: Coll, steps: &[Step]) -> R<Coll> {
    for s in steps {
        c = apply_step(p, c, s)?;
    }
    Ok(c)
}

fn kv_rows(d: &[Val]) -> Vec<(Val, Val)> {
    d.iter()
        .map(|v| match v {
            Val::Pair(k, x) => ((**k).clone(), (**x).clone()),
            _ => unreachable!(),
        })
        .collect()
}

static FILE_NO: AtomicU64 = AtomicU64::new(0);

/// Write the sharded source as a JSONL file whose `build_jsonl_shards(path, lps)` ranges hold
/// exactly the given shards (blank lines pad a range) and whose line count is `total`.
fn write_sharded<T: Serialize>(dir: &str, shards: &[Vec<T>], total: usize) -> R<(String, usize)> {
    let s = shards.len();
    if total == 0 {
        if s != 0 {
            return Err("empty file has no shards".into());
        }
    } else if s == 0 {
        return Err("non-empty file has at least one shard".into());
    }
    let mut lps_found = None;
    for lps in 1..=total.max(1) {
        if total > 0 && total.div_ceil(lps) != s {
            continue;
        }
        let fits = (0..s).all(|i| shards[i].len() <= ((i + 1) * lps).min(total) - i * lps);
        if fits {
            lps_found = Some(lps);
            break;
        }
    }
    let lps = lps_found.ok_or("no lines_per_shard fits these shards")?;
    std::fs::create_dir_all(dir).map_err(|e| e.to_string())?;
    let path = format!(
        "{dir}/src_{}_{}.jsonl",
        std::process::id(),
        FILE_NO.fetch_add(1, Ordering::SeqCst)
    );
    let mut text = String::new();
    for (i, sh) in shards.iter().enumerate() {
        let size = ((i + 1) * lps).min(total) - i * lps;
        for r in sh {
            text.push_str(&serde_json::to_string(r).map_err(|e| e.to_string())?);
            text.push('\n');
        }
        for _ in sh.len()..size {
            text.push('\n');
        }
    }
    std::fs::write(&path, text).map_err(|e| e.to_string())?;
    Ok((path, lps))
}

pub struct Built {
    pub coll: Coll,
    pub file: Option<String>,
}

fn kg_rows(d: &[Val]) -> Vec<(Val, Vec<Val>)> {
    d.iter()
        .map(|v| match v {
            Val::Pair(k, x) => match &**x {
                Val::List(l) => ((**k).clone(), l.clone()),
                _ => unreachable!(),
            },
            _ => unreachable!(),
        })
        .collect()
}

pub fn build(p: &Pipeline, src: &Src, steps: &[Step], dir: &str) -> R<Built> {
    let mut file = None;
    let c = match src {
        // sources of odd length are built with from_iter (stdlib.rs), the others with from_vec
        Src::Vec(Shape::U, d) if d.len() % 2 == 1 => Coll::U(ironbeam::from_iter(p, d.iter().cloned())),
        Src::Vec(Shape::KV, d) if d.len() % 2 == 1 => Coll::KV(ironbeam::from_iter(p, kv_rows(d))),
        Src::Vec(Shape::U, d) => Coll::U(from_vec(p, d.clone())),
        Src::Vec(Shape::KV, d) => Coll::KV(from_vec(p, kv_rows(d))),
        Src::Vec(Shape::KG, d) => Coll::KG(from_vec(p, kg_rows(d))),
        Src::NoLen(Shape::U, d) => Coll::U(nolen_source(p, d.clone())),
        Src::NoLen(Shape::KV, d) => Coll::KV(nolen_source(p, kv_rows(d))),
        Src::NoLen(Shape::KG, d) => Coll::KG(nolen_source(p, kg_rows(d))),
        Src::Sharded(Shape::U, sh, total) => {
            let (path, lps) = write_sharded(dir, sh, *total)?;
            file = Some(path.clone());
            Coll::U(read_jsonl_streaming::<Val>(p, &path, lps).map_err(|e| e.to_string())?)
        }
        Src::Sharded(Shape::KV, sh, total) => {
            let rows: Vec<Vec<(Val, Val)>> = sh.iter().map(|s| kv_rows(s)).collect();
            let (path, lps) = write_sharded(dir, &rows, *total)?;
            file = Some(path.clone());
            Coll::KV(read_jsonl_streaming::<(Val, Val)>(p, &path, lps).map_err(|e| e.to_string())?)
        }
        _ => return Err("unsupported source".into()),
    };
    Ok(Built { coll: apply_steps(p, c, steps)?, file })
}

// ------------------------------------------------------------------ running

#[derive(Clone, Copy, Debug, PartialEq)]
pub enum Mode {
    Seq,
    Par(usize),
}

pub fn rows_json<T: Row>(r: anyhow::Result<Vec<T>>) -> Value {
    match r {
        Ok(rows) => json!(["ok", rows.iter().map(|r| val_json(&r.to_val())).collect::<Vec<_>>()]),
        Err(e) => {
            let m = format!("{e:#}");
            let class = if m.contains("terminal type mismatch") {
                "terminal_mismatch"
            } else if m.contains("nested CoGroup") {
                "nested_cogroup"
            } else if m.contains("element failed") {
                "fail_fast"
            } else if m.contains("must start with a Source") {
                "no_source"
            } else if m.contains("unexpected additional source")
                || m.contains("unexpected source/materialized")
            {
                "extra_source"
            } else {
                "other"
            };
            json!(["err", class])
        }
    }
}

pub fn threads() -> Option<usize> {
    crate::opt("threads").and_then(|s| s.parse().ok())
}

/// `Mode::Par(AUTO_PARTS)` stands for `partitions: None`: the runner then takes the planner's
/// suggestion (64k rows per partition clamped to [cpus, 8 cpus]) or its default (2 x cpus).  That
/// number depends on the machine, so AUTO cases are generated only for programs whose result does
/// not depend on the partitioning; the model runs them with AUTO_PARTS (clamped to the length).
pub const AUTO_PARTS: usize = 100_003;
pub fn parts_arg(n: usize) -> Option<usize> {
    if n == AUTO_PARTS { None } else { Some(n) }
}
/// replace the partition count by AUTO with probability 1/d where the program allows it
pub fn maybe_auto(rng: &mut SplitMix64, steps: &[Step], mode: Mode, d: u64) -> Mode {
    match mode {
        Mode::Par(_) if !partition_dependent(steps) && rng.chance(1, d) => Mode::Par(AUTO_PARTS),
        m => m,
    }
}
fn collect<T: Row>(c: PCollection<T>, mode: Mode) -> Value {
    rows_json(match mode {
        Mode::Seq => c.collect_seq(),
        Mode::Par(n) => c.collect_par(threads(), parts_arg(n)),
    })
}

/// run `f` on a watchdog thread (5 s => ["hang"]) under catch_unwind (=> ["panic"]); `f` records
/// the scratch file of a sharded source so that it can be removed afterwards
/// time limit of the watchdog for the case being run: 5 s plus 1 ms per source row (a loaded
/// machine must not turn a 70 000-row case into a "hang"); set by `set_watchdog_for`
static WATCHDOG_MS: AtomicU64 = AtomicU64::new(5000);
pub fn set_watchdog_for(rows: usize) {
    WATCHDOG_MS.store(5000 + rows as u64, Ordering::SeqCst);
}
fn watchdog(f: impl FnOnce(&mut Option<String>) -> Value + Send + 'static) -> Value {
    let (tx, rx) = mpsc::channel::<(Value, Option<String>)>();
    std::thread::spawn(move || {
        let mut file = None;
        let out = catch_unwind(AssertUnwindSafe(|| f(&mut file))).unwrap_or_else(|_| json!(["panic"]));
        let _ = tx.send((out, file));
    });
    match rx.recv_timeout(Duration::from_millis(WATCHDOG_MS.load(Ordering::SeqCst))) {
        Ok((v, file)) => {
            if let Some(f) = file {
                let _ = std::fs::remove_file(f);
            }
            v
        }
        Err(_) => json!(["hang"]),
    }
}

fn collect_coll(c: Coll, mode: Mode) -> Value {
    match c {
        Coll::U(c) => collect(c, mode),
        Coll::KV(c) => collect(c, mode),
        Coll::KG(c) => collect(c, mode),
        Coll::KW(c) => collect(c, mode),
        Coll::L(c) => collect(c, mode),
    }
}
pub fn clone_coll(c: &Coll) -> Coll {
    match c {
        Coll::U(c) => Coll::U(c.clone()),
        Coll::KV(c) => Coll::KV(c.clone()),
        Coll::KG(c) => Coll::KG(c.clone()),
        Coll::KW(c) => Coll::KW(c.clone()),
        Coll::L(c) => Coll::L(c.clone()),
    }
}

fn valid_program(src: &Src, steps: &[Step]) -> bool {
    !(src.shape() == Shape::KG && matches!(src, Src::Sharded(..))) && steps_shape(steps, src.shape()).is_ok()
}

/// a trailing try_map is applied here (its element type is Result<Val, String>, which is not one
/// of the `Coll` shapes); `fail_fast` selects `collect_fail_fast` instead of the plain collect
fn finish_program(p: &Pipeline, src: &Src, steps: &[Step], dir: &str, file: &mut Option<String>,
                  mode: Mode, fail_fast: bool) -> Value {
    let (body, last) = match steps.last() {
        Some(Step::TryMap(f, pr)) => (&steps[..steps.len() - 1], Some((f.clone(), pr.clone()))),
        _ => (steps, None),
    };
    let built = match build(p, src, body, dir) {
        Ok(b) => b,
        Err(_) => return json!(["invalid"]),
    };
    *file = built.file.clone();
    match (last, built.coll) {
        (None, c) if !fail_fast => collect_coll(c, mode),
        (Some((f, pr)), Coll::U(c)) => {
            let r = c.try_map(move |x: &Val| {
                perturb();
                // the user error carries the element between markers, so that the element can be
                // recovered from the collector's error whatever wording surrounds it
                if pf(&pr, x) { Ok(ef(&f, x)) } else { Err(format!("e<<{}>>", val_json(x))) }
            });
            if fail_fast {
                match r.collect_fail_fast() {
                    Ok(rows) => rows_json(Ok(rows)),
                    Err(e) => {
                        // "element failed: e<json of the element>": report WHICH element failed
                        let m = format!("{e:#}");
                        let marked = m.split_once("e<<").and_then(|(_, r)| r.split_once(">>")).map(|(j, _)| j.to_string());
                        match marked.and_then(|j| serde_json::from_str::<Value>(&j).ok()) {
                            Some(el) => json!(["err", "fail_fast", el]),
                            None => rows_json::<Val>(Err(e)),
                        }
                    }
                }
            } else {
                collect(r, mode)
            }
        }
        _ => json!(["invalid"]),
    }
}

/// Build the real pipeline for (src, steps) and collect it in `mode`, on a watchdog thread:
/// ["ok", rows] | ["err", class] | ["panic"] | ["hang"] | ["invalid"] (ill-typed program).
pub fn run_program(src: &Src, steps: &[Step], mode: Mode, dir: &str) -> Value {
    if !valid_program(src, steps) {
        return json!(["invalid"]);
    }
    let (src, steps, dir) = (src.clone(), steps.to_vec(), dir.to_string());
    set_watchdog_for(src.len());
    watchdog(move |file| finish_program(&Pipeline::default(), &src, &steps, &dir, file, mode, false))
}
/// a program ending in try_map, through `collect_fail_fast`: ["ok", payloads] | ["err","fail_fast"]
pub fn run_failfast(src: &Src, steps: &[Step], dir: &str) -> Value {
    if !valid_program(src, steps) || !matches!(steps.last(), Some(Step::TryMap(..))) {
        return json!(["invalid"]);
    }
    let (src, steps, dir) = (src.clone(), steps.to_vec(), dir.to_string());
    set_watchdog_for(src.len());
    watchdog(move |file| finish_program(&Pipeline::default(), &src, &steps, &dir, file, Mode::Seq, true))
}

/// Branching: base = src + prefix; A = base + a; B = base + b, all three handles built FIRST in
/// one Pipeline (A before B), then for every mode the handles are collected in the order base,
/// B, A.  Result: one [base, B, A] outcome triple per mode.
pub fn run_branch(src: &Src, prefix: &[Step], a: &[Step], b: &[Step], modes: &[Mode], dir: &str) -> Value {
    let full = |x: &[Step]| [prefix, x].concat();
    let no_try = |x: &[Step]| !x.iter().any(|s| matches!(s, Step::TryMap(..)));
    if !valid_program(src, &full(a)) || !valid_program(src, &full(b)) || !no_try(&full(a)) || !no_try(b) {
        return json!(["invalid"]);
    }
    let (src, prefix, a, b, modes, dir) =
        (src.clone(), prefix.to_vec(), a.to_vec(), b.to_vec(), modes.to_vec(), dir.to_string());
    set_watchdog_for(src.len());
    watchdog(move |file| {
        let p = Pipeline::default();
        let base = match build(&p, &src, &prefix, &dir) {
            Ok(x) => x,
            Err(_) => return json!(["invalid"]),
        };
        *file = base.file.clone();
        let (ha, hb) = match (apply_steps(&p, clone_coll(&base.coll), &a), apply_steps(&p, clone_coll(&base.coll), &b)) {
            (Ok(x), Ok(y)) => (x, y),
            _ => return json!(["invalid"]),
        };
        // every collect on its own catch_unwind: a panic in one handle must not hide the others
        let one = |c: &Coll, m: Mode| {
            let c = clone_coll(c);
            catch_unwind(AssertUnwindSafe(move || collect_coll(c, m))).unwrap_or_else(|_| json!(["panic"]))
        };
        Value::Array(
            modes
                .iter()
                .map(|m| json!([one(&base.coll, *m), one(&hb, *m), one(&ha, *m)]))
                .collect(),
        )
    })
}

fn parse_branch(input: &Value) -> R<(Src, Vec<Step>, Vec<Step>, Vec<Step>, Mode)> {
    let x = input.as_array().ok_or("input")?;
    if x.len() != 5 {
        return Err("input arity".into());
    }
    Ok((parse_src(&x[0])?, parse_steps(&x[1])?, parse_steps(&x[2])?, parse_steps(&x[3])?, parse_mode(&x[4])?))
}
/// kind "branch": in = [src, prefix, a, b, partitions_or_null] -> [base, B, A] outcomes
pub fn run_branch_case(input: &Value, dir: &str) -> Value {
    match parse_branch(input) {
        Ok((src, pre, a, b, mode)) => {
            let v = run_branch(&src, &pre, &a, &b, &[mode], dir);
            match v.as_array() {
                Some(x) if x.len() == 1 && x[0].is_array() => x[0].clone(),
                _ => v,
            }
        }
        Err(_) => json!(["invalid"]),
    }
}
/// kind "branchpair" (C01): in = [src, prefix, a, b, partitions] -> [[seq triple], [par triple]]
pub fn run_branchpair_case(input: &Value, dir: &str) -> Value {
    match parse_branch(input) {
        Ok((src, pre, a, b, Mode::Par(n))) => run_branch(&src, &pre, &a, &b, &[Mode::Seq, Mode::Par(n)], dir),
        _ => json!(["invalid"]),
    }
}
/// kind "failfast": in = [src, steps (ending in try_map), null] -> collect_fail_fast outcome
pub fn run_failfast_case(input: &Value, dir: &str) -> Value {
    let parsed = (|| -> R<(Src, Vec<Step>)> {
        let a = input.as_array().ok_or("input")?;
        if a.len() != 3 || !a[2].is_null() {
            return Err("input".into());
        }
        Ok((parse_src(&a[0])?, parse_steps(&a[1])?))
    })();
    match parsed {
        Ok((src, steps)) => run_failfast(&src, &steps, dir),
        Err(_) => json!(["invalid"]),
    }
}

pub fn parse_mode(j: &Value) -> R<Mode> {
    if j.is_null() { Ok(Mode::Seq) } else { Ok(Mode::Par(nat(j)?)) }
}

/// kind "prog": in = [src, steps, partitions_or_null] -> observed outcome
pub fn run_prog_case(input: &Value, dir: &str) -> Value {
    let parsed = (|| -> R<(Src, Vec<Step>, Mode)> {
        let a = input.as_array().ok_or("input")?;
        if a.len() != 3 {
            return Err("input arity".into());
        }
        Ok((parse_src(&a[0])?, parse_steps(&a[1])?, parse_mode(&a[2])?))
    })();
    match parsed {
        Ok((src, steps, mode)) => run_program(&src, &steps, mode, dir),
        Err(_) => json!(["invalid"]),
    }
}
/// kind "sorted": in = [src, steps, partitions_or_null, which] -> observed outcome of the sorting
/// collectors: which = 0 collect_seq_sorted (sequential only), 1 collect_par_sorted,
/// 2 collect_par_sorted_by_key (pair-shaped results only)
pub fn run_sorted_case(input: &Value, dir: &str) -> Value {
    let parsed = (|| -> R<(Src, Vec<Step>, Mode, usize)> {
        let a = input.as_array().ok_or("input")?;
        if a.len() != 4 {
            return Err("input arity".into());
        }
        Ok((parse_src(&a[0])?, parse_steps(&a[1])?, parse_mode(&a[2])?, nat(&a[3])?))
    })();
    let Ok((src, steps, mode, which)) = parsed else { return json!(["invalid"]) };
    if !valid_program(&src, &steps) || steps.iter().any(|s| matches!(s, Step::TryMap(..))) {
        return json!(["invalid"]);
    }
    match (which, mode) {
        (0, Mode::Seq) | (1 | 2, Mode::Par(_)) => {}
        _ => return json!(["invalid"]),
    }
    let dir = dir.to_string();
    set_watchdog_for(src.len());
    watchdog(move |file| {
        let built = match build(&Pipeline::default(), &src, &steps, &dir) {
            Ok(b) => b,
            Err(_) => return json!(["invalid"]),
        };
        *file = built.file.clone();
        fn plain<T: Row + Ord + ironbeam::RFBound>(c: PCollection<T>, mode: Mode) -> Value {
            rows_json(match mode {
                Mode::Seq => c.collect_seq_sorted(),
                Mode::Par(n) => c.collect_par_sorted(threads(), parts_arg(n)),
            })
        }
        fn by_key<V: ironbeam::RFBound>(c: PCollection<(Val, V)>, mode: Mode) -> Value
        where
            (Val, V): Row,
        {
            match mode {
                Mode::Par(n) => rows_json(c.collect_par_sorted_by_key(threads(), parts_arg(n))),
                Mode::Seq => json!(["invalid"]),
            }
        }
        match (which, built.coll) {
            (0 | 1, Coll::U(c)) => plain(c, mode),
            (0 | 1, Coll::KV(c)) => plain(c, mode),
            (0 | 1, Coll::KG(c)) => plain(c, mode),
            (0 | 1, Coll::KW(c)) => plain(c, mode),
            (0 | 1, Coll::L(c)) => plain(c, mode),
            (2, Coll::KV(c)) => by_key(c, mode),
            (2, Coll::KG(c)) => by_key(c, mode),
            (2, Coll::KW(c)) => by_key(c, mode),
            _ => json!(["invalid"]),
        }
    })
}
// ---- compact observations for big results (mirrors Canon.summary)
const HP: i64 = 1_000_000_007;
pub fn vhash(v: &Val) -> i64 {
    match v {
        Val::Int(z) => (z * 7 + 1).rem_euclid(HP),
        Val::Pair(a, b) => (vhash(a) * 31 + vhash(b) * 17 + 3) % HP,
        Val::List(l) => l.iter().fold(5i64, |acc, x| (acc * 131 + vhash(x)) % HP),
        Val::None => 11,
        Val::Some(x) => (vhash(x) * 13 + 2) % HP,
    }
}
/// as `vhash`, a list hashed as a bag (commutative): Canon.vhash_bag
pub fn vhash_bag(v: &Val) -> i64 {
    match v {
        Val::Int(z) => (z * 7 + 1).rem_euclid(HP),
        Val::Pair(a, b) => (vhash_bag(a) * 31 + vhash_bag(b) * 17 + 3) % HP,
        Val::List(l) => l.iter().fold(5i64, |acc, x| (acc + vhash_bag(x) * 131) % HP),
        Val::None => 11,
        Val::Some(x) => (vhash_bag(x) * 13 + 2) % HP,
    }
}
pub fn leaves(v: &Val) -> i64 {
    match v {
        Val::Int(_) => 1,
        Val::Pair(a, b) => leaves(a) + leaves(b),
        Val::List(l) => l.iter().map(leaves).sum(),
        Val::None => 0,
        Val::Some(x) => leaves(x),
    }
}
/// [count, sum of ikey, min ikey, max ikey (0 when empty), number of integer leaves,
///  order-free hash (sum of row hashes), order-sensitive hash]
pub fn summary(rows: &[Val]) -> Vec<i64> {
    let keys: Vec<i64> = rows.iter().map(ikey).collect();
    vec![
        rows.len() as i64,
        keys.iter().sum(),
        keys.iter().min().copied().unwrap_or(0),
        keys.iter().max().copied().unwrap_or(0),
        rows.iter().map(leaves).sum(),
        rows.iter().fold(0i64, |a, r| (a + vhash(r)) % HP),
        rows.iter().fold(0i64, |a, r| (a * 1_000_003 + vhash(r)) % HP),
        rows.iter().fold(0i64, |a, r| (a + vhash_bag(r)) % HP),
    ]
}
/// replace the rows of an ["ok", rows] outcome by their summary
pub fn summarise(out: Value) -> Value {
    match out.as_array() {
        Some(a) if a.len() == 2 && a[0] == json!("ok") => match parse_vals(&a[1]) {
            Ok(rows) => json!(["ok", summary(&rows)]),
            Err(_) => json!(["invalid"]),
        },
        _ => out,
    }
}
/// kind "bigprog": as "prog", the observed rows replaced by `summary`
pub fn run_bigprog_case(input: &Value, dir: &str) -> Value {
    summarise(run_prog_case(input, dir))
}
/// kind "bigpair": as "pair", both observations summarised
pub fn run_bigpair_case(input: &Value, dir: &str) -> Value {
    match run_pair_case(input, dir).as_array() {
        Some(a) if a.len() == 2 && a[0].is_array() => json!([summarise(a[0].clone()), summarise(a[1].clone())]),
        _ => json!(["invalid"]),
    }
}

/// kind "pair": in = [src, steps, partitions] -> [seq outcome, par outcome]
pub fn run_pair_case(input: &Value, dir: &str) -> Value {
    let parsed = (|| -> R<(Src, Vec<Step>, usize)> {
        let a = input.as_array().ok_or("input")?;
        if a.len() != 3 {
            return Err("input arity".into());
        }
        Ok((parse_src(&a[0])?, parse_steps(&a[1])?, nat(&a[2])?))
    })();
    match parsed {
        Ok((src, steps, n)) => {
            let s = run_program(&src, &steps, Mode::Seq, dir);
            if s == json!(["invalid"]) {
                return s;
            }
            let p = run_program(&src, &steps, Mode::Par(n), dir);
            json!([s, p])
        }
        Err(_) => json!(["invalid"]),
    }
}

// ------------------------------------------------------------------ reference interpreter
// A Rust mirror of Engine/Denote.v.  It is used ONLY to steer the generators (actual row counts,
// magnitudes, value shapes, emptiness) and to compute the `nontrivial` flag; nothing is judged
// with it (all judging happens inside Coq).

pub fn vfst(v: &Val) -> Val {
    match v {
        Val::Pair(a, _) => (**a).clone(),
        _ => v.clone(),
    }
}
pub fn vsnd(v: &Val) -> Val {
    match v {
        Val::Pair(_, b) => (**b).clone(),
        _ => v.clone(),
    }
}
fn on_snd(v: &Val, f: impl Fn(&Val) -> Val) -> Val {
    match v {
        Val::Pair(k, x) => pair((**k).clone(), f(x)),
        _ => v.clone(),
    }
}
pub fn keys_of(rows: &[Val]) -> Vec<Val> {
    let mut out: Vec<Val> = vec![];
    for r in rows {
        let k = vfst(r);
        if !out.contains(&k) {
            out.push(k);
        }
    }
    out
}
pub fn values_of(k: &Val, rows: &[Val]) -> Vec<Val> {
    rows.iter().filter(|r| vfst(r) == *k).map(vsnd).collect()
}
fn dedup(vs: &[Val]) -> Vec<Val> {
    let mut out: Vec<Val> = vec![];
    for v in vs {
        if !out.contains(v) {
            out.push(v.clone());
        }
    }
    out
}
pub fn fold_c(c: &Cid, vs: &[Val]) -> Val {
    match c {
        Cid::Sum => Val::Int(vs.iter().map(vint).sum()),
        Cid::Count => Val::Int(vs.len() as i64),
        Cid::Min => vs.iter().min().cloned().unwrap_or(Val::None),
        Cid::Max => vs.iter().max().cloned().unwrap_or(Val::None),
        Cid::TopK(k) => {
            let mut s = vs.to_vec();
            s.sort();
            s.reverse();
            s.truncate(*k);
            Val::List(s)
        }
        Cid::Distinct => Val::List(dedup(vs)),
        Cid::SumMod(m) => Val::Int(vs.iter().fold(0, |a, v| (a + vint(v)).rem_euclid(*m))),
        Cid::Gcd => Val::Int(vs.iter().fold(0, |a, v| zgcd(a, vint(v)))),
    }
}
fn vlist(v: &Val) -> Vec<Val> {
    if let Val::List(l) = v { l.clone() } else { vec![] }
}
fn some(v: Val) -> Val {
    Val::Some(Box::new(v))
}
pub fn d_join(kind: JoinKind, l: &[Val], r: &[Val]) -> Vec<Val> {
    let mut out = vec![];
    let lo = matches!(kind, JoinKind::Right | JoinKind::Full);
    let ro = matches!(kind, JoinKind::Left | JoinKind::Full);
    let wl = |v: Val| if lo { some(v) } else { v };
    let wr = |v: Val| if ro { some(v) } else { v };
    for lr in l {
        for rr in r.iter().filter(|rr| vfst(rr) == vfst(lr)) {
            out.push(pair(vfst(lr), pair(wl(vsnd(lr)), wr(vsnd(rr)))));
        }
    }
    if ro {
        for lr in l.iter().filter(|lr| !r.iter().any(|rr| vfst(rr) == vfst(lr))) {
            out.push(pair(vfst(lr), pair(wl(vsnd(lr)), Val::None)));
        }
    }
    if lo {
        for rr in r.iter().filter(|rr| !l.iter().any(|lr| vfst(lr) == vfst(rr))) {
            out.push(pair(vfst(rr), pair(Val::None, wr(vsnd(rr)))));
        }
    }
    out
}
pub fn d_step(s: &Step, rows: &[Val]) -> Vec<Val> {
    match s {
        Step::Map(f) => rows.iter().map(|x| ef(f, x)).collect(),
        Step::Filter(p) => rows.iter().filter(|x| pf(p, x)).cloned().collect(),
        Step::FlatMap(g) => rows.iter().flat_map(|x| gf(g, x)).collect(),
        Step::KeyBy(f) => rows.iter().map(|x| pair(ef(f, x), x.clone())).collect(),
        Step::Unkey | Step::GroupsToList => rows.to_vec(),
        Step::MapValues(f) | Step::MapValuesW(f) | Step::MapValuesBack(f) => {
            rows.iter().map(|r| on_snd(r, |v| ef(f, v))).collect()
        }
        Step::FilterValues(p) | Step::FilterValuesW(p) => {
            rows.iter().filter(|r| pf(p, &vsnd(r))).cloned().collect()
        }
        Step::MapBatches(n, b) => rows.chunks((*n).max(1)).flat_map(|c| bf(b, c)).collect(),
        Step::MapValuesBatches(n, b) => rows
            .chunks((*n).max(1))
            .flat_map(|c| {
                let outs = bf(b, &c.iter().map(vsnd).collect::<Vec<_>>());
                c.iter().zip(outs).map(|(r, o)| pair(vfst(r), o)).collect::<Vec<_>>()
            })
            .collect(),
        Step::GroupByKey => keys_of(rows)
            .into_iter()
            .map(|k| {
                let vs = values_of(&k, rows);
                pair(k, Val::List(vs))
            })
            .collect(),
        Step::CombineValues(c) => keys_of(rows)
            .into_iter()
            .map(|k| {
                let vs = values_of(&k, rows);
                pair(k, fold_c(c, &vs))
            })
            .collect(),
        Step::TopKPerKey(k) => d_step(&Step::CombineValues(Cid::TopK(*k)), rows),
        Step::CombineValuesLifted(c) => keys_of(rows)
            .into_iter()
            .map(|k| {
                let vs: Vec<Val> = values_of(&k, rows).iter().flat_map(vlist).collect();
                pair(k, fold_c(c, &vs))
            })
            .collect(),
        Step::CombineGlobally(c, _, _) => vec![fold_c(c, rows)],
        Step::Distinct => dedup(rows),
        Step::DistinctPerKey => keys_of(rows)
            .into_iter()
            .flat_map(|k| {
                dedup(&values_of(&k, rows)).into_iter().map(|v| pair(k.clone(), v)).collect::<Vec<_>>()
            })
            .collect(),
        Step::Join(kind, rs, rd) => d_join(*kind, rows, &d_steps(rs, rd)),
        Step::MapWithSide(side, h) => rows.iter().map(|x| sfn(h, side, x)).collect(),
        Step::FilterWithSide(side, q) => rows.iter().filter(|x| spn(q, side, x)).cloned().collect(),
        Step::MapWithSideMap(prs, d) => rows.iter().map(|x| side_lookup(prs, *d, x)).collect(),
        Step::TryMap(f, p) => rows.iter().map(|x| if pf(p, x) { some(ef(f, x)) } else { Val::None }).collect(),
        Step::Debug(_) => rows.to_vec(),
        Step::CustomMap(f) => rows.iter().map(|x| ef(f, x)).collect(),
    }
}
pub fn d_steps(steps: &[Step], rows: &[Val]) -> Vec<Val> {
    let mut r = rows.to_vec();
    for s in steps {
        r = d_step(s, &r);
    }
    r
}

pub fn magnitude(v: &Val) -> i64 {
    match v {
        Val::Int(z) => z.abs(),
        Val::Pair(a, b) => magnitude(a).max(magnitude(b)),
        Val::List(l) => l.iter().map(magnitude).max().unwrap_or(0),
        Val::None => 0,
        Val::Some(x) => magnitude(x),
    }
}
pub fn has_list(v: &Val) -> bool {
    match v {
        Val::Int(_) | Val::None => false,
        Val::Pair(a, b) => has_list(a) || has_list(b),
        Val::List(_) => true,
        Val::Some(x) => has_list(x),
    }
}

// ------------------------------------------------------------------ partitions (for `nontrivial`)

/// mirror of VecOpsImpl::split after exec_par's clamp; sharded sources: the shards
pub fn source_parts(src: &Src, partitions: usize) -> Vec<Vec<Val>> {
    match src {
        Src::Sharded(_, sh, _) => sh.clone(),
        // length unknown: the runner clamps the partition count against unwrap_or(0)
        Src::NoLen(_, d) => vec![d.clone()],
        Src::Vec(_, d) => {
            let n = partitions.max(1).min(d.len().max(1));
            if n <= 1 || d.len() <= 1 {
                vec![d.clone()]
            } else {
                d.chunks(d.len().div_ceil(n)).map(<[Val]>::to_vec).collect()
            }
        }
    }
}

/// Honest per-case flag.  Sequential run: >= 2 source rows and >= 1 step.  Parallel run: >= 2
/// partitions actually produced and >= 2 rows; with `need_span` additionally, at the first
/// barrier (element-wise prefix evaluated per partition): some key present in >= 2 partitions
/// (keyed barrier) or >= 2 non-empty partitions (global barrier).
pub fn nontrivial(src: &Src, steps: &[Step], mode: Mode, need_span: bool) -> bool {
    let Mode::Par(n) = mode else {
        return src.len() >= 2 && !steps.is_empty();
    };
    let parts = source_parts(src, n);
    if parts.len() < 2 || src.len() < 2 {
        return false;
    }
    if !need_span {
        return true;
    }
    let cut = steps.iter().position(|s| !elementwise_step(s)).unwrap_or(steps.len());
    if cut == steps.len() {
        return false;
    }
    let at: Vec<Vec<Val>> = parts.iter().map(|p| d_steps(&steps[..cut], p)).collect();
    let keyed = !matches!(steps[cut], Step::CombineGlobally(..) | Step::Distinct);
    if !keyed {
        return at.iter().filter(|p| !p.is_empty()).count() >= 2;
    }
    let mut seen: Vec<(Val, usize)> = vec![];
    for (i, p) in at.iter().enumerate() {
        for k in keys_of(p) {
            match seen.iter().find(|(k2, _)| *k2 == k) {
                Some((_, j)) if *j != i => return true,
                Some(_) => {}
                None => seen.push((k, i)),
            }
        }
    }
    false
}

// ------------------------------------------------------------------ generators

#[derive(Clone, Debug)]
pub struct GenOpts {
    pub barriers: bool,
    pub joins: bool,
    /// rev / droplast batch functions (partition dependent; only while row order is deterministic)
    pub odd_batches: bool,
    pub retype: bool,
    /// allow programs in the known-finding class "C02-reorder"
    pub reorder_class: bool,
    /// allow a global Min / Max of an empty input (panics in every mode)
    pub empty_minmax: bool,
    /// allow the chunk-sensitive expanding batch function `header` (C02: sequential runs only)
    pub header: bool,
    /// side-input steps (map_with_side, filter_with_side, map_with_side_map)
    pub side_inputs: bool,
    /// debug taps and the user-written custom map operator
    pub taps: bool,
}
impl GenOpts {
    pub fn elementwise() -> Self {
        GenOpts { barriers: false, joins: false, odd_batches: false, retype: true,
                  reorder_class: false, empty_minmax: false, header: false, side_inputs: false, taps: false }
    }
    pub fn all() -> Self {
        GenOpts { barriers: true, joins: true, odd_batches: false, retype: true,
                  reorder_class: false, empty_minmax: false, header: false, side_inputs: false, taps: false }
    }
}

const ROW_CAP: usize = 160;
const MAG_CAP: i64 = 1 << 31;

/// state of the simulation while a program is generated
#[derive(Clone)]
pub struct Sim {
    pub shape: Shape,
    pub rows: Vec<Val>,
    /// row order is still deterministic (no HashMap iteration upstream)
    pub ordered: bool,
    /// some list inside the rows was built from an arbitrary order
    pub inner_unordered: bool,
    pub joined: bool,
}
impl Sim {
    pub fn new(shape: Shape, rows: Vec<Val>) -> Self {
        Sim { shape, rows, ordered: true, inner_unordered: false, joined: false }
    }
    fn sample(&self) -> Option<&Val> {
        self.rows.first()
    }
    /// values (of keyed rows) or rows may be compared / hashed meaningfully
    pub fn comparable(&self) -> bool {
        !(self.inner_unordered && self.rows.iter().any(has_list))
    }
    pub fn step(&self, s: &Step) -> Option<Sim> {
        let shape = step_shape(s, self.shape).ok()?;
        let rows = d_step(s, &self.rows);
        if rows.len() > ROW_CAP || rows.iter().any(|r| magnitude(r) >= MAG_CAP) {
            return None;
        }
        let hash = hash_step(s);
        let lists_from_order = matches!(s, Step::GroupByKey) && !self.ordered;
        let set_lists = |s: &Step| {
            matches!(
                s,
                Step::CombineValues(Cid::Distinct) | Step::CombineValuesLifted(Cid::Distinct)
                    | Step::CombineGlobally(Cid::Distinct, _, _)
            )
        };
        // lists of arbitrary order built inside the right side of a join
        let right_unordered = match s {
            Step::Join(_, rs, _) => {
                let mut ord = true;
                let mut bad = false;
                for r in rs {
                    if (matches!(r, Step::GroupByKey) && !ord) || set_lists(r) {
                        bad = true;
                    }
                    if hash_step(r) {
                        ord = false;
                    }
                }
                bad
            }
            _ => false,
        };
        let set_lists = set_lists(s);
        Some(Sim {
            shape,
            rows,
            ordered: self.ordered && !hash,
            inner_unordered: self.inner_unordered || lists_from_order || set_lists || right_unordered,
            joined: self.joined || is_join(s),
        })
    }
}

fn small_mod(rng: &mut SplitMix64) -> i64 {
    rng.range(1, 5)
}

pub fn gen_efun(rng: &mut SplitMix64, sample: Option<&Val>, depth: u32) -> EFun {
    let comp = |f: EFun, g: EFun| EFun::Comp(Box::new(f), Box::new(g));
    let f = match sample {
        Some(Val::Int(_)) | None => match rng.below(8) {
            0 => EFun::Id,
            1 | 2 => EFun::Add(rng.range(-9, 9)),
            3 => comp(EFun::Mul(rng.range(-5, 7)), EFun::Mod(rng.range(2, 97))),
            4 => EFun::Mod(rng.range(1, 11)),
            5 => EFun::Dup,
            6 => EFun::Wrap,
            _ => EFun::KeyMod(small_mod(rng)),
        },
        Some(Val::Pair(a, b)) => match rng.below(8) {
            0 => EFun::Fst,
            1 => EFun::Snd,
            2 => EFun::Swap,
            3 => EFun::Dup,
            4 if depth < 2 => comp(EFun::Fst, gen_efun(rng, Some(a), depth + 1)),
            5 | 6 if depth < 2 => comp(EFun::Snd, gen_efun(rng, Some(b), depth + 1)),
            7 => EFun::KeyMod(small_mod(rng)),
            _ => EFun::Id,
        },
        Some(Val::List(_)) => match rng.below(6) {
            0 | 1 => comp(EFun::Sum, EFun::Mod(rng.range(2, 1000))),
            2 | 3 => EFun::Len,
            4 => EFun::Wrap,
            _ => EFun::KeyMod(small_mod(rng)),
        },
        Some(Val::None | Val::Some(_)) => match rng.below(4) {
            0 => EFun::Id,
            1 => EFun::Dup,
            2 => EFun::Wrap,
            _ => EFun::KeyMod(small_mod(rng)),
        },
    };
    if depth == 0 && rng.chance(1, 5) {
        let mid = sample.map(|s| ef(&f, s));
        let g = gen_efun(rng, mid.as_ref(), 1);
        comp(f, g)
    } else {
        f
    }
}
/// a key function whose keys are small integers on every current row
pub fn gen_keyfun(rng: &mut SplitMix64, rows: &[Val]) -> EFun {
    let m = rng.range(1, 5);
    let cand = match rows.first() {
        Some(Val::Int(_)) if rng.chance(2, 3) => EFun::Mod(m),
        Some(Val::List(_)) if rng.chance(1, 2) => EFun::Len,
        _ => EFun::Comp(Box::new(EFun::KeyMod(m)), Box::new(EFun::Fst)),
    };
    if rows.iter().all(|r| matches!(ef(&cand, r), Val::Int(_))) {
        cand
    } else {
        EFun::Comp(Box::new(EFun::KeyMod(m)), Box::new(EFun::Fst))
    }
}
pub fn gen_pfun(rng: &mut SplitMix64, sample: Option<&Val>, depth: u32) -> PFun {
    match rng.below(10) {
        0 => PFun::True,
        1 if depth == 0 => PFun::False,
        2 | 3 | 4 => {
            let m = rng.range(2, 4);
            PFun::ModEq(m, rng.range(0, m - 1))
        }
        5 | 6 | 7 => PFun::Lt(sample.map_or(0, ikey) + rng.range(-3, 3)),
        _ if depth < 2 => PFun::Not(Box::new(gen_pfun(rng, sample, depth + 1))),
        _ => PFun::Lt(rng.range(-5, 5)),
    }
}
pub fn gen_cid(rng: &mut SplitMix64, comparable: bool) -> Cid {
    loop {
        let c = match rng.below(9) {
            0 | 1 => Cid::Sum,
            2 => Cid::Count,
            3 => Cid::Min,
            4 => Cid::Max,
            5 => Cid::TopK(rng.below(4) as usize),
            6 => Cid::Distinct,
            7 => Cid::SumMod(rng.range(1, 7)),
            _ => Cid::Gcd,
        };
        if comparable || !matches!(c, Cid::Min | Cid::Max | Cid::TopK(_) | Cid::Distinct) {
            return c;
        }
    }
}
/// `values`: for map_values_batches (the output length must equal the chunk length)
fn gen_bfun(rng: &mut SplitMix64, sample: Option<&Val>, odd: bool, header: bool, values: bool) -> BFun {
    if odd && rng.chance(1, 2) {
        match rng.below(if values { 4 } else { 6 }) {
            0 | 1 | 2 => BFun::Rev,
            3 => BFun::DropLast,
            _ => BFun::Header,
        }
    } else if !values && rng.chance(1, 4) {
        BFun::Dup
    } else if !values && header && rng.chance(1, 3) {
        BFun::Header
    } else {
        BFun::Each(gen_efun(rng, sample, 0))
    }
}
pub fn gen_fanout(rng: &mut SplitMix64, parts: usize) -> Option<usize> {
    match rng.below(6) {
        0 => None,
        1 => Some(0),
        2 => Some(1),
        3 => Some(2),
        _ => Some(rng.below(parts as u64 + 2) as usize),
    }
}

pub fn gen_kv_rows(rng: &mut SplitMix64, n: usize, nkeys: i64) -> Vec<Val> {
    (0..n).map(|_| pair(Val::Int(rng.range(0, nkeys.max(1) - 1)), Val::Int(rng.range(-20, 20)))).collect()
}

/// a side vector: drawn from the current rows (so that membership tests hit), with duplicates,
/// sometimes foreign values, one time in five EMPTY
pub fn gen_side(rng: &mut SplitMix64, rows: &[Val]) -> Vec<Val> {
    if rng.chance(1, 5) {
        return vec![];
    }
    let n = rng.range(1, 6) as usize;
    (0..n)
        .map(|_| {
            if !rows.is_empty() && rng.chance(3, 4) {
                rows[rng.below(rows.len() as u64) as usize].clone()
            } else {
                Val::Int(rng.range(-5, 30))
            }
        })
        .collect()
}
/// a random side-input step for the current state
pub fn gen_side_step(rng: &mut SplitMix64, sim: &Sim) -> Step {
    // membership tests compare whole values: never draw side values from rows that contain lists
    // of arbitrary (map iteration) order
    let pool: &[Val] = if sim.comparable() { &sim.rows } else { &[] };
    let side = gen_side(rng, pool);
    let pred = |rng: &mut SplitMix64, n: usize| match rng.below(5) {
        0 | 1 => SPred::In,
        2 | 3 => SPred::NotIn,
        _ => SPred::LenGt((n as i64 + rng.range(-1, 1)).max(0) as usize),
    };
    if sim.shape != Shape::U {
        let q = pred(rng, side.len());
        return Step::FilterWithSide(side, q);
    }
    match rng.below(4) {
        0 => Step::MapWithSide(side, if rng.chance(1, 2) { SFun::AddLen } else { SFun::AddSum }),
        1 | 2 => {
            let q = pred(rng, side.len());
            Step::FilterWithSide(side, q)
        }
        _ => {
            // lookup table keyed by current rows; keys repeat (the last pair wins)
            let keys = gen_side(rng, pool);
            let mut pairs: Vec<Val> = keys.iter().map(|k| pair(k.clone(), Val::Int(rng.range(0, 9)))).collect();
            if let Some(first) = keys.first() {
                if rng.chance(1, 2) {
                    pairs.push(pair(first.clone(), Val::Int(rng.range(10, 19))));
                }
            }
            Step::MapWithSideMap(pairs, rng.range(-3, 3))
        }
    }
}

/// one random well-typed step for the current state (None: nothing suitable found)
pub fn gen_step(rng: &mut SplitMix64, sim: &Sim, o: &GenOpts, parts: usize) -> Option<(Step, Sim)> {
    for _ in 0..12 {
        let sample = sim.sample();
        let vsample = sample.map(vsnd);
        if o.taps && rng.chance(1, 9) {
            let s = if sim.shape == Shape::U && rng.chance(1, 2) {
                Step::CustomMap(gen_efun(rng, sample, 0))
            } else {
                Step::Debug(*rng.pick(&[0usize, 1, 2, 3, 4, 13, 14, 40]))
            };
            if let Some(next) = sim.step(&s) {
                return Some((s, next));
            }
            continue;
        }
        if o.side_inputs && rng.chance(1, 7) {
            let s = gen_side_step(rng, sim);
            if let Some(next) = sim.step(&s) {
                return Some((s, next));
            }
            continue;
        }
        let s = match sim.shape {
            Shape::U => match rng.below(if o.barriers { 13 } else { 9 }) {
                0 | 1 => Step::Map(gen_efun(rng, sample, 0)),
                2 => Step::Filter(gen_pfun(rng, sample, 0)),
                3 => Step::FlatMap(match rng.below(5) {
                    0 => GFun::Repeat(rng.below(4) as usize),
                    1 | 2 => GFun::UpTo(rng.range(1, 4)),
                    3 => GFun::Elems,
                    _ => GFun::None,
                }),
                4 | 5 | 6 => Step::KeyBy(gen_keyfun(rng, &sim.rows)),
                7 | 8 => Step::MapBatches(rng.below(5) as usize,
                                          gen_bfun(rng, sample, o.odd_batches && sim.ordered, o.header && sim.ordered, false)),
                9 | 10 => {
                    let c = gen_cid(rng, sim.comparable());
                    Step::CombineGlobally(c, rng.chance(1, 2), gen_fanout(rng, parts))
                }
                _ => {
                    if !sim.comparable() {
                        continue;
                    }
                    Step::Distinct
                }
            },
            Shape::KV => match rng.below(if o.barriers { if o.joins { 20 } else { 18 } } else { 9 }) {
                0 | 1 => Step::MapValues(gen_efun(rng, vsample.as_ref(), 0)),
                2 => Step::FilterValues(gen_pfun(rng, vsample.as_ref(), 0)),
                3 => Step::Filter(gen_pfun(rng, sample, 0)),
                4 => Step::Unkey,
                5 => Step::MapValuesBatches(rng.below(5) as usize,
                                            gen_bfun(rng, vsample.as_ref(), o.odd_batches && sim.ordered, false, true)),
                6 => Step::FlatMap(if rng.chance(3, 4) { GFun::Repeat(rng.below(3) as usize) } else { GFun::None }),
                7 | 8 => {
                    if !o.retype {
                        continue;
                    }
                    Step::MapValuesW(gen_efun(rng, vsample.as_ref(), 0))
                }
                9 | 10 | 11 => Step::GroupByKey,
                12 | 13 | 14 => Step::CombineValues(gen_cid(rng, sim.comparable())),
                15 => {
                    if !sim.comparable() {
                        continue;
                    }
                    match rng.below(3) {
                        0 => Step::Distinct,
                        1 => Step::DistinctPerKey,
                        _ => Step::TopKPerKey(rng.below(4) as usize),
                    }
                }
                16 | 17 => Step::MapValues(gen_efun(rng, vsample.as_ref(), 0)),
                _ => {
                    if sim.joined && !rng.chance(1, 12) {
                        continue; // a second join is the (rare) nested-join error case
                    }
                    gen_join(rng, sim, o, parts)
                }
            },
            Shape::KG => match rng.below(if o.barriers { 6 } else { 4 }) {
                0 | 1 => Step::GroupsToList,
                2 => Step::FlatMap(GFun::Elems),
                3 => Step::Filter(gen_pfun(rng, sample, 0)),
                _ => Step::CombineValuesLifted(gen_cid(rng, sim.comparable())),
            },
            Shape::KW => match rng.below(5) {
                0 | 1 => Step::FilterValuesW(gen_pfun(rng, vsample.as_ref(), 0)),
                2 => Step::Filter(gen_pfun(rng, sample, 0)),
                _ => Step::MapValuesBack(gen_efun(rng, vsample.as_ref(), 0)),
            },
            Shape::L => match rng.below(4) {
                0 | 1 => Step::FlatMap(GFun::Elems),
                2 => Step::Filter(gen_pfun(rng, sample, 0)),
                _ => Step::FlatMap(GFun::Repeat(rng.below(3) as usize)),
            },
        };
        if !o.empty_minmax && sim.rows.is_empty()
            && matches!(s, Step::CombineGlobally(Cid::Min | Cid::Max, _, _))
        {
            continue;
        }
        // lifted Min / Max over a key whose groups are all empty panics as well
        if let Step::CombineValuesLifted(Cid::Min | Cid::Max) = s {
            let bad = keys_of(&sim.rows)
                .iter()
                .any(|k| values_of(k, &sim.rows).iter().all(|g| vlist(g).is_empty()));
            if bad && !o.empty_minmax {
                continue;
            }
        }
        if let Some(next) = sim.step(&s) {
            return Some((s, next));
        }
    }
    None
}

/// bring a side to shape KV (join sides must be keyed)
pub fn coerce_kv(rng: &mut SplitMix64, sim: &Sim, steps: &mut Vec<Step>) -> Option<Sim> {
    let mut sim = sim.clone();
    for _ in 0..3 {
        let s = match sim.shape {
            Shape::KV => return Some(sim),
            Shape::U => Step::KeyBy(gen_keyfun(rng, &sim.rows)),
            Shape::KG => {
                if rng.chance(1, 2) { Step::GroupsToList } else { Step::FlatMap(GFun::Elems) }
            }
            Shape::KW => Step::MapValuesBack(EFun::Id),
            Shape::L => Step::FlatMap(GFun::Elems),
        };
        sim = sim.step(&s)?;
        steps.push(s);
    }
    if sim.shape == Shape::KV { Some(sim) } else { None }
}

pub fn gen_join(rng: &mut SplitMix64, sim: &Sim, o: &GenOpts, parts: usize) -> Step {
    let kind = *rng.pick(&[JoinKind::Inner, JoinKind::Left, JoinKind::Right, JoinKind::Full]);
    // right keys overlap the left key range partly
    let lkeys: Vec<i64> = keys_of(&sim.rows).iter().map(ikey).collect();
    let base = lkeys.first().copied().unwrap_or(0);
    let n = rng.below(7) as usize;
    let rdata: Vec<Val> = (0..n)
        .map(|_| pair(Val::Int(base + rng.range(-1, 3)), Val::Int(rng.range(-9, 9))))
        .collect();
    let mut rsteps = vec![];
    let mut rs = Sim::new(Shape::KV, rdata.clone());
    let inner = GenOpts { joins: rng.chance(1, 25), odd_batches: false, header: false, reorder_class: true, ..o.clone() };
    for _ in 0..rng.below(4) {
        match gen_step(rng, &rs, &inner, parts) {
            Some((s, next)) => {
                rsteps.push(s);
                rs = next;
            }
            None => break,
        }
    }
    if coerce_kv(rng, &rs, &mut rsteps).is_none() {
        rsteps.clear();
    }
    Step::Join(kind, rsteps, rdata)
}

/// a random well-typed program of about `nsteps` steps
pub fn gen_program(rng: &mut SplitMix64, src: &Src, o: &GenOpts, nsteps: usize, parts: usize)
    -> (Vec<Step>, Sim) {
    let mut sim = Sim::new(src.shape(), src.data());
    let mut steps: Vec<Step> = vec![];
    for _ in 0..nsteps {
        let Some((s, next)) = gen_step(rng, &sim, o, parts) else { break };
        steps.push(s);
        if !o.reorder_class && reorder_changes(&steps) {
            steps.pop();
            continue;
        }
        sim = next;
    }
    (steps, sim)
}

/// key patterns for keyed sweeps
pub const PATTERNS: [&str; 6] = ["one", "distinct", "heavy", "roundrobin", "pairs", "runs"];
pub fn pattern_key(pat: &str, i: usize, rng: &mut SplitMix64) -> i64 {
    match pat {
        "one" => 7,
        "distinct" => i as i64,
        "heavy" => if rng.chance(4, 5) { 0 } else { rng.range(1, 3) },
        "roundrobin" => (i % 3) as i64,
        "pairs" => ((i + 1) / 2) as i64,
        _ => (i / 3) as i64,
    }
}
pub fn pattern_kv(pat: &str, n: usize, rng: &mut SplitMix64) -> Vec<Val> {
    (0..n).map(|i| pair(Val::Int(pattern_key(pat, i, rng)), Val::Int(rng.range(-9, 30)))).collect()
}
pub fn ints(n: usize, rng: &mut SplitMix64) -> Vec<Val> {
    (0..n).map(|_| Val::Int(rng.range(-20, 40))).collect()
}

/// a random source: vec of U / KV / KG rows, or a sharded (streamed JSONL) U / KV source
pub fn gen_src(rng: &mut SplitMix64, n: usize, allow_kg: bool, allow_sharded: bool) -> Src {
    let shape = match rng.below(if allow_kg { 7 } else { 6 }) {
        0 | 1 | 2 => Shape::U,
        3 | 4 | 5 => Shape::KV,
        _ => Shape::KG,
    };
    let pat = *rng.pick(&PATTERNS);
    let rows: Vec<Val> = match shape {
        Shape::U => {
            if rng.chance(1, 6) {
                // structured unkeyed rows
                (0..n).map(|_| pair(Val::Int(rng.range(0, 4)), Val::List(ints(rng.below(3) as usize, rng)))).collect()
            } else {
                ints(n, rng)
            }
        }
        Shape::KV => pattern_kv(pat, n, rng),
        _ => (0..n)
            .map(|i| {
                // hand-built grouped input: keys may repeat, groups may be empty
                let k = if rng.chance(1, 2) { pattern_key(pat, i, rng) } else { rng.range(0, 2) };
                pair(Val::Int(k), Val::List(ints(rng.below(4) as usize, rng)))
            })
            .collect(),
    };
    if allow_sharded && shape != Shape::KG && rng.chance(1, 6) {
        // lines = rows with some blank lines in between, cut into ranges of lps lines
        let mut lines: Vec<Option<Val>> = vec![];
        for r in rows {
            while rng.chance(1, 8) {
                lines.push(None);
            }
            lines.push(Some(r));
        }
        while rng.chance(1, 6) {
            lines.push(None);
        }
        let total = lines.len();
        let lps = rng.range(1, total.max(1) as i64 + 1) as usize;
        let shards: Vec<Vec<Val>> =
            lines.chunks(lps).map(|c| c.iter().flatten().cloned().collect()).collect();
        return Src::Sharded(shape, shards, total);
    }
    if allow_sharded && rng.chance(1, 12) {
        // a custom source that cannot tell its length
        return Src::NoLen(shape, rows);
    }
    Src::Vec(shape, rows)
}

pub fn case_input(src: &Src, steps: &[Step], mode: Mode) -> Value {
    json!([src_json(src), steps_json(steps), match mode { Mode::Seq => Value::Null, Mode::Par(n) => json!(n) }])
}

/// tags describing a case for the evidence distribution
pub fn case_tags(src: &Src, steps: &[Step], mode: Mode, extra: &[&str]) -> Vec<String> {
    let mut t: Vec<String> = extra.iter().map(|s| s.to_string()).collect();
    t.push(match mode { Mode::Seq => "seq".into(), Mode::Par(_) => "par".into() });
    if mode == Mode::Par(AUTO_PARTS) {
        t.push("partitions_none".into());
    }
    t.push(format!("len{}", match src.len() { 0 => "0", 1 => "1", 2..=8 => "2-8", _ => "9+" }));
    t.push(format!("steps{}", match steps.len() { 0 => "0", 1..=3 => "1-3", 4..=8 => "4-8", _ => "9+" }));
    if matches!(src, Src::NoLen(..)) {
        t.push("nolen".into());
    }
    if matches!(src, Src::Sharded(..)) {
        t.push("sharded".into());
    }
    if steps.iter().any(is_join) {
        t.push("join".into());
    }
    if has_barrier(steps) {
        t.push("barrier".into());
    }
    if partition_dependent(steps) {
        t.push("partition_dependent".into());
    }
    if reorder_changes(steps) {
        t.push("reorder_class".into());
    }
    if let Mode::Par(n) = mode {
        if n == 0 { t.push("parts0".into()); }
        if n > src.len() { t.push("parts>len".into()); }
    }
    t
}

/// the thread count option perturbs the random part of the generators, so that the runs with
/// different thread counts explore different programs
pub fn seed_mix(seed: u64, salt: u64) -> SplitMix64 {
    let t = threads().unwrap_or(0) as u64;
    SplitMix64::new(seed ^ salt ^ t.wrapping_mul(0xA24B_AED4_963E_E407))
}

pub fn emit_prog(em: &mut crate::Emitter, src: &Src, steps: &[Step], mode: Mode, need_span: bool,
                 extra: &[&str]) {
    let tags = case_tags(src, steps, mode, extra);
    let tr: Vec<&str> = tags.iter().map(String::as_str).collect();
    em.case("prog", case_input(src, steps, mode), nontrivial(src, steps, mode, need_span), &tr);
}
/// kind "pair" (C01): the same program collected sequentially and in parallel
pub fn emit_pair(em: &mut crate::Emitter, src: &Src, steps: &[Step], parts: usize, extra: &[&str]) {
    let mode = Mode::Par(parts);
    let tags = case_tags(src, steps, mode, extra);
    let tr: Vec<&str> = tags.iter().map(String::as_str).collect();
    let span = has_barrier(steps);
    em.case("pair", case_input(src, steps, mode), nontrivial(src, steps, mode, span), &tr);
}
/// random input length, skewed towards the small / boundary sizes
pub fn gen_len(rng: &mut SplitMix64) -> usize {
    if rng.chance(1, 3) { rng.below(4) as usize } else { rng.below(25) as usize }
}
/// random partition count in 0..len+2
pub fn gen_parts(rng: &mut SplitMix64, len: usize) -> usize {
    rng.below(len as u64 + 3) as usize
}
/// sweep source of a given shape and length (keyed: the pattern rotates with the length)
pub fn sweep_src(shape: Shape, n: usize, pat: usize, rng: &mut SplitMix64) -> Src {
    match shape {
        Shape::U => Src::Vec(Shape::U, ints(n, rng)),
        Shape::KV => Src::Vec(Shape::KV, pattern_kv(PATTERNS[pat % PATTERNS.len()], n, rng)),
        _ => Src::Vec(
            Shape::KG,
            (0..n).map(|i| pair(Val::Int((i % 3) as i64), Val::List(ints(i % 4, rng)))).collect(),
        ),
    }
}
/// `f(n, mode_index)` over length 0..=24 x (0 = sequential, i+1 = partitions i in 0..=len+2)
pub fn sweep_grid(mut f: impl FnMut(usize, Option<usize>, usize)) {
    let mut idx = 0usize;
    for n in 0..=24usize {
        for pi in 0..=(n + 3) {
            f(n, if pi == 0 { None } else { Some(pi - 1) }, idx);
            idx += 1;
        }
    }
}

/// append steps that bring the collection to `target` (U, KV or KG)
pub fn coerce(rng: &mut SplitMix64, sim: &Sim, target: Shape, steps: &mut Vec<Step>) -> Option<Sim> {
    let mut sim = sim.clone();
    for _ in 0..4 {
        if sim.shape == target {
            return Some(sim);
        }
        let s = match (sim.shape, target) {
            (Shape::U, _) => Step::KeyBy(gen_keyfun(rng, &sim.rows)),
            (Shape::KV, Shape::U) => Step::Unkey,
            (Shape::KV, _) => Step::GroupByKey,
            (Shape::KG, Shape::KV) if rng.chance(1, 2) => Step::FlatMap(GFun::Elems),
            (Shape::KG, _) => Step::GroupsToList,
            (Shape::KW, _) => Step::MapValuesBack(EFun::Id),
            (Shape::L, _) => Step::FlatMap(GFun::Elems),
        };
        sim = sim.step(&s)?;
        steps.push(s);
    }
    if sim.shape == target { Some(sim) } else { None }
}

/// every fan-out setting of interest for `parts` partitions
pub fn fanouts(parts: usize) -> Vec<Option<usize>> {
    let mut v = vec![None, Some(0), Some(1), Some(2), Some(3)];
    for f in 4..=(parts + 1) {
        v.push(Some(f));
    }
    v
}

/// random prefix (at most `nsteps` steps) + coercion to `target`; None if it cannot be reached
pub fn gen_prefix_to(rng: &mut SplitMix64, src: &Src, o: &GenOpts, nsteps: usize, parts: usize,
                     target: Shape) -> Option<(Vec<Step>, Sim)> {
    let (mut steps, sim) = gen_program(rng, src, o, nsteps, parts);
    let sim = coerce(rng, &sim, target, &mut steps)?;
    if !o.reorder_class && reorder_changes(&steps) {
        return None;
    }
    Some((steps, sim))
}

/// push `s` if it is well typed and stays inside the generator's bounds
pub fn push_step(steps: &mut Vec<Step>, sim: &Sim, s: Step) -> Option<Sim> {
    let next = sim.step(&s)?;
    steps.push(s);
    if reorder_changes(steps) {
        steps.pop();
        return None;
    }
    Some(next)
}
pub use self::gen_join as gen_join_step;

/// the rules `gen_step` applies to a combine step, for a step chosen by the caller
pub fn sim_allows(sim: &Sim, s: &Step, o: &GenOpts) -> bool {
    let compares = match s {
        Step::CombineValues(c) | Step::CombineValuesLifted(c) | Step::CombineGlobally(c, _, _) => {
            matches!(c, Cid::Min | Cid::Max | Cid::TopK(_) | Cid::Distinct)
        }
        Step::Distinct | Step::DistinctPerKey | Step::TopKPerKey(_) => true,
        _ => false,
    };
    if compares && !sim.comparable() {
        return false;
    }
    if o.empty_minmax {
        return true;
    }
    match s {
        Step::CombineGlobally(Cid::Min | Cid::Max, _, _) => !sim.rows.is_empty(),
        Step::CombineValuesLifted(Cid::Min | Cid::Max) => !keys_of(&sim.rows)
            .iter()
            .any(|k| values_of(k, &sim.rows).iter().all(|g| vlist(g).is_empty())),
        _ => true,
    }
}

/// Every barrier kind as a keyed -> keyed chain, so that it can sit on either side of a join:
/// group_by_key, combine_values, group_by_key + combine_values_lifted, combine_globally (lifted
/// and not, every fan-out in {null,0,1,2,3,parts-1,parts,parts+1}) followed by key_by, distinct,
/// distinct_per_key, top_k_per_key.  `full` = every combiner for the global combines (thorough);
/// otherwise the combiner rotates with the fan-out.
pub fn barrier_chains(parts: usize, full: bool) -> Vec<Vec<Step>> {
    let to_list = |c: &Cid| if c.list_out() { vec![Step::GroupsToList] } else { vec![] };
    let mut v: Vec<Vec<Step>> = vec![vec![Step::GroupByKey, Step::GroupsToList]];
    for c in [Cid::Sum, Cid::Min, Cid::TopK(2), Cid::Distinct] {
        v.push([vec![Step::CombineValues(c.clone())], to_list(&c)].concat());
    }
    for c in [Cid::Sum, Cid::Count, Cid::TopK(1), Cid::Distinct] {
        v.push([vec![Step::GroupByKey, Step::CombineValuesLifted(c.clone())], to_list(&c)].concat());
    }
    let mut fs: Vec<Option<usize>> = vec![None, Some(0), Some(1), Some(2), Some(3)];
    for f in [parts.saturating_sub(1), parts, parts + 1] {
        if !fs.contains(&Some(f)) {
            fs.push(Some(f));
        }
    }
    let cids = [Cid::Sum, Cid::Count, Cid::TopK(2), Cid::Distinct];
    for (i, f) in fs.iter().enumerate() {
        for (j, lifted) in [false, true].into_iter().enumerate() {
            for (ci, c) in cids.iter().enumerate() {
                if !full && ci != (2 * i + j) % 3 {
                    continue; // quick: Sum / Count / TopK rotate
                }
                let mut ch = vec![Step::Unkey, Step::Map(EFun::Snd),
                                  Step::CombineGlobally(c.clone(), lifted, *f)];
                if c.list_out() {
                    ch.push(Step::FlatMap(GFun::Elems));
                }
                ch.push(Step::KeyBy(EFun::Mod(3)));
                v.push(ch);
            }
        }
    }
    v.push(vec![Step::Distinct]);
    v.push(vec![Step::DistinctPerKey]);
    v.push(vec![Step::TopKPerKey(2), Step::GroupsToList]);
    v
}

/// (source, steps, partitions): each barrier chain on the LEFT side (before the join step) and on
/// the RIGHT side (inside rsteps) of a join, join kind rotating, partitions 2..=5, both sides at
/// least 3 x partitions rows long (so every side really runs in several partitions and the
/// parallel sub-plan engine `run_subplan_par` executes the barrier).
pub fn join_side_barrier_cases(rng: &mut SplitMix64, full: bool) -> Vec<(Src, Vec<Step>, usize)> {
    let kinds = [JoinKind::Inner, JoinKind::Left, JoinKind::Right, JoinKind::Full];
    let mut out = vec![];
    let mut n = 0usize;
    for parts in 2..=5usize {
        for extra in if full { vec![0usize, 1, 2] } else { vec![parts % 3] } {
            let len = 3 * parts + extra;
            for chain in barrier_chains(parts, full) {
                for left_side in [true, false] {
                    n += 1;
                    let kind = kinds[n % 4];
                    let pat = PATTERNS[n % PATTERNS.len()];
                    let ldata = pattern_kv(pat, len, rng);
                    let rdata: Vec<Val> = (0..len + n % 2)
                        .map(|i| pair(Val::Int((i % 4) as i64), Val::Int(rng.range(-9, 30))))
                        .collect();
                    let steps = if left_side {
                        [chain.clone(), vec![Step::Join(kind, vec![], rdata)]].concat()
                    } else {
                        vec![Step::Join(kind, chain.clone(), rdata)]
                    };
                    out.push((Src::Vec(Shape::KV, ldata), steps, parts));
                }
            }
        }
    }
    out
}

/// hashing this key takes 2 ms (see `impl Hash for Val`)
pub const SLOW_KEY: i64 = 1_000_003;
/// The FIRST partition is slow (it holds the slow key), every other key spans all partitions:
/// with more than one worker thread the later partitions finish their local phase first, so any
/// barrier that gathers per-partition intermediates in completion order instead of partition
/// order permutes the values inside the groups.  (source, steps, partitions)
pub fn slow_head_cases(full: bool) -> Vec<(Src, Vec<Step>, usize)> {
    let mut out = vec![];
    for (n, parts) in [(12usize, 2usize), (12, 3), (18, 4), (24, 6), (40, 8)] {
        if !full && (n == 18 || n == 40) {
            continue;
        }
        let mut rows = vec![pair(Val::Int(SLOW_KEY), Val::Int(0))];
        for i in 1..n as i64 {
            rows.push(pair(Val::Int(1 + i % 2), Val::Int(i)));
        }
        let progs: Vec<Vec<Step>> = vec![
            vec![Step::GroupByKey],
            vec![Step::MapValues(EFun::Add(1)), Step::GroupByKey, Step::GroupsToList],
            vec![Step::CombineValues(Cid::TopK(3))],
            vec![Step::GroupByKey, Step::Filter(PFun::True), Step::CombineValuesLifted(Cid::Sum)],
            vec![Step::Join(JoinKind::Inner, vec![Step::GroupByKey, Step::GroupsToList],
                            rows.iter().rev().cloned().collect())],
        ];
        for steps in progs {
            out.push((Src::Vec(Shape::KV, rows.clone()), steps, parts));
        }
    }
    out
}

/// deep fan-in trees: so many effective partitions and so small a fan-out that the global combine
/// needs up to 13 merge rounds (fan-out 0 / 1 are clamped to 2), in the main chain and on either
/// side of a join (the sub-plan engine has its own copy of the loop)
pub fn deep_fanin_cases(full: bool) -> Vec<(Src, Vec<Step>, usize)> {
    let mut out = vec![];
    let grid: Vec<(usize, usize, Option<usize>)> = if full {
        let mut v = vec![];
        for (len, parts) in [(520usize, 257usize), (600, 300), (1000, 1000), (1100, 1024), (2100, 2049), (5000, 5000)] {
            for f in [Some(0), Some(1), Some(2), Some(3), Some(4), None] {
                v.push((len, parts, f));
            }
        }
        v.push((7000, 7000, Some(3)));
        v
    } else {
        vec![(520, 257, Some(1)), (600, 300, Some(2)), (1000, 1000, Some(0)), (1000, 1000, Some(2)),
             (2100, 2049, Some(2)), (1100, 1024, Some(3)), (5000, 5000, Some(2)), (7000, 7000, Some(3))]
    };
    for (i, (len, parts, f)) in grid.into_iter().enumerate() {
        let u: Vec<Val> = (0..len as i64).map(|x| Val::Int(x * 3 + 1)).collect();
        let (c, lifted) = [(Cid::Sum, false), (Cid::Count, true), (Cid::Sum, true), (Cid::TopK(3), false)][i % 4].clone();
        out.push((Src::Vec(Shape::U, u), vec![Step::CombineGlobally(c.clone(), lifted, f)], parts));
        if len <= 2100 {
            // the same tree on the left and on the right side of a join
            let kv: Vec<Val> = (0..len as i64).map(|x| pair(Val::Int(x % 5), Val::Int(x * 3 + 1))).collect();
            let mut ch = vec![Step::Unkey, Step::Map(EFun::Snd), Step::CombineGlobally(c.clone(), lifted, f)];
            if c.list_out() {
                ch.push(Step::FlatMap(GFun::Elems));
            }
            ch.push(Step::KeyBy(EFun::Mod(3)));
            let small = vec![pair(Val::Int(0), Val::Int(7)), pair(Val::Int(1), Val::Int(8)), pair(Val::Int(2), Val::Int(9))];
            if full || i % 2 == 0 {
                out.push((Src::Vec(Shape::KV, kv.clone()), [ch.clone(), vec![Step::Join(JoinKind::Full, vec![], small.clone())]].concat(), parts));
            }
            if full || i % 2 == 1 {
                out.push((Src::Vec(Shape::KV, small), vec![Step::Join(JoinKind::Full, ch, kv)], parts));
            }
        }
    }
    out
}

// ------------------------------------------------------------------ emptied-partition sweeps

/// Element-wise steps on an unkeyed source of the integers 0..len that leave a chosen set of the
/// `split(parts)` partitions EMPTY: (a) exactly the first, (b) exactly the last, (c) a middle one,
/// (d) all but one, (e) all.  Built from the chunking (chunk = ceil(len/parts)): the value is
/// rotated by `map(x -> (x - s) mod len)` and cut by `filter(lt t)`.  `desc` mirrors the kept
/// values (x -> len - x) so that the minimum / maximum lives on the other end.
pub fn emptied_patterns(len: usize, parts: usize, desc: bool, further: bool)
    -> Vec<(&'static str, Vec<Step>)> {
    let chunk = len.div_ceil(parts.max(1)).max(1);
    let np = len.div_ceil(chunk);
    let size = |j: usize| ((j + 1) * chunk).min(len) - j * chunk;
    let l = len as i64;
    let mut specs: Vec<(&'static str, usize, usize)> = vec![]; // (name, shift s, keep t)
    if np >= 2 {
        specs.push(("empty_first", chunk, len - chunk));
        specs.push(("empty_last", 0, (np - 1) * chunk));
        if np >= 3 {
            let j = 1 + (len + parts) % (np - 2);
            specs.push(("empty_middle", (j + 1) * chunk % len, len - size(j)));
        }
        let j = (len + parts) % np;
        specs.push(("keep_one", j * chunk, size(j)));
    }
    specs.push(("empty_all", 0, 0));
    specs
        .into_iter()
        .map(|(name, s, t)| {
            let mut st = vec![];
            if s != 0 || further {
                st.push(Step::Map(EFun::Comp(Box::new(EFun::Add(-(s as i64))), Box::new(EFun::Mod(l.max(1))))));
            }
            st.push(Step::Filter(PFun::Lt(t as i64)));
            if desc {
                st.push(Step::Map(EFun::Comp(Box::new(EFun::Mul(-1)), Box::new(EFun::Add(l)))));
            }
            if further {
                st.push(Step::Map(EFun::Add(1)));
                st.push(Step::Filter(PFun::True));
            }
            (name, st)
        })
        .collect()
}

fn index_src(len: usize) -> Src {
    Src::Vec(Shape::U, (0..len as i64).map(Val::Int).collect())
}

/// (source, steps, partitions, pattern): a join (all four kinds) one of whose sides - LEFT and
/// RIGHT - has no barrier (stays multi-partition) and has some of its partitions emptied by an
/// upstream filter; the other side is plain.  Partitions 2..=5, sides >= 3 x partitions rows.
pub fn emptied_join_cases(full: bool) -> Vec<(Src, Vec<Step>, usize, &'static str)> {
    let kinds = [JoinKind::Inner, JoinKind::Left, JoinKind::Right, JoinKind::Full];
    let mut out = vec![];
    let mut n = 0usize;
    for parts in 2..=5usize {
        for extra in if full { vec![0usize, 1, 2] } else { vec![(parts + 1) % 3] } {
            let len = 3 * parts + extra;
            for kind in kinds {
                for left_side in [true, false] {
                    for further in if full { vec![false, true] } else { vec![n % 2 == 0] } {
                        for (name, filt) in emptied_patterns(len, parts, false, further) {
                            n += 1;
                            let plain: Vec<Val> =
                                (0..len + 1).map(|i| pair(Val::Int((i % 3) as i64), Val::Int(100 + i as i64))).collect();
                            let key = Step::KeyBy(EFun::Mod(3));
                            if left_side {
                                let steps = [filt, vec![key, Step::Join(kind, vec![], plain)]].concat();
                                out.push((index_src(len), steps, parts, name));
                            } else {
                                let rdata: Vec<Val> =
                                    (0..len as i64).map(|i| pair(Val::Int(i % 3), Val::Int(i))).collect();
                                let rsteps = [vec![Step::Unkey, Step::Map(EFun::Snd)], filt, vec![key]].concat();
                                out.push((Src::Vec(Shape::KV, plain), vec![Step::Join(kind, rsteps, rdata)], parts, name));
                            }
                        }
                    }
                }
            }
        }
    }
    out
}

/// (source, steps, partitions, pattern): the emptied-partition patterns in front of every barrier
/// kind on the main chain.  Min and Max appear with both orientations of the data (extreme in an
/// early or in a late partition), lifted and unlifted, with every fan-out.
pub fn emptied_barrier_cases(full: bool) -> Vec<(Src, Vec<Step>, usize, &'static str)> {
    let key = || Step::KeyBy(EFun::Mod(3));
    let mut out = vec![];
    let mut n = 0usize;
    for parts in 2..=5usize {
        let len = 3 * parts + (parts % 3);
        let mut fs: Vec<Option<usize>> = vec![None, Some(0), Some(1), Some(2), Some(3)];
        if !fs.contains(&Some(parts + 1)) {
            fs.push(Some(parts + 1));
        }
        let npat = emptied_patterns(len, parts, false, false).len();
        for pi in 0..npat {
            let pat = |desc: bool, further: bool| emptied_patterns(len, parts, desc, further)[pi].clone();
            let mut push = |desc: bool, tail: Vec<Step>, n: usize| {
                let (name, filt) = pat(desc, n % 3 == 0);
                out.push((index_src(len), [filt, tail].concat(), parts, name));
            };
            // keyed barriers
            let mut keyed: Vec<(bool, Vec<Step>)> = vec![
                (false, vec![key(), Step::GroupByKey]),
                (false, vec![key(), Step::CombineValues(Cid::Min)]),
                (true, vec![key(), Step::CombineValues(Cid::Max)]),
                (true, vec![key(), Step::GroupByKey, Step::CombineValuesLifted(Cid::Min)]),
                (false, vec![key(), Step::CombineValues(Cid::Sum)]),
                (false, vec![Step::Distinct]),
                (false, vec![key(), Step::TopKPerKey(2)]),
            ];
            if full {
                keyed.extend(vec![
                    (true, vec![key(), Step::CombineValues(Cid::Min)]),
                    (false, vec![key(), Step::CombineValues(Cid::Max)]),
                    (false, vec![key(), Step::GroupByKey, Step::CombineValuesLifted(Cid::Max)]),
                    (false, vec![key(), Step::GroupByKey, Step::CombineValuesLifted(Cid::Count)]),
                    (false, vec![key(), Step::CombineValues(Cid::TopK(2)), Step::GroupsToList]),
                    (false, vec![key(), Step::DistinctPerKey]),
                ]);
            }
            for (desc, tail) in keyed {
                n += 1;
                push(desc, tail, n);
            }
            // global combines: every fan-out; (combiner, orientation, lifted) rotate (quick) / all (full)
            let variants: Vec<(Cid, bool)> = vec![
                (Cid::Min, false), (Cid::Max, true), (Cid::Min, true), (Cid::Max, false),
                (Cid::Sum, false), (Cid::Count, false),
            ];
            for (fi, f) in fs.iter().enumerate() {
                for (vi, (c, desc)) in variants.iter().enumerate() {
                    for lifted in [false, true] {
                        if !full && (vi != (pi + fi + parts) % variants.len() || lifted != ((pi + fi) % 2 == 0)) {
                            // quick: one variant per (pattern, fan-out, partitions); Min / Max get two
                            if !(matches!(c, Cid::Min | Cid::Max)
                                && vi == (pi + fi + parts + 2) % 4
                                && lifted == ((pi + fi) % 2 == 1))
                            {
                                continue;
                            }
                        }
                        n += 1;
                        push(*desc, vec![Step::CombineGlobally(c.clone(), lifted, *f)], n);
                    }
                }
            }
        }
    }
    out
}

/// (source, steps, partitions): inputs long enough for MORE THAN 64 effective partitions
/// (len in {130, 200, 500} x partitions in {65, 100, 128, len}), keys cycling so that every key
/// spans every partition, in front of group_by_key / combine_values / combine_globally / distinct.
pub fn many_partition_cases(full: bool) -> Vec<(Src, Vec<Step>, usize)> {
    let mut out = vec![];
    let combos: Vec<(usize, usize)> = if full {
        let mut v = vec![];
        for len in [130usize, 200, 500] {
            for parts in [65usize, 100, 128, len] {
                v.push((len, parts));
            }
        }
        v
    } else {
        vec![(130, 65), (200, 128), (200, 200), (500, 100)]
    };
    for (ci, (len, parts)) in combos.into_iter().enumerate() {
        let kv: Vec<Val> = (0..len as i64).map(|i| pair(Val::Int(i % 7), Val::Int(i))).collect();
        let u: Vec<Val> = (0..len as i64).map(|i| Val::Int(i % 11)).collect();
        let mut progs: Vec<(Shape, Vec<Step>)> = vec![
            (Shape::KV, vec![Step::GroupByKey]),
            (Shape::KV, vec![Step::CombineValues(Cid::Sum)]),
            (Shape::U, vec![Step::CombineGlobally(Cid::Sum, ci % 2 == 0, [None, Some(2), Some(64), Some(3)][ci % 4])]),
            (Shape::U, vec![Step::Distinct]),
        ];
        if full {
            progs.extend(vec![
                (Shape::KV, vec![Step::GroupByKey, Step::CombineValuesLifted(Cid::Count)]),
                (Shape::KV, vec![Step::CombineValues(Cid::Min)]),
                (Shape::KV, vec![Step::TopKPerKey(2)]),
                (Shape::KV, vec![Step::DistinctPerKey]),
                (Shape::U, vec![Step::CombineGlobally(Cid::Count, true, Some(65))]),
                (Shape::U, vec![Step::CombineGlobally(Cid::TopK(3), false, Some(0))]),
                (Shape::KV, vec![Step::Join(JoinKind::Inner, vec![], vec![pair(Val::Int(1), Val::Int(0))])]),
            ]);
        }
        for (shape, steps) in progs {
            let data = if shape == Shape::KV { kv.clone() } else { u.clone() };
            out.push((Src::Vec(shape, data), steps, parts));
        }
    }
    out
}

/// kind "branch" / "branchpair" input
pub fn branch_input(src: &Src, prefix: &[Step], a: &[Step], b: &[Step], mode: Mode) -> Value {
    json!([src_json(src), steps_json(prefix), steps_json(a), steps_json(b),
           match mode { Mode::Seq => Value::Null, Mode::Par(n) => json!(n) }])
}
/// a random branching program: a prefix and two independent continuations from its state;
/// None when one of the three programs falls into the reorder class (unless allowed)
pub fn gen_branch(rng: &mut SplitMix64, src: &Src, o: &GenOpts, parts: usize)
    -> Option<(Vec<Step>, Vec<Step>, Vec<Step>)> {
    let npre = rng.below(5) as usize;
    let (prefix, sim) = gen_program(rng, src, o, npre, parts);
    let cont = |rng: &mut SplitMix64| {
        let mut steps = vec![];
        let mut st = sim.clone();
        for _ in 0..rng.range(1, 4) {
            let Some((s, next)) = gen_step(rng, &st, o, parts) else { break };
            steps.push(s);
            st = next;
        }
        steps
    };
    let a = cont(rng);
    let b = cont(rng);
    if a.is_empty() || b.is_empty() {
        return None;
    }
    let full = |x: &[Step]| [prefix.clone(), x.to_vec()].concat();
    if !o.reorder_class && (reorder_changes(&full(&a)) || reorder_changes(&full(&b)) || reorder_changes(&prefix)) {
        return None;
    }
    Some((prefix, a, b))
}

/// (source, steps, partitions): TopK over NON-monotone data (shuffled, descending, zig-zag) with
/// every key's values spread over several partitions and more values than k per partition pair:
/// top_k_per_key, combine_values(topk), combine_globally(topk) lifted / unlifted with several
/// fan-outs; k in {1,2,3,5}, partitions 2..=6.
pub fn topk_cases(rng: &mut SplitMix64, full: bool) -> Vec<(Src, Vec<Step>, usize)> {
    let mut out = vec![];
    let mut n = 0usize;
    for parts in 2..=6usize {
        for k in [1usize, 2, 3, 5] {
            for order in 0..3 {
                let len = 4 * parts + (k + order) % 3;
                let mut vals: Vec<i64> = (0..len as i64).map(|i| i * 3 % 17 + i).collect();
                match order {
                    0 => {
                        for i in (1..vals.len()).rev() {
                            vals.swap(i, rng.below(i as u64 + 1) as usize);
                        }
                    }
                    1 => {
                        vals.sort();
                        vals.reverse();
                    }
                    _ => {
                        // zig-zag: large, small, large, ...
                        vals.sort();
                        let (lo, hi) = vals.split_at(vals.len() / 2);
                        vals = hi.iter().rev().zip(lo.iter()).flat_map(|(a, b)| [*a, *b]).collect();
                    }
                }
                let kv: Vec<Val> = vals.iter().enumerate()
                    .map(|(i, v)| pair(Val::Int((i % 2) as i64), Val::Int(*v))).collect();
                let u: Vec<Val> = vals.iter().map(|v| Val::Int(*v)).collect();
                n += 1;
                let fan = [None, Some(2), Some(0), Some(3)][n % 4];
                let mut progs: Vec<(Shape, Vec<Step>)> = vec![
                    (Shape::KV, vec![Step::TopKPerKey(k)]),
                    (Shape::U, vec![Step::CombineGlobally(Cid::TopK(k), n % 2 == 0, fan)]),
                ];
                if full || n % 3 == 0 {
                    progs.push((Shape::KV, vec![Step::GroupByKey, Step::CombineValuesLifted(Cid::TopK(k))]));
                    progs.push((Shape::U, vec![Step::CombineGlobally(Cid::TopK(k), n % 2 == 1, Some(parts))]));
                }
                for (shape, steps) in progs {
                    let data = if shape == Shape::KV { kv.clone() } else { u.clone() };
                    out.push((Src::Vec(shape, data), steps, parts));
                }
            }
        }
    }
    out
}

/// element-wise chains of more than 64 consecutive stateless steps (cheap operators, filters that
/// keep everything): lengths 65, 70, 130 (and 64 / 66 in the thorough tier)
pub fn long_chains(full: bool) -> Vec<Vec<Step>> {
    let lens: Vec<usize> = if full { vec![63, 64, 65, 66, 70, 128, 129, 130] } else { vec![65, 70, 130] };
    lens.into_iter()
        .map(|n| {
            (0..n)
                .map(|i| match i % 5 {
                    0 | 3 => Step::Map(EFun::Add(1)),
                    1 => Step::CustomMap(EFun::Add(1)),
                    2 => Step::Filter(PFun::True),
                    _ => Step::Map(EFun::Mul(-1)),
                })
                .collect()
        })
        .collect()
}

// ------------------------------------------------------------------ big inputs

/// (n, partitions) around the 65 536-row threshold
pub fn big_grid(full: bool) -> Vec<(usize, usize)> {
    if full {
        let mut v = vec![];
        for n in [65_535usize, 65_536, 65_537, 70_001] {
            for p in [2usize, 3, 7, 16] {
                v.push((n, p));
            }
        }
        v
    } else {
        vec![(70_001, 16), (65_536, 3), (65_537, 7), (65_535, 2), (70_001, 3)]
    }
}
pub fn big_chain() -> Vec<Step> {
    vec![Step::Map(EFun::Add(1)), Step::Filter(PFun::ModEq(3, 1)), Step::Map(EFun::Mod(1000))]
}
/// small-output programs over big ranges (plain "prog" / "pair" kinds): (source, steps, mode)
pub fn big_combine_cases(full: bool) -> Vec<(Src, Vec<Step>, Mode)> {
    let mut out = vec![];
    for (i, (n, p)) in big_grid(full).into_iter().enumerate() {
        out.push((range_src(Shape::KV, n), vec![Step::CombineValues(Cid::Sum)], Mode::Par(p)));
        let variants: Vec<(Cid, bool, Option<usize>)> = if full {
            let mut v = vec![];
            for c in [Cid::Sum, Cid::Count] {
                for l in [false, true] {
                    for f in [None, Some(2)] {
                        v.push((c.clone(), l, f));
                    }
                }
            }
            v
        } else {
            vec![([Cid::Sum, Cid::Count][i % 2].clone(), i % 2 == 0, [None, Some(2)][(i / 2) % 2]),
                 ([Cid::Count, Cid::Sum][i % 2].clone(), i % 2 == 1, [Some(2), None][(i / 2) % 2])]
        };
        for (c, l, f) in variants {
            out.push((range_src(Shape::U, n), vec![Step::CombineGlobally(c, l, f)], Mode::Par(p)));
        }
    }
    // one partition holding more than 4096 rows (not a multiple of 4096): the lifted local pass
    for n in [4095usize, 4096, 4097, 10_001] {
        for mode in [Mode::Seq, Mode::Par(1), Mode::Par(2)] {
            for (c, l) in [(Cid::Sum, true), (Cid::Count, true), (Cid::Sum, false)] {
                if !full && !l && mode != Mode::Seq {
                    continue;
                }
                out.push((range_src(Shape::U, n), vec![Step::CombineGlobally(c, l, None)], mode));
            }
        }
    }
    out
}
/// groups / partitions of 127, 128, 129, 300, 1000 values through the LIFTED locals: hand-built
/// grouped input, group_by_key + a stateless step + combine_values_lifted (no planner lift), and
/// combine_globally_lifted; Sum / Count / Min / TopK; the minimum sits in the middle of the group
pub fn big_group_cases(full: bool) -> Vec<(Src, Vec<Step>, Mode)> {
    let mut out = vec![];
    let cids = [Cid::Sum, Cid::Count, Cid::Min, Cid::TopK(3), Cid::SumMod(1009), Cid::Gcd];
    for (gi, g) in [127usize, 128, 129, 300, 511, 513, 1000, 4097, 8200].into_iter().enumerate() {
        if !full && g == 8200 {
            continue;
        }
        let vals: Vec<Val> = (0..g as i64).map(|i| Val::Int((i - g as i64 / 2).abs() + 1 + (i % 3))).collect();
        let grouped = Src::Vec(Shape::KG, vec![
            pair(Val::Int(0), Val::List(vals.clone())),
            pair(Val::Int(1), Val::List(vals.iter().rev().cloned().collect())),
            pair(Val::Int(0), Val::List(vals[..g / 3].to_vec())),
        ]);
        for (ci, c) in cids.iter().enumerate() {
            if !full && (ci + gi) % 2 == 1 {
                continue;
            }
            for mode in [Mode::Seq, Mode::Par(2)] {
                out.push((grouped.clone(), vec![Step::CombineValuesLifted(c.clone())], mode));
                out.push((Src::Vec(Shape::U, vals.clone()), vec![Step::CombineGlobally(c.clone(), true, None)],
                          if mode == Mode::Seq { Mode::Seq } else { Mode::Par(1) }));
            }
            out.push((range_src(Shape::KV, 7 * g),
                      vec![Step::GroupByKey, Step::Filter(PFun::True), Step::CombineValuesLifted(c.clone())],
                      [Mode::Seq, Mode::Par(1), Mode::Par(3)][(ci + gi) % 3]));
        }
    }
    out
}

/// a big case: (kind, source, steps, mode)
pub type BigCase = (&'static str, Src, Vec<Step>, Mode);
/// emit one big case (kinds prog / bigprog / pair / bigpair); big cases are spread through the
/// stream by the callers so that they land in different judge shards
pub fn emit_big(em: &mut crate::Emitter, c: &BigCase) {
    let (kind, src, steps, mode) = c;
    let tags = case_tags(src, steps, *mode, &["sweep", "big_input"]);
    let tr: Vec<&str> = tags.iter().map(String::as_str).collect();
    em.case(kind, case_input(src, steps, *mode), nontrivial(src, steps, *mode, false), &tr);
}
/// pops and emits the next big case every `stride` calls
pub struct Spread {
    pub items: Vec<BigCase>,
    pub stride: usize,
    pub tick: usize,
}
impl Spread {
    pub fn new(mut items: Vec<BigCase>, total: usize) -> Self {
        items.reverse();
        let stride = (total / (items.len() + 1)).max(1);
        Spread { items, stride, tick: 0 }
    }
    pub fn step(&mut self, em: &mut crate::Emitter) {
        self.tick += 1;
        if self.tick % self.stride == 0 {
            if let Some(c) = self.items.pop() {
                emit_big(em, &c);
            }
        }
    }
    pub fn finish(&mut self, em: &mut crate::Emitter) {
        while let Some(c) = self.items.pop() {
            emit_big(em, &c);
        }
    }
}
