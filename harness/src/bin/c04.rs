//! C04: group_by_key is an exact partition of its input by key.
//! Programs end in (or contain) the REAL `group_by_key`; the judge is Corr/C04.v.
use ibv::engine::*;
use ibv::{Emitter, Tier, drive};
use serde_json::Value;

const DIR: &str = "/verif/run/C04";

fn sweep_programs() -> Vec<(Shape, Vec<Step>)> {
    let right = vec![pair(Val::Int(0), Val::Int(5)), pair(Val::Int(1), Val::Int(6)),
                     pair(Val::Int(1), Val::Int(7)), pair(Val::Int(0), Val::Int(8)),
                     pair(Val::Int(7), Val::Int(1))];
    vec![
        (Shape::KV, vec![Step::GroupByKey]),
        (Shape::KV, vec![
            Step::Filter(PFun::Not(Box::new(PFun::ModEq(4, 1)))),
            Step::MapValues(EFun::Add(1)),
            Step::GroupByKey,
        ]),
        (Shape::U, vec![Step::KeyBy(EFun::Mod(3)), Step::GroupByKey]),
        (Shape::KV, vec![Step::GroupByKey, Step::FlatMap(GFun::Elems), Step::GroupByKey]),
        (Shape::KV, vec![
            Step::Join(JoinKind::Inner, vec![Step::GroupByKey, Step::GroupsToList], right.clone()),
            Step::GroupByKey,
        ]),
        (Shape::KV, vec![Step::DistinctPerKey, Step::GroupByKey]),
        (Shape::KV, vec![Step::DistinctPerKey]),
        (Shape::KV, vec![Step::GroupByKey]),
        (Shape::KV, vec![
            Step::GroupByKey,
            Step::GroupsToList,
            Step::Join(JoinKind::Full, vec![Step::GroupByKey, Step::GroupsToList], right),
        ]),
        (Shape::U, vec![Step::FlatMap(GFun::UpTo(4)), Step::KeyBy(EFun::Id), Step::GroupByKey,
                        Step::GroupsToList]),
    ]
}

fn generate(seed: u64, tier: Tier, em: &mut Emitter) {
    let progs = sweep_programs();
    let mut rng = ibv::SplitMix64::new(seed ^ 0xC04);
    sweep_grid(|n, parts, idx| {
        let mode = parts.map_or(Mode::Seq, Mode::Par);
        for (j, (shape, steps)) in progs.iter().enumerate() {
            if idx % (if tier == Tier::Quick { progs.len() } else { 2 }) != j % (if tier == Tier::Quick { progs.len() } else { 2 }) {
                continue;
            }
            for pat in 0..(if tier == Tier::Quick { 1 } else { 2 }) {
                let src = sweep_src(*shape, n, idx / progs.len() + pat, &mut rng);
                emit_prog(em, &src, steps, mode, true, &["sweep"]);
            }
        }
    });
    // plain group_by_key over every key pattern, lengths up to 40 (thorough) / selected (quick)
    let lens: Vec<usize> = if tier == Tier::Quick { vec![2, 5, 16, 33, 40] } else { (25..=40).collect() };
    for &n in &lens {
        for pat in PATTERNS {
            for parts in 0..=(n + 2) {
                if tier == Tier::Quick && parts > 6 && parts + 3 < n {
                    continue;
                }
                let src = Src::Vec(Shape::KV, pattern_kv(pat, n, &mut rng));
                emit_prog(em, &src, &[Step::GroupByKey], Mode::Par(parts), true, &["sweep", pat]);
            }
        }
    }
    // a slow first partition: later partitions finish their local phase first (run with 4 threads)
    for (src, steps, parts) in slow_head_cases(tier != Tier::Quick) {
        emit_prog(em, &src, &steps, Mode::Par(parts), true, &["sweep", "slow_first_partition"]);
    }
    // group_by_key (plain, lifted-combine, distinct_per_key) on either side of a join
    for (src, steps, parts) in join_side_barrier_cases(&mut rng, tier != Tier::Quick) {
        let uses_gbk = |ss: &[Step]| ss.iter().any(|s| matches!(s, Step::GroupByKey | Step::DistinctPerKey));
        let inside = steps.iter().any(|s| matches!(s, Step::Join(_, rs, _) if uses_gbk(rs)));
        if uses_gbk(&steps) || inside {
            emit_prog(em, &src, &steps, Mode::Par(parts), true, &["sweep", "join_side_barrier"]);
        }
    }
    // partitions emptied by an upstream filter in front of group_by_key
    for (src, steps, parts, pat) in emptied_barrier_cases(tier != Tier::Quick) {
        if steps.iter().any(|s| matches!(s, Step::GroupByKey | Step::DistinctPerKey)) {
            emit_prog(em, &src, &steps, Mode::Par(parts), true, &["sweep", "emptied_partition", pat]);
        }
    }
    // more than 64 effective partitions: a key spanning every partition must come out once
    for (src, steps, parts) in many_partition_cases(tier != Tier::Quick) {
        if steps.iter().any(|s| matches!(s, Step::GroupByKey | Step::DistinctPerKey)) {
            emit_prog(em, &src, &steps, Mode::Par(parts), true, &["sweep", "many_partitions"]);
        }
    }
    let mut rng = seed_mix(seed, 0xC04_0002);
    let count = if tier == Tier::Quick { 1100 } else { 8000 };
    // big inputs: group_by_key over 65 535 .. 70 001 rows (7 keys), summarised
    let mut big: Vec<BigCase> = vec![];
    for (i, (n, p)) in big_grid(tier != Tier::Quick).into_iter().enumerate() {
        if tier != Tier::Quick || i < 2 {
            big.push(("bigprog", range_src(Shape::KV, n), vec![Step::GroupByKey], Mode::Par(p)));
        }
    }
    if tier != Tier::Quick {
        big.push(("bigprog", range_src(Shape::KV, 70_001), vec![Step::GroupByKey], Mode::Seq));
    }
    let mut spread = Spread::new(big, count);
    let mut made = 0;
    while made < count {
        let n = gen_len(&mut rng);
        let src = gen_src(&mut rng, n, true, true);
        let parts = gen_parts(&mut rng, src.len());
        let mut o = GenOpts::all();
        if rng.chance(1, 2) {
            o.barriers = false;
            o.joins = false;
        }
        let nsteps = rng.below(9) as usize;
        let Some((mut steps, sim)) = gen_prefix_to(&mut rng, &src, &o, nsteps, parts, Shape::KV) else {
            continue;
        };
        let Some(mut sim) = push_step(&mut steps, &sim, Step::GroupByKey) else { continue };
        if rng.chance(1, 5) {
            for _ in 0..rng.range(1, 3) {
                let Some((s, _)) = gen_step(&mut rng, &sim, &GenOpts::all(), parts) else { break };
                match push_step(&mut steps, &sim, s) {
                    Some(next) => sim = next,
                    None => break,
                }
            }
        }
        let mode = if rng.chance(1, 5) { Mode::Seq } else { Mode::Par(parts) };
        let mode = maybe_auto(&mut rng, &steps, mode, 8);
        emit_prog(em, &src, &steps, mode, true, &["random"]);
        made += 1;
        spread.step(em);
    }
    spread.finish(em);
}

fn run(kind: &str, input: &Value) -> Value {
    match kind {
        "prog" => run_prog_case(input, DIR),
        "bigprog" => run_bigprog_case(input, DIR),
        _ => serde_json::json!(["invalid"]),
    }
}

fn main() {
    drive(&generate, &run);
}
