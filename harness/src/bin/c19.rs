//! C19: cloud object JSONL round trip and glob expansion.
//! Runs the REAL ironbeam::io::cloud::readers functions over ironbeam's in-memory FakeObjectIO
//! (wrapped in a spy that records the prefix handed to `list_objects`).
//!
//! kinds
//!   expand    in = [bucket_exists, [keys], pattern]  or
//!                  [bucket_exists, [keys], pattern, [keys put with a zero-length body],
//!                   [keys written through write_cloud_jsonl_vec with no record]]
//!             (every other key holds the one byte "x")
//!             out = [expand_cloud_glob outcome, expand_cloud_glob_required outcome, prefix seen]
//!   sweep     in = [pattern, alphabet, maxlen]   bucket = every string over the alphabet of
//!             length <= maxlen; out = [expand_cloud_glob outcome]  (keys as code point arrays)
//!   roundtrip in = [key, [records]]  write_cloud_jsonl_vec then read_cloud_jsonl_vec
//!             out = ["ok", n, signature id of the stored bytes, records read back,
//!                    plain payload of the same records] | ["err", stage]
//!   readglob  in = [[[key, [records]], ...], pattern]  objects written in this order through
//!             write_cloud_jsonl_vec, then read_cloud_jsonl_glob; out = ["ok", records] | ["err", k]
//!   big       in = [key, n]  records [i, "row"] for i < n, written in one call and read back;
//!             out = ["ok", n written, n read, first id (-1 if none), last id, sum of ids,
//!                    ids are 0,1,2,.. in order, every payload is "row", signature id] | ["err", stage]
//!   seq       in = [[[key, [records]], ...], [keys to read]]  the writes in this order through
//!             write_cloud_jsonl_vec (the same key may be written several times), then each
//!             listed key through read_cloud_jsonl_vec;
//!             out = one ["ok", signature id of the stored bytes, records] | ["err", kind] per key
//!   ops       in = [[op, ...]]  a call sequence on ONE store holding several buckets; per op one outcome:
//!               ["w", bucket, key, [records]]  write_cloud_jsonl_vec          -> ["ok", n] | ["err", k]
//!               ["wo", ...] the same, every record wrapped in a JSON object {"n": i, "v": record}
//!               ["raw", bucket, key, codec 0..4, [item, ...]]  put_object of a loose JSONL text,
//!                    encoded with the codec (through ironbeam's auto_detect_writer);
//!                    item = ["rec", pre, record, post, eol] | ["ws", text, eol] | ["junk", text, eol],
//!                    eol 0 = none (last item only), 1 = LF, 2 = CR LF               -> ["ok"]
//!               ["del", bucket, key]  delete_object                                -> ["ok"]
//!               ["cp", sbucket, skey, dbucket, dkey]  copy_object                  -> ["ok"] | ["err", k]
//!               ["r", bucket, key]  read_cloud_jsonl_vec -> ["ok", signature id, [records]] | ["err", k]
//!               ["x", bucket, pattern]  expand_cloud_glob, expand_cloud_glob_required
//!                                                         -> [outcome, outcome, prefix seen]
//!               ["g", bucket, pattern]  read_cloud_jsonl_glob  -> ["ok", [records]] | ["err", k]
//!               ["ex", bucket, key]  object_exists                                 -> ["ok", bool]
//!   many      in = [mode, style, n, pattern]  n objects with keys made by a formula (style);
//!             mode 0: one byte each, expand_cloud_glob -> [["ok", count, digest] | ["err", k], prefix seen]
//!             mode 1: object i written with the records 4i .. 4i + (i mod 3) - 1, read_cloud_jsonl_glob
//!                     -> ["ok", count, digest] | ["err", k]
//!   wide      in = [key, n, width, mode]  records [i, s_i], s_i = width letters (mode 0: one letter
//!             per record, mode 1: pseudo-random); written in one call, read back;
//!             out = ["ok", n written, n read, sum of ids, ids consecutive, total payload length,
//!                    read back == written, sum of the first letters, signature id] | ["err", stage]
//! A string is a JSON string, an array of code points, or an array of [string, count] pairs (the
//! concatenation of the repeated pieces; for long keys and patterns).
//! Outcomes: ["ok", v] | ["err", kind].
use ibv::{Emitter, SplitMix64, Tier, drive, run_caught};
use ironbeam::io::cloud::FakeObjectIO;
use ironbeam::io::cloud::readers::{
    expand_cloud_glob, expand_cloud_glob_required, read_cloud_jsonl_glob, read_cloud_jsonl_vec,
    write_cloud_jsonl_vec,
};
use ironbeam::io::cloud::traits::{CloudResult, ObjectIO, ObjectMetadata};
use ironbeam::io::compression::auto_detect_writer;
use serde_json::{Value, json};
use std::io::Write;
use std::sync::{Arc, Mutex};

const BUCKET: &str = "b";

/// FakeObjectIO + a record of the prefix argument of the last `list_objects` call; listings
/// are returned in descending key order
struct Spy {
    inner: FakeObjectIO,
    seen: Mutex<Option<Option<String>>>,
}
impl Spy {
    fn new() -> Self {
        Self { inner: FakeObjectIO::new(), seen: Mutex::new(None) }
    }
}
impl ObjectIO for Spy {
    fn put_object(&self, b: &str, k: &str, d: &[u8]) -> CloudResult<()> {
        self.inner.put_object(b, k, d)
    }
    fn get_object(&self, b: &str, k: &str) -> CloudResult<Vec<u8>> {
        self.inner.get_object(b, k)
    }
    fn delete_object(&self, b: &str, k: &str) -> CloudResult<()> {
        self.inner.delete_object(b, k)
    }
    fn list_objects(&self, b: &str, prefix: Option<&str>) -> CloudResult<Vec<ObjectMetadata>> {
        *self.seen.lock().unwrap() = Some(prefix.map(String::from));
        // the ObjectIO contract promises no order: hand the listing over in DESCENDING key
        // order, so that the final `sort()` of expand_cloud_glob is what orders the result
        let mut l = self.inner.list_objects(b, prefix)?;
        l.reverse();
        Ok(l)
    }
    fn object_exists(&self, b: &str, k: &str) -> CloudResult<bool> {
        self.inner.object_exists(b, k)
    }
    fn get_metadata(&self, b: &str, k: &str) -> CloudResult<ObjectMetadata> {
        self.inner.get_metadata(b, k)
    }
    fn copy_object(&self, sb: &str, sk: &str, db: &str, dk: &str) -> CloudResult<()> {
        self.inner.copy_object(sb, sk, db, dk)
    }
}

fn str_of(v: &Value) -> String {
    match v {
        Value::String(s) => s.clone(),
        Value::Array(a) if a.first().is_some_and(Value::is_array) => a
            .iter()
            .map(|p| str_of(&p[0]).repeat(p[1].as_u64().expect("count") as usize))
            .collect(),
        Value::Array(a) => a
            .iter()
            .map(|c| char::from_u32(c.as_u64().expect("code point") as u32).expect("scalar"))
            .collect(),
        _ => panic!("not a string"),
    }
}
fn codes_of(s: &str) -> Value {
    Value::Array(s.chars().map(|c| json!(c as u32)).collect())
}

/// a long string as [piece, count] pairs (greedy search for short periods), a short one as is
fn compress_str(s: &str) -> Value {
    let cs: Vec<char> = s.chars().collect();
    let n = cs.len();
    if n <= 300 {
        return Value::String(s.to_string());
    }
    let mut pieces: Vec<Value> = Vec::new();
    let mut lit = String::new();
    let mut i = 0;
    while i < n {
        let mut best = (0usize, 0usize);
        for p in 1..=4usize {
            if i + p > n {
                break;
            }
            let mut count = 1;
            while i + (count + 1) * p <= n && cs[i + count * p..i + (count + 1) * p] == cs[i..i + p] {
                count += 1;
            }
            if count >= 8 && count * p > best.0 * best.1 {
                best = (p, count);
            }
        }
        if best.1 > 0 {
            if !lit.is_empty() {
                pieces.push(json!([lit, 1]));
                lit = String::new();
            }
            let unit: String = cs[i..i + best.0].iter().collect();
            pieces.push(json!([unit, best.1]));
            i += best.0 * best.1;
        } else {
            lit.push(cs[i]);
            i += 1;
        }
    }
    if !lit.is_empty() {
        pieces.push(json!([lit, 1]));
    }
    Value::Array(pieces)
}

fn keys_outcome(r: CloudResult<Vec<String>>, as_codes: bool) -> Value {
    match r {
        Ok(ks) => {
            if as_codes {
                json!(["ok", ks.iter().map(|k| codes_of(k)).collect::<Vec<_>>()])
            } else {
                json!(["ok", ks.iter().map(|k| compress_str(k)).collect::<Vec<_>>()])
            }
        }
        Err(e) => json!(["err", format!("{:?}", e.kind)]),
    }
}

/// all strings over `syms` of length 0..=maxlen; by length, first character slowest
fn all_seqs(syms: &[char], maxlen: usize) -> Vec<String> {
    let mut out = vec![String::new()];
    let mut cur = vec![String::new()];
    for _ in 0..maxlen {
        let mut next = Vec::with_capacity(cur.len() * syms.len());
        for s in &cur {
            for &c in syms {
                let mut t = s.clone();
                t.push(c);
                next.push(t);
            }
        }
        out.extend(next.iter().cloned());
        cur = next;
    }
    out
}

fn signature_id(bytes: &[u8]) -> i64 {
    if bytes.starts_with(&[0x1f, 0x8b]) {
        1
    } else if bytes.starts_with(&[0x28, 0xb5, 0x2f, 0xfd]) {
        2
    } else if bytes.starts_with(b"BZh") {
        3
    } else if bytes.starts_with(&[0xfd, 0x37, 0x7a, 0x58, 0x5a, 0x00]) {
        4
    } else {
        0
    }
}


/// a `Write` that appends to a shared buffer (auto_detect_writer wants an owned 'static writer)
struct Shared(Arc<Mutex<Vec<u8>>>);
impl Write for Shared {
    fn write(&mut self, b: &[u8]) -> std::io::Result<usize> {
        self.0.lock().unwrap().extend_from_slice(b);
        Ok(b.len())
    }
    fn flush(&mut self) -> std::io::Result<()> {
        Ok(())
    }
}

/// `text` encoded with codec 0 (none) | 1 gzip | 2 zstd | 3 bzip2 | 4 xz by ironbeam's own
/// extension-driven writer (src/io/compression.rs: auto_detect_writer)
fn encode_with(codec: i64, text: &[u8]) -> Vec<u8> {
    let hint = match codec {
        0 => return text.to_vec(),
        1 => "x.gz",
        2 => "x.zst",
        3 => "x.bz2",
        4 => "x.xz",
        _ => panic!("codec id"),
    };
    let buf = Arc::new(Mutex::new(Vec::new()));
    {
        let mut w = auto_detect_writer(Shared(buf.clone()), hint).expect("writer");
        w.write_all(text).unwrap();
        w.flush().unwrap();
    }
    let v = buf.lock().unwrap().clone();
    v
}

fn eol_of(v: &Value) -> &'static str {
    match v.as_i64().unwrap() {
        0 => "",
        1 => "\n",
        2 => "\r\n",
        _ => panic!("eol"),
    }
}

/// the loose JSONL text of a "raw" op
fn raw_text(items: &[Value]) -> String {
    let mut t = String::new();
    for it in items {
        match it[0].as_str().unwrap() {
            "rec" => {
                t.push_str(&str_of(&it[1]));
                t.push_str(&serde_json::to_string(&it[2]).unwrap());
                t.push_str(&str_of(&it[3]));
                t.push_str(eol_of(&it[4]));
            }
            "ws" | "junk" => {
                t.push_str(&str_of(&it[1]));
                t.push_str(eol_of(&it[2]));
            }
            _ => panic!("item"),
        }
    }
    t
}

fn err_of<T>(r: &CloudResult<T>) -> Value {
    match r {
        Ok(_) => json!(["ok"]),
        Err(e) => json!(["err", format!("{:?}", e.kind)]),
    }
}

fn seen_of(st: &Spy) -> Value {
    match st.seen.lock().unwrap().clone() {
        None => json!(["nocall"]),
        Some(None) => json!(["none"]),
        Some(Some(p)) => json!(["some", compress_str(&p)]),
    }
}

/// records written by a "wo" op come back as {"n": i, "v": record}: hand back the record
fn unwrap_objects(v: Vec<Value>) -> Vec<Value> {
    v.into_iter()
        .map(|x| match x {
            Value::Object(mut m) if m.len() == 2 && m.contains_key("n") => m.remove("v").unwrap_or(Value::Null),
            other => other,
        })
        .collect()
}

#[derive(serde::Serialize, serde::Deserialize, PartialEq)]
struct WideRec {
    id: u64,
    value: String,
}

fn run_ops(input: &Value) -> Value {
    let st = Spy::new();
    let mut outs: Vec<Value> = Vec::new();
    for op in input[0].as_array().unwrap() {
        let a = |i: usize| str_of(&op[i]);
        let o = match op[0].as_str().unwrap() {
            "w" | "wo" => {
                let mut recs: Vec<Value> = op[3].as_array().unwrap().clone();
                if op[0] == "wo" {
                    // every record as a JSON object (what a struct serialises to)
                    recs = recs
                        .into_iter()
                        .enumerate()
                        .map(|(i, v)| Value::Object([("n".to_string(), json!(i)), ("v".to_string(), v)].into_iter().collect()))
                        .collect();
                }
                match write_cloud_jsonl_vec(&st, &a(1), &a(2), &recs) {
                    Ok(n) => json!(["ok", n]),
                    Err(e) => json!(["err", format!("{:?}", e.kind)]),
                }
            }
            "raw" => {
                let text = raw_text(op[4].as_array().unwrap());
                let bytes = encode_with(op[3].as_i64().unwrap(), text.as_bytes());
                err_of(&st.put_object(&a(1), &a(2), &bytes))
            }
            "del" => err_of(&st.delete_object(&a(1), &a(2))),
            "cp" => err_of(&st.copy_object(&a(1), &a(2), &a(3), &a(4))),
            "ex" => match st.object_exists(&a(1), &a(2)) {
                Ok(b) => json!(["ok", b]),
                Err(e) => json!(["err", format!("{:?}", e.kind)]),
            },
            "r" => match read_cloud_jsonl_vec::<Value, _>(&st, &a(1), &a(2)) {
                Ok(v) => {
                    let sig = signature_id(&st.get_object(&a(1), &a(2)).unwrap());
                    json!(["ok", sig, unwrap_objects(v)])
                }
                Err(e) => json!(["err", format!("{:?}", e.kind)]),
            },
            "x" => {
                *st.seen.lock().unwrap() = None;
                let o1 = keys_outcome(expand_cloud_glob(&st, &a(1), &a(2)), false);
                let seen = seen_of(&st);
                let o2 = keys_outcome(expand_cloud_glob_required(&st, &a(1), &a(2)), false);
                json!([o1, o2, seen])
            }
            "g" => match read_cloud_jsonl_glob::<Value, _>(&st, &a(1), &a(2)) {
                Ok(v) => json!(["ok", unwrap_objects(v)]),
                Err(e) => json!(["err", format!("{:?}", e.kind)]),
            },
            _ => panic!("op"),
        };
        outs.push(o);
    }
    Value::Array(outs)
}

const DIGEST_P: u64 = 1_000_000_007;

/// key of object i in a "many" bucket
fn many_key(style: i64, i: u64) -> String {
    match style {
        0 => format!("part-{i}"),
        1 => format!("d{}/part-{:05}.jsonl", i % 7, i),
        2 => format!("{i}"),
        3 => format!("k{i}{}", ["", ".gz", ".zst", ".bz2", ".xz"][(i % 5) as usize]),
        _ => panic!("style"),
    }
}

fn key_hash(k: &str) -> u64 {
    let mut h = 0u64;
    for (j, c) in k.chars().enumerate() {
        h = (h + (j as u64 + 1) * (c as u64)) % DIGEST_P;
    }
    h
}

fn run_many(input: &Value) -> Value {
    let mode = input[0].as_i64().unwrap();
    let style = input[1].as_i64().unwrap();
    let n = input[2].as_u64().unwrap();
    let pattern = str_of(&input[3]);
    let st = Spy::new();
    // insertion order: odd indices downwards, then even indices upwards
    let order: Vec<u64> = (0..n).rev().filter(|i| i % 2 == 1).chain((0..n).filter(|i| i % 2 == 0)).collect();
    for i in order {
        let key = many_key(style, i);
        if mode == 0 {
            st.put_object(BUCKET, &key, b"x").unwrap();
        } else {
            let recs: Vec<u64> = (0..i % 3).map(|j| 4 * i + j).collect();
            write_cloud_jsonl_vec(&st, BUCKET, &key, &recs).unwrap();
        }
    }
    if mode == 0 {
        let o = match expand_cloud_glob(&st, BUCKET, &pattern) {
            Ok(ks) => {
                let mut d = 0u64;
                for (idx, k) in ks.iter().enumerate() {
                    d = (d + (idx as u64 + 1) * key_hash(k)) % DIGEST_P;
                }
                json!(["ok", ks.len(), d])
            }
            Err(e) => json!(["err", format!("{:?}", e.kind)]),
        };
        json!([o, seen_of(&st)])
    } else {
        match read_cloud_jsonl_glob::<u64, _>(&st, BUCKET, &pattern) {
            Ok(v) => {
                let mut d = 0u64;
                for (idx, x) in v.iter().enumerate() {
                    d = (d + (idx as u64 + 1) * (x % DIGEST_P)) % DIGEST_P;
                }
                json!(["ok", v.len(), d])
            }
            Err(e) => json!(["err", format!("{:?}", e.kind)]),
        }
    }
}

/// payload of record i of a "wide" case
fn wide_payload(i: u64, width: usize, mode: i64) -> String {
    if mode == 0 {
        let c = (b'a' + (i % 26) as u8) as char;
        std::iter::repeat_n(c, width).collect()
    } else {
        let mut x = SplitMix64::new(0xC19_0000 + i);
        let mut s = String::with_capacity(width);
        let mut w = 0u64;
        for j in 0..width {
            if j % 12 == 0 {
                w = x.next_u64();
            }
            s.push((b'a' + (w % 26) as u8) as char);
            w /= 26;
        }
        s
    }
}

fn run_wide(input: &Value) -> Value {
    let key = str_of(&input[0]);
    let n = input[1].as_u64().unwrap();
    let width = input[2].as_u64().unwrap() as usize;
    let mode = input[3].as_i64().unwrap();
    if mode == 2 {
        // records as structs (JSON objects), payload as in mode 0
        let recs: Vec<WideRec> = (0..n).map(|i| WideRec { id: i, value: wide_payload(i, width, 0) }).collect();
        let st = FakeObjectIO::new();
        let nw = match write_cloud_jsonl_vec(&st, BUCKET, &key, &recs) {
            Ok(k) => k,
            Err(e) => return json!(["err", format!("write:{:?}", e.kind)]),
        };
        let sig = signature_id(&st.get_object(BUCKET, &key).unwrap());
        let back: Vec<WideRec> = match read_cloud_jsonl_vec(&st, BUCKET, &key) {
            Ok(v) => v,
            Err(e) => return json!(["err", format!("read:{:?}", e.kind)]),
        };
        let sum: u64 = back.iter().map(|r| r.id).sum();
        let consecutive = back.iter().enumerate().all(|(i, r)| r.id == i as u64);
        let total: usize = back.iter().map(|r| r.value.chars().count()).sum();
        let firsts: u64 = back.iter().map(|r| r.value.chars().next().map_or(0, |c| c as u64)).sum();
        return json!(["ok", nw, back.len(), sum, consecutive, total, back == recs, firsts, sig]);
    }
    let recs: Vec<(u64, String)> = (0..n).map(|i| (i, wide_payload(i, width, mode))).collect();
    let st = FakeObjectIO::new();
    let nw = match write_cloud_jsonl_vec(&st, BUCKET, &key, &recs) {
        Ok(k) => k,
        Err(e) => return json!(["err", format!("write:{:?}", e.kind)]),
    };
    let sig = signature_id(&st.get_object(BUCKET, &key).unwrap());
    let back: Vec<(u64, String)> = match read_cloud_jsonl_vec(&st, BUCKET, &key) {
        Ok(v) => v,
        Err(e) => return json!(["err", format!("read:{:?}", e.kind)]),
    };
    let sum: u64 = back.iter().map(|r| r.0).sum();
    let consecutive = back.iter().enumerate().all(|(i, r)| r.0 == i as u64);
    let total: usize = back.iter().map(|r| r.1.chars().count()).sum();
    let firsts: u64 = back.iter().map(|r| r.1.chars().next().map_or(0, |c| c as u64)).sum();
    json!(["ok", nw, back.len(), sum, consecutive, total, back == recs, firsts, sig])
}

fn run(kind: &str, input: &Value) -> Value {
    match kind {
        "expand" => {
            let exists = input[0].as_bool().unwrap();
            let keys: Vec<String> = input[1].as_array().unwrap().iter().map(str_of).collect();
            let pattern = str_of(&input[2]);
            let st = Spy::new();
            if exists {
                // an existing, possibly empty bucket
                st.put_object(BUCKET, "tmp", b"").unwrap();
                st.delete_object(BUCKET, "tmp").unwrap();
            }
            let list = |v: Option<&Value>| -> Vec<String> {
                v.and_then(Value::as_array).map(|a| a.iter().map(str_of).collect()).unwrap_or_default()
            };
            let (empty_put, empty_written) = (list(input.get(3)), list(input.get(4)));
            for k in &keys {
                if empty_written.contains(k) {
                    write_cloud_jsonl_vec::<Value, _>(&st, BUCKET, k, &[]).unwrap();
                } else if empty_put.contains(k) {
                    st.put_object(BUCKET, k, b"").unwrap();
                } else {
                    st.put_object(BUCKET, k, b"x").unwrap();
                }
            }
            let o1 = keys_outcome(expand_cloud_glob(&st, BUCKET, &pattern), false);
            let seen = match st.seen.lock().unwrap().clone() {
                None => json!(["nocall"]),
                Some(None) => json!(["none"]),
                Some(Some(p)) => json!(["some", compress_str(&p)]),
            };
            let o2 = keys_outcome(expand_cloud_glob_required(&st, BUCKET, &pattern), false);
            json!([o1, o2, seen])
        }
        "sweep" => {
            let pattern = str_of(&input[0]);
            let alpha: Vec<char> = str_of(&input[1]).chars().collect();
            let maxlen = input[2].as_u64().unwrap() as usize;
            let st = Spy::new();
            for k in all_seqs(&alpha, maxlen) {
                st.put_object(BUCKET, &k, b"x").unwrap();
            }
            json!([keys_outcome(expand_cloud_glob(&st, BUCKET, &pattern), true)])
        }
        "roundtrip" => {
            let key = str_of(&input[0]);
            let recs: Vec<Value> = input[1].as_array().unwrap().clone();
            let st = FakeObjectIO::new();
            let n = match write_cloud_jsonl_vec(&st, BUCKET, &key, &recs) {
                Ok(n) => n,
                Err(e) => return json!(["err", format!("write:{:?}", e.kind)]),
            };
            let stored = match st.get_object(BUCKET, &key) {
                Ok(b) => b,
                Err(e) => return json!(["err", format!("get:{:?}", e.kind)]),
            };
            let back: Vec<Value> = match read_cloud_jsonl_vec(&st, BUCKET, &key) {
                Ok(v) => v,
                Err(e) => return json!(["err", format!("read:{:?}", e.kind)]),
            };
            // the uncompressed payload of the same records (same serde_json::to_writer calls)
            let st2 = FakeObjectIO::new();
            write_cloud_jsonl_vec(&st2, BUCKET, "plain", &recs).unwrap();
            let plain = String::from_utf8(st2.get_object(BUCKET, "plain").unwrap()).unwrap();
            json!(["ok", n, signature_id(&stored), back, plain])
        }
        "readglob" => {
            let st = Spy::new();
            for o in input[0].as_array().unwrap() {
                let key = str_of(&o[0]);
                let recs: Vec<Value> = o[1].as_array().unwrap().clone();
                if let Err(e) = write_cloud_jsonl_vec(&st, BUCKET, &key, &recs) {
                    return json!(["err", format!("write:{:?}", e.kind)]);
                }
            }
            let pattern = str_of(&input[1]);
            match read_cloud_jsonl_glob::<Value, _>(&st, BUCKET, &pattern) {
                Ok(v) => json!(["ok", v]),
                Err(e) => json!(["err", format!("{:?}", e.kind)]),
            }
        }
        "big" => {
            let key = str_of(&input[0]);
            let n = input[1].as_i64().unwrap();
            let recs: Vec<(i64, String)> = (0..n).map(|i| (i, "row".to_string())).collect();
            let st = FakeObjectIO::new();
            let nw = match write_cloud_jsonl_vec(&st, BUCKET, &key, &recs) {
                Ok(k) => k,
                Err(e) => return json!(["err", format!("write:{:?}", e.kind)]),
            };
            let sig = signature_id(&st.get_object(BUCKET, &key).unwrap());
            let back: Vec<(i64, String)> = match read_cloud_jsonl_vec(&st, BUCKET, &key) {
                Ok(v) => v,
                Err(e) => return json!(["err", format!("read:{:?}", e.kind)]),
            };
            let first = back.first().map_or(-1, |r| r.0);
            let last = back.last().map_or(-1, |r| r.0);
            let sum: i64 = back.iter().map(|r| r.0).sum();
            let consecutive = back.iter().enumerate().all(|(i, r)| r.0 == i as i64);
            let payload = back.iter().all(|r| r.1 == "row");
            json!(["ok", nw, back.len(), first, last, sum, consecutive, payload, sig])
        }
        "seq" => {
            let st = FakeObjectIO::new();
            for o in input[0].as_array().unwrap() {
                let key = str_of(&o[0]);
                let recs: Vec<Value> = o[1].as_array().unwrap().clone();
                if let Err(e) = write_cloud_jsonl_vec(&st, BUCKET, &key, &recs) {
                    return json!(["err", format!("write:{:?}", e.kind)]);
                }
            }
            let outs: Vec<Value> = input[1]
                .as_array()
                .unwrap()
                .iter()
                .map(|k| {
                    let key = str_of(k);
                    match read_cloud_jsonl_vec::<Value, _>(&st, BUCKET, &key) {
                        Ok(v) => {
                            let sig = signature_id(&st.get_object(BUCKET, &key).unwrap());
                            json!(["ok", sig, v])
                        }
                        Err(e) => json!(["err", format!("{:?}", e.kind)]),
                    }
                })
                .collect();
            Value::Array(outs)
        }
        "ops" => run_ops(input),
        "many" => run_many(input),
        "wide" => run_wide(input),
        _ => json!(["bad-kind"]),
    }
}

/// length of the bytes write_cloud_jsonl_vec stores for these records under this key
fn stored_len(key: &str, recs: &[Value]) -> usize {
    // (the generator must survive a broken writer: no panic here, the cases will tell)
    let st = FakeObjectIO::new();
    if write_cloud_jsonl_vec(&st, BUCKET, key, recs).is_err() {
        return usize::MAX;
    }
    st.get_object(BUCKET, key).map_or(usize::MAX, |b| b.len())
}

/// same shape and the same serialised width, different content: every digit / ASCII letter is
/// replaced by another digit / letter chosen by `salt`; true <-> null (both 4 bytes)
fn same_width_variant(v: &Value, salt: u64) -> Value {
    match v {
        Value::Number(n) => {
            let t: String = n
                .to_string()
                .chars()
                .enumerate()
                .map(|(i, c)| {
                    if c.is_ascii_digit() {
                        let d = c as u8 - b'0';
                        // keep the leading digit non-zero
                        let nd = 1 + (d + (salt as u8 % 8) + i as u8) % 9;
                        (b'0' + nd) as char
                    } else {
                        c
                    }
                })
                .collect();
            let z: i64 = t.parse().unwrap_or(1);
            json!(z)
        }
        Value::String(s) => Value::String(
            s.chars()
                .map(|c| {
                    if c.is_ascii_lowercase() {
                        (b'a' + (c as u8 - b'a' + 1 + (salt % 20) as u8) % 26) as char
                    } else if c.is_ascii_uppercase() {
                        (b'A' + (c as u8 - b'A' + 1 + (salt % 20) as u8) % 26) as char
                    } else if c.is_ascii_digit() {
                        (b'0' + (c as u8 - b'0' + 1 + (salt % 8) as u8) % 10) as char
                    } else {
                        c
                    }
                })
                .collect(),
        ),
        Value::Bool(true) => Value::Null,
        Value::Null => Value::Bool(true),
        Value::Array(a) => Value::Array(a.iter().map(|x| same_width_variant(x, salt)).collect()),
        other => other.clone(),
    }
}

/// a batch B != A with the same plain width whose STORED length under `key` equals A's
/// (compressed lengths may differ for some variants: try a few salts); None if none is found
fn same_stored_len_variant(key: &str, a: &[Value]) -> Option<Vec<Value>> {
    let la = stored_len(key, a);
    for salt in 0..40u64 {
        let b: Vec<Value> = a.iter().map(|x| same_width_variant(x, salt)).collect();
        if b != a && stored_len(key, &b) == la {
            return Some(b);
        }
    }
    None
}

// ------------------------------------------------------------------------------------------
// generation

fn has_special(p: &str) -> bool {
    p.chars().any(|c| "*?.+()|[]{}^$\\".contains(c))
}

/// honest per-case non-triviality, decided from the observed outcome
fn nontrivial(kind: &str, input: &Value, out: &Value) -> bool {
    match kind {
        "expand" | "sweep" => {
            let (pattern, total) = if kind == "expand" {
                (str_of(&input[2]), input[1].as_array().unwrap().len())
            } else {
                let a = str_of(&input[1]).chars().count();
                let m = input[2].as_u64().unwrap() as u32;
                (str_of(&input[0]), (0..=m).map(|l| a.pow(l)).sum())
            };
            let matched = out[0][1].as_array().map_or(0, Vec::len);
            out[0][0] == "ok" && has_special(&pattern) && matched > 0 && matched < total
        }
        "big" => input[1].as_i64().unwrap() > 1 && out[0] == "ok",
        "roundtrip" => !input[1].as_array().unwrap().is_empty() && out[0] == "ok",
        "seq" => {
            // some key is written at least twice and read back
            let ws = input[0].as_array().unwrap();
            let keys: Vec<String> = ws.iter().map(|o| str_of(&o[0])).collect();
            let reads: Vec<String> = input[1].as_array().unwrap().iter().map(str_of).collect();
            reads.iter().any(|k| keys.iter().filter(|x| *x == k).count() >= 2)
        }
        "ops" => {
            // at least two calls that change the store and one that observes it
            let ops = input[0].as_array().unwrap();
            let is_mut = |o: &Value| matches!(o[0].as_str(), Some("w" | "wo" | "raw" | "del" | "cp"));
            ops.iter().filter(|o| is_mut(o)).count() >= 2 && ops.iter().any(|o| !is_mut(o))
        }
        "readglob" => {
            input[0].as_array().unwrap().len() >= 2
                && out[0] == "ok"
                && !out[1].as_array().unwrap().is_empty()
        }
        _ => false,
    }
}

fn emit(em: &mut Emitter, kind: &str, input: Value, tags: &[&str]) {
    let out = run_caught(&run, kind, &input);
    let nt = nontrivial(kind, &input, &out);
    em.case(kind, input, nt, tags);
}

const SEGS: &[&str] = &[
    "a", "b", "ab", "a.b", "x+y", "logs", "2024-01", "f(1)", "[z]", "{q}", "a|b", "^s", "e$",
    "b\\c", "d-e", "#h", "", "a*", "q?", "data.jsonl", "data.jsonl.gz", ".gz", "é", "日本", "a b",
    "A", "~t", "&u", "x,y", "=v",
];
const ALPHA: &[char] = &[
    '/', '.', '*', '?', '+', '(', ')', '|', '[', ']', '{', '}', '^', '$', '\\', '-', '#', 'a', 'b',
    'c', 'A', '/', '*', '.', 'a',
];

fn gen_key(rng: &mut SplitMix64) -> String {
    let n = 1 + rng.below(4) as usize;
    let segs: Vec<&str> = (0..n).map(|_| *rng.pick(SEGS)).collect();
    segs.join("/")
}

fn gen_keys(rng: &mut SplitMix64) -> Vec<String> {
    let n = rng.below(11) as usize;
    let mut keys: Vec<String> = Vec::new();
    for _ in 0..n {
        let k = if !keys.is_empty() && rng.chance(1, 2) {
            // share a prefix (character-wise, not only whole segments) with an earlier key
            let base: Vec<char> = rng.pick(&keys).chars().collect();
            let cut = rng.below(base.len() as u64 + 1) as usize;
            let mut s: String = base[..cut].iter().collect();
            if rng.chance(1, 2) {
                s.push('/');
            }
            s.push_str(*rng.pick(SEGS));
            s
        } else if rng.chance(1, 8) {
            let l = rng.below(5) as usize;
            (0..l).map(|_| *rng.pick(ALPHA)).collect()
        } else {
            gen_key(rng)
        };
        if !keys.contains(&k) {
            keys.push(k);
        }
    }
    // near misses: a key with one regex meta character replaced by a letter or removed (what an
    // unescaped meta character in the translated pattern would wrongly accept)
    if !keys.is_empty() && rng.chance(1, 2) {
        let base: Vec<char> = rng.pick(&keys).chars().collect();
        let metas: Vec<usize> =
            (0..base.len()).filter(|&i| ".+()|[]{}^$\\".contains(base[i])).collect();
        if !metas.is_empty() {
            let i = *rng.pick(&metas);
            let mut v = base.clone();
            match rng.below(3) {
                0 => v[i] = 'x',
                1 => {
                    v.remove(i);
                }
                _ => {
                    if i > 0 {
                        v[i] = v[i - 1];
                    } else {
                        v[i] = 'x';
                    }
                }
            }
            let k: String = v.into_iter().collect();
            if !keys.contains(&k) {
                keys.push(k);
            }
        }
    }
    keys
}

/// a pattern that has a fair chance to match some of `keys`
fn gen_pattern(rng: &mut SplitMix64, keys: &[String]) -> String {
    if keys.is_empty() || rng.chance(1, 6) {
        let l = rng.below(6) as usize;
        return (0..l).map(|_| *rng.pick(ALPHA)).collect();
    }
    let base = rng.pick(keys).clone();
    let mut segs: Vec<String> = base.split('/').map(String::from).collect();
    let muts = 1 + rng.below(3);
    for _ in 0..muts {
        let i = rng.below(segs.len() as u64) as usize;
        match rng.below(9) {
            0 => segs[i] = "*".into(),
            1 => segs[i] = "**".into(),
            2 => {
                // keep a prefix of the segment, then `*`
                let cs: Vec<char> = segs[i].chars().collect();
                let cut = rng.below(cs.len() as u64 + 1) as usize;
                segs[i] = cs[..cut].iter().collect::<String>() + "*";
            }
            3 => {
                // `*` then a suffix of the segment
                let cs: Vec<char> = segs[i].chars().collect();
                let cut = rng.below(cs.len() as u64 + 1) as usize;
                segs[i] = String::from("*") + &cs[cut..].iter().collect::<String>();
            }
            4 => {
                // one character -> `?`
                let mut cs: Vec<char> = segs[i].chars().collect();
                if !cs.is_empty() {
                    let j = rng.below(cs.len() as u64) as usize;
                    cs[j] = '?';
                }
                segs[i] = cs.into_iter().collect();
            }
            5 => {
                // replace the tail of the path by `**`
                segs.truncate(i + 1);
                segs[i] = "**".into();
            }
            6 => segs[i] = "***".into(),
            7 => {
                // `**` glued into the middle of a segment
                let cs: Vec<char> = segs[i].chars().collect();
                let cut = rng.below(cs.len() as u64 + 1) as usize;
                segs[i] = cs[..cut].iter().collect::<String>()
                    + "**"
                    + &cs[cut..].iter().collect::<String>();
            }
            _ => {}
        }
    }
    let mut p = segs.join("/");
    match rng.below(10) {
        0 => p = String::from("*") + &p,
        1 => p = String::from("**") + &p,
        2 => p = String::from("?") + &p,
        3 => p = String::from("**/") + &p,
        4 => {
            // replace a '/' by `?` (may `?` stand for a separator?)
            if let Some(pos) = p.find('/') {
                p.replace_range(pos..=pos, "?");
            }
        }
        _ => {}
    }
    p
}

fn sval(v: &str) -> Value {
    Value::String(v.to_string())
}

fn record_pool() -> Vec<Value> {
    vec![
        json!(1),
        json!(-5),
        json!(0),
        json!(4611686018427387903i64),
        json!(null),
        json!(true),
        json!(false),
        json!("a"),
        json!(""),
        json!(" "),
        json!("line\nfeed"),
        json!("cr\r"),
        json!("\r\n"),
        json!("BZh91AY"),
        json!("\u{1f}\u{8b}"),
        json!("quote\" and \\ backslash"),
        json!("tab\tend"),
        json!("é日本\u{2028}x"),
        json!("\u{a0}"),
        json!([]),
        json!([1, 2, 3]),
        json!([[1, "x"], [null, [true]]]),
        json!(["BZh", 7]),
        json!([" ", "\n"]),
        json!("{not an object}"),
    ]
}

fn gen_records(rng: &mut SplitMix64, pool: &[Value], maxn: u64) -> Vec<Value> {
    let n = rng.below(maxn + 1) as usize;
    (0..n).map(|_| rng.pick(pool).clone()).collect()
}

const CODEC_KEYS: &[&str] = &[
    ".gz", ".GZ", "dir/.gz", "a.gz/b", "x.jsonl.zst", ".bz2", ".xz", "x.jsonl", "x.jsonl.gz",
    "x.jsonl.GZ", "x.jsonl.Gz", "x.gzip", "x.GZIP", "x.zst", "x.ZST", "x.zstd", "x.ZsTd", "x.bz2",
    "x.BZ2", "x.bzip2", "x.BZIP2", "x.xz", "x.XZ", "dir/.GZ", ".gzip", ".zst", ".zstd", ".bzip2",
    "gz", "xgz", "x.gz.txt", "x.gz.", "x.gz ", "x.g z", "x..gz", "x.xz.gz", "x.gz.xz", "a.zst/b.bz2",
    "", "/", ".", "x.tar.gz", "x.GZ.jsonl", "plain", "x.gzİp", "x.gzİ", "\u{212a}.gz", "x.\u{212a}z",
    "x.gz\n", "é.xz", "x.bz", "x.z", "x.bzip", "x.zs", "X.JSONL.BZ2", "*.gz", "?.zst",
];

fn generate(seed: u64, tier: Tier, em: &mut Emitter) {
    let thorough = tier == Tier::Thorough;

    // ---- 1. documented examples and boundary patterns on a fixed key set
    let keys = json!([
        "logs/a.jsonl", "logs/b.jsonl", "logs/sub/c.jsonl", "logs/a.jsonl.gz", "data/x.csv",
        "data/2024-01/e.jsonl", "data/2024-02/e.jsonl", "logs", "logs/", "a+b", "aab", "a.b", "axb"
    ]);
    for p in [
        "logs/*.jsonl", "logs/*", "logs/**", "**", "*", "", "?", "logs/?.jsonl", "***", "****",
        "*****", "a+b", "a.b", "a?b", "data/2024-*/e.jsonl", "data/**/e.jsonl", "**/e.jsonl",
        "**.jsonl", "*.jsonl", "logs", "logs/", "logs?", "logs/*/c.jsonl", "logs/**/c.jsonl",
        "l*s/a.jsonl", "*/*", "*/*/*", "?ogs/a.jsonl", "logs/a.jsonl*", "logs/a.jsonl**",
        "logs/a.jsonl?", "nomatch", "logs/*.jsonl.gz", "[a]", "a{1}", "(a)", "a|b", "^logs", "logs$",
        "\\", "a\\+b", "-", "#", "data/x.csv", "**x**", "*a*", "d?t?/x.csv", "data?x.csv",
    ] {
        emit(em, "expand", json!([true, keys, p]), &["doc"]);
    }
    // a meta character AFTER the first wildcard (the listing prefix does not mask a wrong
    // translation there), each with its near-miss keys
    let mkeys = json!([
        "a.b", "axb", "a+b", "aab", "ab", "a|b", "a", "b", "f(1)", "f1", "[z]", "z", "{q}", "q", "^s",
        "s", "e$", "e", "b\\c", "bc", "a-b", "a#b", "a b", "a/b", "a.b/c", "ab/c"
    ]);
    for p in [
        "*.b", "?.b", "**.b", "*+b", "?+b", "a*+b", "*|b", "?|b", "*(1)", "?(1)", "*1)", "*[z]", "?z]",
        "*{q}", "?q}", "*^s", "?s", "*$", "?$", "e*$", "*\\c", "?\\c", "*-b", "?#b", "* b", "?.b/c",
        "*.b/*", "*.?", "?.?", "*b", "?b", "a?b", "a*b", "a**b", "*.*", "*.*/*",
    ] {
        emit(em, "expand", json!([true, mkeys, p]), &["doc", "meta-after-wildcard"]);
    }
    emit(em, "expand", json!([false, [], "*"]), &["doc", "no-bucket"]);
    emit(em, "expand", json!([true, [], "*"]), &["doc", "empty-bucket"]);
    emit(em, "expand", json!([false, [], ""]), &["doc", "no-bucket"]);
    emit(em, "expand", json!([true, [], "plain"]), &["doc", "empty-bucket"]);

    // ---- 2. exhaustive: every single-character pattern against every single-character key
    //         over the whole 7-bit range without LF (validates the table of characters the
    //         regex crate treats as literal, raw or escaped)
    let ascii_no_nl: Vec<u32> = (0u32..128).filter(|&c| c != 10).collect();
    for pc in 0u32..128 {
        emit(em, "sweep", json!([[pc], ascii_no_nl, 1]), &["exhaustive", "single-char"]);
    }
    // a sample of non-ASCII pattern characters against keys with non-ASCII characters
    for pc in [0xe9u32, 0x2028, 0x65e5, 0x1f600, 0x85, 0x212a] {
        emit(
            em,
            "sweep",
            json!([[pc], [0xe9, 0x65e5, 0x1f600, 0x2028, 47, 97], 2]),
            &["exhaustive", "non-ascii"],
        );
    }
    for p in [vec![63u32], vec![42], vec![42, 42], vec![63, 63], vec![0xe9, 63], vec![63, 42]] {
        emit(
            em,
            "sweep",
            json!([p, [0xe9, 0x65e5, 0x1f600, 47, 97], 2]),
            &["exhaustive", "non-ascii"],
        );
    }
    // keys containing a line feed: `?` and `**` match it since the fix dae5143 (`(?s)` flag)
    for p in [vec![63u32], vec![42], vec![42, 42], vec![97], vec![10], vec![97, 63], vec![42, 42, 97]]
    {
        emit(em, "sweep", json!([p, [10, 47, 97], 2]), &["exhaustive", "line-feed"]);
    }

    // ---- 3. exhaustive: all patterns of length <= 2 (thorough: 3) over {a / . * ? + [}
    //         against all keys of length <= 3 (thorough: 4) over {a b / .}
    let pal: Vec<char> = "a/.*?+[".chars().collect();
    let kal = "ab/.";
    let (plen, klen) = if thorough { (3, 4) } else { (2, 3) };
    for p in all_seqs(&pal, plen) {
        emit(em, "sweep", json!([p, kal, klen]), &["exhaustive", "small-alphabet"]);
    }
    //         all patterns of length <= 2 over the meta-character alphabet against all keys of
    //         length <= 2 over the same alphabet (thorough only: 343 x 343)
    let meta: Vec<char> = "/.*?+()|[]{}^$\\-#a".chars().collect();
    let meta_s: String = meta.iter().collect();
    if thorough {
        for p in all_seqs(&meta, 2) {
            emit(em, "sweep", json!([p, meta_s, 2]), &["exhaustive", "meta-alphabet"]);
        }
    } else {
        // quick: the patterns of length 2 that start with a wildcard or a dot, plus all of length 1
        for p in all_seqs(&meta, 2) {
            let cs: Vec<char> = p.chars().collect();
            if cs.len() <= 1 || "*?.\\[".contains(cs[0]) {
                emit(em, "sweep", json!([p, meta_s, 2]), &["exhaustive", "meta-alphabet"]);
            }
        }
    }

    // ---- 4. seeded random key sets and patterns
    let mut rng = SplitMix64::new(seed ^ 0xC19);
    let n = if thorough { 12000 } else { 900 };
    for _ in 0..n {
        let keys = gen_keys(&mut rng);
        let p = gen_pattern(&mut rng, &keys);
        let exists = !keys.is_empty() || rng.chance(1, 2);
        let jk: Vec<Value> = keys.iter().map(|k| sval(k)).collect();
        if rng.chance(1, 2) {
            // some objects have a zero-length body (put directly / written with no record)
            let mut e: Vec<Value> = Vec::new();
            let mut w: Vec<Value> = Vec::new();
            for k in &keys {
                match rng.below(4) {
                    0 => e.push(sval(k)),
                    1 => w.push(sval(k)),
                    _ => {}
                }
            }
            emit(em, "expand", json!([exists, jk, p, e, w]), &["random", "zero-length"]);
        } else {
            emit(em, "expand", json!([exists, jk, p]), &["random"]);
        }
    }

    // ---- 5. JSONL round trip: keys x record vectors
    let pool = record_pool();
    for key in CODEC_KEYS {
        emit(em, "roundtrip", json!([key, []]), &["codec-keys", "empty"]);
        emit(em, "roundtrip", json!([key, [1]]), &["codec-keys"]);
        emit(em, "roundtrip", json!([key, pool]), &["codec-keys", "pool"]);
    }
    let nrt = if thorough { 3000 } else { 250 };
    for _ in 0..nrt {
        let key = match rng.below(4) {
            0 => rng.pick(CODEC_KEYS).to_string(),
            1 => {
                // random case variant of a stem + extension
                let ext = *rng.pick(&[".gz", ".gzip", ".zst", ".zstd", ".bz2", ".bzip2", ".xz", ".jsonl", ""]);
                let stem = gen_key(&mut rng);
                let s = format!("{stem}{ext}");
                s.chars()
                    .map(|c| if rng.chance(1, 2) { c.to_ascii_uppercase() } else { c })
                    .collect()
            }
            2 => {
                let l = rng.below(7) as usize;
                (0..l).map(|_| *rng.pick(&['.', 'g', 'z', 'G', 'Z', 'x', 's', 't', 'b', '2', '/', 'i', 'p'])).collect()
            }
            _ => gen_key(&mut rng),
        };
        let recs = gen_records(&mut rng, &pool, 6);
        emit(em, "roundtrip", json!([key, recs]), &["random"]);
    }

    // ---- 6. read_cloud_jsonl_glob over several objects
    emit(
        em,
        "readglob",
        json!([[["d/b.jsonl", [3, 4]], ["d/a.jsonl.gz", [1, 2]], ["d/c.txt", [9]], ["d/a.jsonl.gz", [5]]], "d/*.jsonl*"]),
        &["doc"],
    );
    emit(em, "readglob", json!([[], "*"]), &["doc", "no-bucket"]);
    let nrg = if thorough { 4000 } else { 350 };
    for _ in 0..nrg {
        let mut keys = gen_keys(&mut rng);
        keys.truncate(6);
        let exts = [".gz", ".GZ", ".zst", ".bz2", ".xz", ".jsonl", "", ""];
        let mut objs: Vec<Value> = Vec::new();
        for k in &keys {
            let key = format!("{k}{}", rng.pick(&exts));
            objs.push(json!([key, gen_records(&mut rng, &pool, 3)]));
        }
        if !objs.is_empty() && rng.chance(1, 5) {
            // overwrite an existing key
            let k = rng.pick(&objs)[0].clone();
            objs.push(json!([k, gen_records(&mut rng, &pool, 3)]));
        }
        let names: Vec<String> = objs.iter().map(|o| str_of(&o[0])).collect();
        let p = gen_pattern(&mut rng, &names);
        emit(em, "readglob", json!([objs, p]), &["random"]);
    }

    // ---- 6b. zero-length objects: expansion is by KEY, an empty object is listed like any other
    let zkeys = json!(["d/a.jsonl", "d/b.jsonl", "d/c.jsonl.gz", "d/sub/", "d/e", "x"]);
    for (e, w) in [
        (json!([]), json!(["d/a.jsonl"])),
        (json!(["d/a.jsonl"]), json!([])),
        (json!(["d/sub/", "d/e"]), json!(["d/a.jsonl", "d/c.jsonl.gz"])),
        (json!(["d/a.jsonl", "d/b.jsonl", "d/c.jsonl.gz", "d/sub/", "d/e", "x"]), json!([])),
        (json!([]), json!(["d/a.jsonl", "d/b.jsonl", "d/c.jsonl.gz", "d/sub/", "d/e", "x"])),
    ] {
        for p in ["d/*.jsonl", "d/a.jsonl", "d/a*", "d/**", "**", "d/sub/", "d/sub/*", "x", "?", "d/e", "nomatch"] {
            emit(em, "expand", json!([true, zkeys, p, e, w]), &["doc", "zero-length"]);
        }
    }
    // the only match is an empty object: expand_cloud_glob_required must succeed
    emit(em, "expand", json!([true, ["only"], "onl?", [], ["only"]]), &["doc", "zero-length", "only-match-empty"]);
    emit(em, "expand", json!([true, ["only"], "only", ["only"], []]), &["doc", "zero-length", "only-match-empty"]);
    emit(em, "expand", json!([true, ["only", "other"], "on*", [], ["only"]]), &["doc", "zero-length", "only-match-empty"]);
    for p in ["d/*", "**", "d/a", "d/?"] {
        emit(
            em,
            "readglob",
            json!([[["d/a", []], ["d/b", [1, 2]], ["d/c", []], ["d/d.gz", []], ["d/e", [3]], ["f", []]], p]),
            &["doc", "zero-length"],
        );
        emit(em, "readglob", json!([[["d/a", []], ["d/c", []]], p]), &["doc", "zero-length", "all-empty"]);
    }

    // ---- 6c. big round trips: more records than any internal batching boundary
    let big_keys: Vec<&str> = if thorough {
        vec![
            "big", "big.jsonl", "big.gz", "big.GZ", "big.gzip", "big.GzIp", "big.zst", "big.ZST", "big.zstd",
            "big.bz2", "big.BZ2", "big.bzip2", "big.xz", "big.XZ", ".gz", "d/.gzip",
        ]
    } else {
        vec!["big", "big.gz", "big.GZ", "big.gzip", "big.zst", "big.zstd", "big.bz2", "big.bzip2", "big.xz"]
    };
    let big_ns: Vec<i64> = if thorough {
        vec![0, 1, 100, 4095, 4096, 4097, 8191, 8192, 8193, 16383, 16384, 16385, 20000, 32769, 65537, 100000]
    } else {
        vec![8191, 8192, 8193, 20000]
    };
    for key in &big_keys {
        for &n in &big_ns {
            emit(em, "big", json!([key, n]), &["big"]);
        }
    }

    // ---- 7. overwrite sequences: the object read back is the LAST one written
    let batches: Vec<Vec<Value>> = vec![
        vec![json!(1)],
        vec![json!(12), json!("ab"), json!([3, "cd", true])],
        vec![json!(7), json!(8), json!(9), json!("xyz"), json!(null), json!([10, 20])],
        (0..40).map(|i| json!([100 + i, "row", i % 2 == 0])).collect(),
    ];
    let ow_keys: &[&str] = &[
        "k", "k.jsonl", "k.gz", "k.GZ", "k.gzip", "k.GzIp", "k.zst", "k.ZST", "k.zstd", "k.bz2", "k.BZ2",
        "k.bzip2", "k.xz", "k.XZ", ".gz", "dir/.zst", "a.gz/b", "d/k.jsonl.gz",
    ];
    for key in ow_keys {
        for a in &batches {
            // (i) B of the same stored length as A
            match same_stored_len_variant(key, a) {
                Some(b) => emit(em, "seq", json!([[[key, a], [key, b]], [key]]), &["overwrite", "same-length"]),
                None => {
                    let b: Vec<Value> = a.iter().map(|x| same_width_variant(x, 1)).collect();
                    emit(em, "seq", json!([[[key, a], [key, b]], [key]]), &["overwrite", "same-width"]);
                }
            }
            // (ii) shorter, longer, empty after non-empty, non-empty after empty
            let shorter: Vec<Value> = a[..a.len() / 2].to_vec();
            let mut longer = a.clone();
            longer.extend(a.iter().map(|x| same_width_variant(x, 3)));
            emit(em, "seq", json!([[[key, a], [key, shorter]], [key]]), &["overwrite", "shorter"]);
            emit(em, "seq", json!([[[key, a], [key, longer]], [key]]), &["overwrite", "longer"]);
            emit(em, "seq", json!([[[key, a], [key, []]], [key]]), &["overwrite", "empty-after"]);
            emit(em, "seq", json!([[[key, []], [key, a]], [key]]), &["overwrite", "empty-before"]);
        }
        // (iii) three writes A, B, A' and a write to another key in between; read both and a
        //       key never written
        let a = &batches[1];
        let b = same_stored_len_variant(key, a)
            .unwrap_or_else(|| a.iter().map(|x| same_width_variant(x, 1)).collect());
        let c: Vec<Value> = b.iter().map(|x| same_width_variant(x, 5)).collect();
        let k2 = format!("other-{}", key.replace('/', "_"));
        emit(
            em,
            "seq",
            json!([[[key, a], [k2, a], [key, b], [k2, c], [key, c]], [key, k2, "never-written"]]),
            &["overwrite", "interleaved"],
        );
        // (iv) glob read after a same-length overwrite
        emit(
            em,
            "readglob",
            json!([[[key, a], [k2, a], [key, b]], "**"]),
            &["overwrite", "same-length", "glob"],
        );
    }
    // seeded random sequences over a few keys
    let nseq = if thorough { 3000 } else { 250 };
    let exts = ["", ".jsonl", ".gz", ".GZ", ".zst", ".bz2", ".xz", ".gzip"];
    for _ in 0..nseq {
        let nk = 1 + rng.below(3) as usize;
        let keys: Vec<String> =
            (0..nk).map(|i| format!("{}{}{}", rng.pick(&["k", "d/k", ""]), i, rng.pick(&exts))).collect();
        let nw = 2 + rng.below(5) as usize;
        let mut last: Vec<Option<Vec<Value>>> = vec![None; nk];
        let mut writes: Vec<Value> = Vec::new();
        for _ in 0..nw {
            let i = rng.below(nk as u64) as usize;
            let recs = match (&last[i], rng.below(3)) {
                (Some(prev), 0) => same_stored_len_variant(&keys[i], prev)
                    .unwrap_or_else(|| gen_records(&mut rng, &pool, 4)),
                (Some(prev), 1) => prev.iter().map(|x| same_width_variant(x, rng.below(30))).collect(),
                _ => gen_records(&mut rng, &pool, 4),
            };
            writes.push(json!([keys[i], recs]));
            last[i] = Some(recs);
        }
        let mut reads: Vec<Value> = keys.iter().map(|k| sval(k)).collect();
        if rng.chance(1, 4) {
            reads.push(sval("never-written"));
        }
        if rng.chance(1, 2) {
            emit(em, "seq", json!([writes, reads]), &["overwrite", "random"]);
        } else {
            emit(em, "readglob", json!([writes, rng.pick(&["**", "*", "k*", "d/*", "?0*"])]), &["overwrite", "random", "glob"]);
        }
    }
    generate_more(seed, tier, em);
}


fn emit_nt(em: &mut Emitter, kind: &str, input: Value, nt: bool, tags: &[&str]) {
    em.case(kind, input, nt, tags);
}

/// string spec: the concatenation of `count` copies of each piece
fn spec(parts: &[(&str, usize)]) -> Value {
    Value::Array(parts.iter().map(|(u, c)| json!([u, c])).collect())
}

const OPS_BUCKETS: &[&str] = &["b", "b2", "a", "a/b", "", "B", "b\u{fc}", "logs", "a b"];
const OPS_KEYS: &[&str] = &[
    "k", "k.gz", "k.zst", "k.bz2", "k.xz", "K.GZ", "b/c", "c", "d/k.jsonl", "d/k.jsonl.gz", "d/.gz", "",
    "/", "a b", "\u{e9}.zst", "x+y", "k.gz.bak", "_SUCCESS", ".hidden", "d/_part", "d//e", "d/e/", "*", "k?",
];
const OPS_PATTERNS: &[&str] = &["**", "*", "k*", "d/*", "d/**", "?", "k.*", "*.gz", "**.gz", "b/c", "c", "k", "", "d//*", "**/*", "k?"];
const PADS: &[&str] = &["", " ", "  ", "\t", " \t ", "\r"];
const BLANKS: &[&str] = &[
    "", " ", "\t", "   ", "\r", " \r", "\u{b}", "\u{c}", "\u{a0}", "\u{85}", "\u{1680}", "\u{2000}", "\u{2003}",
    "\u{200a}", "\u{2028}", "\u{2029}", "\u{202f}", "\u{205f}", "\u{3000}", " \u{a0}\t\u{3000}",
];
/// not JSON (and not blank): reading an object with such a line fails
const JUNK: &[&str] = &[
    "{oops", "1 2", "[1,", "nul", "\u{b}1", "\u{a0}7", "\u{200b}", "\u{feff}", "\u{180e}", "\u{2060}", "x", "'a'",
    "\u{c2}", "1\u{3000}",
];

fn gen_raw_items(rng: &mut SplitMix64, pool: &[Value], allow_junk: bool) -> Vec<Value> {
    let n = rng.below(6) as usize;
    let mut items: Vec<Value> = Vec::new();
    for i in 0..n {
        let last = i + 1 == n;
        let eol = if last && rng.chance(1, 2) { 0 } else { 1 + rng.below(2) };
        let it = match rng.below(10) {
            0..=5 => json!(["rec", rng.pick(PADS), rng.pick(pool).clone(), rng.pick(PADS), eol]),
            6..=8 => json!(["ws", rng.pick(BLANKS), eol]),
            _ => {
                if allow_junk && rng.chance(1, 3) {
                    json!(["junk", rng.pick(JUNK), eol])
                } else {
                    json!(["ws", rng.pick(BLANKS), eol])
                }
            }
        };
        items.push(it);
    }
    items
}

fn gen_ops(rng: &mut SplitMix64, pool: &[Value]) -> Vec<Value> {
    let nb = 1 + rng.below(3) as usize;
    let mut buckets: Vec<&str> = Vec::new();
    if rng.chance(1, 4) {
        // a pair a flattened "bucket/key" map would confuse
        buckets.push("a");
        buckets.push("a/b");
    }
    while buckets.len() < nb {
        let b = *rng.pick(OPS_BUCKETS);
        if !buckets.contains(&b) {
            buckets.push(b);
        }
    }
    let nk = 2 + rng.below(4) as usize;
    let mut keys: Vec<String> = Vec::new();
    while keys.len() < nk {
        let k = if rng.chance(3, 4) { rng.pick(OPS_KEYS).to_string() } else { gen_key(rng) };
        if !keys.contains(&k) {
            keys.push(k);
        }
    }
    let mut ops: Vec<Value> = Vec::new();
    let nops = 3 + rng.below(10) as usize;
    for _ in 0..nops {
        let b = *rng.pick(&buckets);
        let k = rng.pick(&keys).clone();
        let o = match rng.below(100) {
            0..=22 => json!(["w", b, k, gen_records(rng, pool, 4)]),
            23..=34 => json!(["wo", b, k, gen_records(rng, pool, 4)]),
            35..=44 => json!(["raw", b, k, rng.below(5), gen_raw_items(rng, pool, true)]),
            45..=56 => json!(["del", b, k]),
            57..=64 => json!(["cp", b, k, *rng.pick(&buckets), rng.pick(&keys).clone()]),
            65..=76 => json!(["r", b, k]),
            77..=86 => json!(["x", b, *rng.pick(OPS_PATTERNS)]),
            87..=95 => json!(["g", b, *rng.pick(OPS_PATTERNS)]),
            _ => json!(["ex", b, k]),
        };
        ops.push(o);
    }
    // final inspection of everything
    for b in &buckets {
        for k in &keys {
            ops.push(json!(["r", b, k]));
        }
        ops.push(json!(["x", b, "**"]));
        ops.push(json!(["g", b, *rng.pick(OPS_PATTERNS)]));
    }
    ops
}

fn generate_more(seed: u64, tier: Tier, em: &mut Emitter) {
    let thorough = tier == Tier::Thorough;
    let pool = record_pool();
    let mut rng = SplitMix64::new(seed ^ 0xC19_0002);

    // ---- 8. adjacent / repeated wildcards: every pattern of length <= 3 over {* ? a /} and every
    //         pattern of length 4 (thorough 5) with at least two wildcards, against all keys of
    //         length <= 5 over {a /}
    let wal: Vec<char> = "*?a/".chars().collect();
    for p in all_seqs(&wal, if thorough { 5 } else { 4 }) {
        let nw = p.chars().filter(|c| "*?".contains(*c)).count();
        if p.chars().count() <= 3 || nw >= 2 {
            emit(em, "sweep", json!([p, "a/", 5]), &["exhaustive", "adjacent-wildcards"]);
        }
    }
    for p in ["******", "*******", "**?**", "*?*?*", "?*?*?", "**/**", "**/**/**", "*/**/*", "??????", "*?**?*", "a**/**a", "/**/", "//", "*//*", "**//**"] {
        emit(em, "sweep", json!([p, "a/", 5]), &["exhaustive", "adjacent-wildcards"]);
    }

    // ---- 9. very long keys and patterns (strings given as [piece, count] lists)
    let lens: Vec<usize> = if thorough {
        vec![63, 64, 65, 127, 128, 129, 255, 256, 257, 511, 512, 513, 1023, 1024, 1025, 2048, 4096]
    } else {
        vec![255, 256, 257, 1023, 1024, 1025]
    };
    for &l in &lens {
        let keys = json!([
            spec(&[("a", l)]),
            spec(&[("a", l - 1)]),
            spec(&[("a", l), (".gz", 1)]),
            spec(&[("ab/", l / 3), ("x", 1)]),
            spec(&[("\u{e9}", l)]),
            spec(&[("a", l), ("/", 1), ("b", l)]),
            "a",
        ]);
        for p in [
            spec(&[("a", l)]),
            spec(&[("a", l - 1), ("?", 1)]),
            spec(&[("a", l - 1), ("*", 1)]),
            spec(&[("a", l / 2), ("*", 1), ("a", 1)]),
            spec(&[("a", l), (".gz", 1)]),
            spec(&[("a", l), ("*", 1)]),
            spec(&[("a", l), ("**", 1)]),
            spec(&[("ab/", l / 3), ("?", 1)]),
            spec(&[("**x", 1)]),
            spec(&[("\u{e9}", l - 1), ("?", 1)]),
            spec(&[("?", l)]),
            spec(&[("a", l), ("/", 1), ("*", 1)]),
            spec(&[("*", 1), ("/", 1), ("b", l)]),
        ] {
            emit(em, "expand", json!([true, keys, p]), &["long-keys"]);
        }
        for ext in ["", ".gz", ".ZST", ".bz2", ".xz", "/"] {
            emit(em, "roundtrip", json!([spec(&[("a", l), (ext, 1)]), [1, "x", [l]]]), &["long-keys"]);
            emit(em, "roundtrip", json!([spec(&[("d/", l / 2), ("k", 1), (ext, 1)]), []]), &["long-keys", "empty"]);
        }
    }
    // a literal key of 65536 characters; 8192 single-character wildcards (Regex::new accepts them)
    for l in [16384usize, 65536] {
        let keys = json!([spec(&[("a", l)]), spec(&[("a", l - 1)]), "a"]);
        emit(em, "expand", json!([true, keys, spec(&[("a", l)])]), &["long-keys", "huge"]);
        emit(em, "expand", json!([true, keys, spec(&[("a", l - 2), ("?", 1)])]), &["long-keys", "huge"]);
        emit(em, "roundtrip", json!([spec(&[("a", l), (".gz", 1)]), [1, 2]]), &["long-keys", "huge"]);
    }
    emit(em, "expand", json!([true, [spec(&[("a", 8192)]), "a"], spec(&[("?", 8192)])]), &["long-keys", "many-wildcards"]);
    // (the model's matcher evaluates both sides of `&&` / `||`, so patterns with many `*` are kept short)
    emit(em, "expand", json!([true, [spec(&[("a", 12)]), spec(&[("a", 11)]), "b"], spec(&[("*a", 12)])]), &["long-keys", "many-wildcards"]);
    emit(em, "expand", json!([true, [spec(&[("a", 10)]), spec(&[("a/", 5)]), "b"], spec(&[("**a", 5), ("*/", 5)])]), &["long-keys", "many-wildcards"]);

    // ---- 10. call sequences on one store with several buckets
    let a = json!([12, "ab", [3, "cd", true]]);
    let b2 = json!([34, "cd"]);
    let long: Value = Value::Array((0..40).map(|i| json!([100 + i, "row"])).collect());
    for key in ["k", "k.gz", "k.zst", "k.bz2", "k.xz", "d/k.jsonl.GZ", ".gz", ""] {
        // delete + rewrite; the bucket stays after its last object is deleted
        emit(
            em,
            "ops",
            json!([[
                ["w", "b", key, long], ["r", "b", key], ["del", "b", key], ["r", "b", key], ["ex", "b", key],
                ["x", "b", "**"], ["g", "b", "**"], ["w", "b", key, b2], ["r", "b", key], ["x", "b", "**"],
                ["g", "b", "*"], ["del", "b", key], ["del", "b", key], ["w", "b", key, a], ["w", "b", key, []],
                ["r", "b", key], ["g", "b", "**"], ["ex", "b", key]
            ]]),
            &["ops", "delete-rewrite"],
        );
        // the same key in several buckets
        emit(
            em,
            "ops",
            json!([[
                ["w", "b", key, a], ["w", "b2", key, b2], ["w", "", key, long], ["r", "b", key], ["r", "b2", key],
                ["r", "", key], ["r", "b3", key], ["x", "b", "**"], ["x", "b2", "**"], ["x", "b3", "**"],
                ["g", "b", "**"], ["g", "b2", "**"], ["g", "", "**"], ["del", "b", key], ["r", "b", key],
                ["r", "b2", key], ["x", "b", "*"], ["x", "b2", "*"], ["del", "b3", key], ["x", "b3", "*"],
                ["w", "b", key, b2], ["g", "b", "**"], ["g", "b2", "**"]
            ]]),
            &["ops", "several-buckets"],
        );
        // copies: same codec class, neutral destination (signature fallback), wrong class, other bucket
        for dst in ["c", "c.gz", "c.zst", "c.bz2", "c.xz", "c.jsonl", key] {
            emit(
                em,
                "ops",
                json!([[
                    ["w", "b", key, a], ["cp", "b", key, "b", dst], ["r", "b", dst], ["cp", "b", key, "o", dst],
                    ["r", "o", dst], ["r", "b", key], ["x", "b", "**"], ["x", "o", "**"], ["cp", "b", "missing", "b", "z"],
                    ["cp", "nobucket", key, "b", "z"], ["ex", "b", "z"], ["x", "nobucket", "*"], ["g", "o", "**"]
                ]]),
                &["ops", "copy"],
            );
        }
    }
    // bucket / key pairs that a flattened "bucket/key" map would confuse
    emit(
        em,
        "ops",
        json!([[
            ["w", "a", "b/c", [1]], ["w", "a/b", "c", [2]], ["r", "a", "b/c"], ["r", "a/b", "c"], ["x", "a", "**"],
            ["x", "a/b", "**"], ["del", "a", "b/c"], ["r", "a/b", "c"], ["x", "a", "**"], ["x", "a/b", "**"],
            ["w", "", "a/b/c", [3]], ["r", "", "a/b/c"], ["r", "a", "b/c"], ["g", "a/b", "*"], ["g", "", "**"]
        ]]),
        &["ops", "several-buckets", "flatten"],
    );
    // repeated calls with alternating patterns (a cached matcher must be keyed by the pattern)
    emit(
        em,
        "ops",
        json!([[
            ["w", "b", "d/a.jsonl", [1]], ["w", "b", "d/b.jsonl.gz", [2, 3]], ["w", "b", "e/c.jsonl", [4]],
            ["x", "b", "d/*"], ["x", "b", "e/*"], ["x", "b", "d/*"], ["g", "b", "d/*"], ["g", "b", "e/*"],
            ["g", "b", "d/*"], ["w", "b", "d/c.jsonl", [5]], ["x", "b", "d/*"], ["g", "b", "d/*"],
            ["del", "b", "d/a.jsonl"], ["x", "b", "d/*"], ["g", "b", "d/*"], ["x", "b2", "d/*"], ["x", "b", "d/?.jsonl"],
            ["x", "b", "d/?.jsonl*"], ["x", "b", "d/*"], ["r", "b", "d/b.jsonl.gz"], ["r", "b", "d/b.jsonl.gz"]
        ]]),
        &["ops", "repeated-calls"],
    );
    // marker-like and odd keys read by glob
    emit(
        em,
        "ops",
        json!([[
            ["w", "b", "d/_SUCCESS", [1]], ["w", "b", "d/.part.crc", [2]], ["w", "b", "d//e", [3]], ["w", "b", "d/e/", [4]],
            ["w", "b", "/d", [5]], ["w", "b", "", [6]], ["w", "b", "d/ x", [7]], ["w", "b", "d/\u{e9}", [8]],
            ["g", "b", "d/*"], ["g", "b", "**"], ["x", "b", "d//*"], ["x", "b", "d/*/"], ["x", "b", "/*"], ["x", "b", ""],
            ["g", "b", ""], ["x", "b", "d/ *"], ["x", "b", "d/?"], ["del", "b", ""], ["x", "b", "**"]
        ]]),
        &["ops", "odd-keys"],
    );
    // loose JSONL texts: every codec x {matching key, neutral key, key of another codec}
    let exts = ["", ".gz", ".zst", ".bz2", ".xz"];
    let loose: Vec<Vec<Value>> = vec![
        vec![],
        vec![json!(["rec", "", 1, "", 0])],
        vec![json!(["rec", "", 1, "", 1]), json!(["rec", "", [2, "x"], "", 0])],
        vec![json!(["rec", "", 1, "", 2]), json!(["rec", " ", "a b", "\t", 2]), json!(["rec", "", null, "", 2])],
        vec![json!(["ws", "", 1]), json!(["rec", "", 1, "", 1]), json!(["ws", "", 1]), json!(["ws", "  ", 1]), json!(["rec", "", 2, "", 1]), json!(["ws", "", 1])],
        vec![json!(["ws", "", 2]), json!(["ws", "\t", 2]), json!(["rec", "  ", [1], " ", 2]), json!(["ws", " ", 0])],
        vec![json!(["ws", "\u{a0}", 1]), json!(["rec", "", 1, "", 1]), json!(["ws", "\u{3000}\u{2003}", 1]), json!(["ws", "\u{85}", 2]), json!(["rec", "", 2, "", 0])],
        vec![json!(["ws", "", 1]), json!(["ws", "", 1]), json!(["ws", "", 0])],
        vec![json!(["rec", "", 1, "", 1]), json!(["junk", "{oops", 1]), json!(["rec", "", 2, "", 1])],
        vec![json!(["rec", "", 1, "", 1]), json!(["junk", "\u{200b}", 1])],
        vec![json!(["rec", "\r", "cr", "\r", 2]), json!(["rec", "", "x", "\r\r", 1])],
    ];
    for (ci, _) in exts.iter().enumerate() {
        for kext in exts {
            for items in &loose {
                let key = format!("t{kext}");
                emit(
                    em,
                    "ops",
                    json!([[["raw", "b", key, ci, items], ["r", "b", key], ["g", "b", "*"], ["x", "b", "t*"]]]),
                    &["ops", "loose-text"],
                );
            }
        }
    }
    for b in BLANKS {
        emit(
            em,
            "ops",
            json!([[["raw", "b", "t", 0, [["rec", "", 1, "", 1], ["ws", b, 1], ["rec", "", 2, "", 1], ["ws", b, 0]]], ["r", "b", "t"]]]),
            &["ops", "loose-text", "blank-line"],
        );
    }
    for j in JUNK {
        emit(
            em,
            "ops",
            json!([[["raw", "b", "t", 0, [["rec", "", 1, "", 1], ["junk", j, 1]]], ["r", "b", "t"], ["w", "b", "u", [5]], ["g", "b", "*"], ["g", "b", "u"]]]),
            &["ops", "loose-text", "junk-line"],
        );
    }
    // ---- 11. many objects in one bucket (listing page sizes: 1000 on the large providers); these
    //          cases are costly to judge, so they are emitted interleaved with the random call
    //          sequences below (check.py cuts the case stream into consecutive shards)
    let mut heavy: Vec<(&str, Value, bool, Vec<&str>)> = Vec::new();
    let many_ns: Vec<u64> = if thorough {
        vec![0, 1, 999, 1000, 1001, 1023, 1024, 1025, 2000, 2001, 4095, 4096, 4097, 9999, 10000, 10001, 32768, 65536]
    } else {
        vec![999, 1000, 1001, 1024, 2001, 4097, 10001]
    };
    for &n in &many_ns {
        for (style, pats) in [
            (0i64, vec!["part-*", "**", "part-1*", "part-?", "part-??9"]),
            (1, vec!["d3/*", "**/part-*9.jsonl", "d?/part-0*"]),
            (2, vec!["*", "1*", "??"]),
        ] {
            for p in pats {
                heavy.push(("many", json!([0, style, n, p]), n > 1, vec!["many-objects", "expand"]));
            }
        }
    }
    if !thorough {
        heavy.push(("many", json!([0, 0, 65536, "part-6553*"]), true, vec!["many-objects", "expand"]));
        heavy.push(("many", json!([0, 1, 65536, "d6/part-6*"]), true, vec!["many-objects", "expand"]));
        heavy.push(("many", json!([0, 2, 20000, "**"]), true, vec!["many-objects", "expand"]));
    }
    let read_ns: Vec<u64> = if thorough { vec![1, 2, 999, 1000, 1001, 1024, 1025, 2048, 2049, 3000] } else { vec![999, 1000, 1001, 1025] };
    for &n in &read_ns {
        for (style, p) in [(3i64, "**"), (3, "k*.gz"), (3, "k1*"), (0, "part-*"), (1, "d0/*")] {
            heavy.push(("many", json!([1, style, n, p]), n > 1, vec!["many-objects", "read"]));
        }
    }

    heavy.reverse();
    let nops = if thorough { 6000 } else { 350 };
    for i in 0..nops {
        let ops = gen_ops(&mut rng, &pool);
        emit(em, "ops", json!([ops]), &["ops", "random"]);
        if i % 3 == 0 {
            if let Some((kind, input, nt, tags)) = heavy.pop() {
                emit_nt(em, kind, input, nt, &tags);
            }
        }
    }
    while let Some((kind, input, nt, tags)) = heavy.pop() {
        emit_nt(em, kind, input, nt, &tags);
    }

    // ---- 12. wide payloads: > 1 MiB decoded per object, long single lines, for every codec
    let wide_keys: Vec<&str> = if thorough {
        vec!["w", "w.jsonl", "w.gz", "w.GZIP", "w.zst", "w.zstd", "w.bz2", "w.bzip2", "w.xz", ".xz"]
    } else {
        vec!["w", "w.gz", "w.zst", "w.bz2", "w.xz"]
    };
    let shapes: Vec<(u64, u64)> = if thorough {
        vec![(1, 1 << 21), (1, 1 << 22), (3, 1 << 20), (5, (1 << 20) + 1), (64, 1 << 15), (1024, 1 << 11), (40, 70000), (70000, 40), (300, 10000), (17, 1 << 20), (1, (1 << 24) + 1), (65, 1 << 20)]
    } else {
        vec![(1, 1 << 21), (3, 1 << 20), (64, 1 << 15), (1024, 1 << 11), (40, 70000), (9, 1 << 20), (17, 1 << 20), (1, (1 << 24) + 1)]
    };
    for key in &wide_keys {
        for &(n, w) in &shapes {
            emit_nt(em, "wide", json!([key, n, w, 0]), true, &["wide", "compressible"]);
        }
        emit_nt(em, "wide", json!([key, 5, 300_000, 2]), true, &["wide", "structs"]);
        emit_nt(em, "wide", json!([key, 3000, 33, 2]), true, &["wide", "structs"]);
        emit_nt(em, "wide", json!([key, 5, 300_000, 1]), true, &["wide", "random-letters"]);
        emit_nt(em, "wide", json!([key, 2000, 700, 1]), true, &["wide", "random-letters"]);
    }
    // one long line across every power of two
    for k in 4..=20u32 {
        for d in [-1i64, 0, 1] {
            let w = ((1i64 << k) + d) as u64;
            for key in ["w", "w.gz"] {
                if thorough || k >= 10 || key == "w" {
                    emit_nt(em, "wide", json!([key, 2, w, 0]), true, &["wide", "line-length"]);
                }
            }
            if thorough {
                for key in ["w.zst", "w.bz2", "w.xz"] {
                    emit_nt(em, "wide", json!([key, 2, w, (k % 2) as i64]), true, &["wide", "line-length"]);
                }
            }
        }
    }
    emit_nt(em, "wide", json!(["w", 0, 10, 0]), false, &["wide", "empty"]);
    emit_nt(em, "wide", json!(["w.gz", 3, 0, 0]), true, &["wide", "empty-strings"]);

    // ---- 13. record counts around every power of two
    let pow_keys = ["n", "n.gz", "n.zst", "n.bz2", "n.xz"];
    for k in 4..=16u32 {
        for d in [-1i64, 0, 1] {
            let n = (1i64 << k) + d;
            for key in pow_keys {
                if thorough || k <= 12 || key == "n" || key == "n.gz" || d == 1 {
                    emit_nt(em, "big", json!([key, n]), true, &["big", "powers-of-two"]);
                }
            }
        }
    }
}

fn main() {
    drive(&generate, &run);
}
