//! C18: cloud operation helpers under every sequence of failures.
//! Runs the REAL ironbeam::io::cloud::utils / ironbeam::helpers::cloud functions with scripted
//! closures that record every call.
//!
//! Symbols of an outcome script: 0 = Ok, 1..=4 the transient kinds (Network, Timeout,
//! ServiceUnavailable, RateLimited), 5..=11 the permanent kinds (Authentication, Authorization,
//! NotFound, AlreadyExists, InvalidInput, InternalError, Other).  Call number i (0-based, counted
//! over the whole case) returns `script[i]`, beyond the end the last symbol again (Ok for the
//! empty script).  Ok carries the call number, an error the message "e<call number>", so the
//! observed result tells WHICH attempt produced it.
use ibv::{Emitter, SplitMix64, Tier, drive};
use ironbeam::helpers::cloud::{
    BatchConfig, CloudIOExecutor, OperationBuilder, OperationContext, run_batch_operation,
    run_cloud_io_batch, run_with_context,
    run_cloud_io_paginated, run_cloud_io_with_retry, run_cloud_io_with_retry_and_timeout,
    run_paginated_operation, run_parallel, run_with_retry, run_with_timeout_and_retry,
};
use ironbeam::io::cloud::traits::{CloudIOError, CloudResult, ErrorKind};
use ironbeam::io::cloud::utils::{
    ConnectionPool, PaginationConfig, RetryConfig, batch_in_chunks, paginate, retry_with_backoff, with_timeout,
};
use serde_json::{Value, json};
use std::sync::Mutex;
use std::time::{Duration, Instant};

const NSYM: i64 = 12;

fn kind_of(sym: i64) -> ErrorKind {
    match sym {
        1 => ErrorKind::Network,
        2 => ErrorKind::Timeout,
        3 => ErrorKind::ServiceUnavailable,
        4 => ErrorKind::RateLimited,
        5 => ErrorKind::Authentication,
        6 => ErrorKind::Authorization,
        7 => ErrorKind::NotFound,
        8 => ErrorKind::AlreadyExists,
        9 => ErrorKind::InvalidInput,
        10 => ErrorKind::InternalError,
        11 => ErrorKind::Other,
        _ => panic!("bad symbol {sym}"),
    }
}
fn code_of(k: &ErrorKind) -> i64 {
    match k {
        ErrorKind::Network => 1,
        ErrorKind::Timeout => 2,
        ErrorKind::ServiceUnavailable => 3,
        ErrorKind::RateLimited => 4,
        ErrorKind::Authentication => 5,
        ErrorKind::Authorization => 6,
        ErrorKind::NotFound => 7,
        ErrorKind::AlreadyExists => 8,
        ErrorKind::InvalidInput => 9,
        ErrorKind::InternalError => 10,
        ErrorKind::Other => 11,
    }
}
/// which call produced this error: "e<i>" -> i; any other message was not written by the
/// scripted closure, i.e. the error was built by the helper itself (with_timeout) -> -1.
/// Errors are classified by KIND (code_of); the wording of a helper's message is not observed.
fn origin_of(e: &CloudIOError) -> i64 {
    if let Some(r) = e.message.strip_prefix('e') {
        if let Ok(i) = r.parse::<i64>() {
            return i;
        }
    }
    -1
}
fn sym_at(script: &[i64], i: usize) -> i64 {
    if script.is_empty() {
        0
    } else if i < script.len() {
        script[i]
    } else {
        script[script.len() - 1]
    }
}
fn op_result(sym: i64, i: usize) -> CloudResult<i64> {
    if sym == 0 { Ok(i as i64) } else { Err(CloudIOError::new(kind_of(sym), format!("e{i}"))) }
}
/// make sure the monotonic clock has advanced (so that `elapsed() > Duration::ZERO` holds)
fn spin() {
    let t = Instant::now();
    while Instant::now() <= t {}
}

const HOUR: Duration = Duration::from_secs(3600);

/// One completion: run wrapper `w` on `script`; the code is
///   retry-like wrappers: [calls, class (0 = Ok, else kind code), origin + 1]
///   w = 9 (run_cloud_io_batch on items 1,2,3): [calls, class] ++ item handed over at each
///        call ++ payload, payload = [origin + 1] for Err, [v_0 + 1, ..] for Ok([v_0, ..])
fn run_wrapper(w: i64, budget: u32, script: &[i64], overrun: bool) -> Vec<i64> {
    let cfg = RetryConfig {
        max_attempts: budget,
        initial_delay_ms: 0,
        max_delay_ms: 0,
        backoff_multiplier: 2.0,
    };
    let timeout = if overrun { Duration::ZERO } else { HOUR };
    if w == 9 {
        let items = [1i64, 2, 3];
        let mut trace: Vec<i64> = Vec::new();
        let r = run_cloud_io_batch(&cfg, &items, |item: &i64| {
            let i = trace.len();
            trace.push(*item);
            op_result(sym_at(script, i), i)
        });
        let n = trace.len() as i64;
        let mut code = vec![n, 0];
        code.extend_from_slice(&trace);
        match r {
            Ok(vs) => code.extend(vs.iter().map(|v| v + 1)),
            Err(e) => {
                code[1] = code_of(&e.kind);
                code.push(origin_of(&e) + 1);
            }
        }
        return code;
    }
    let mut calls = 0usize;
    let mut op = || {
        let i = calls;
        calls += 1;
        if overrun {
            spin();
        }
        op_result(sym_at(script, i), i)
    };
    let r: CloudResult<i64> = match w {
        0 => retry_with_backoff(&cfg, &mut op),
        1 => run_with_retry(&cfg, &mut op),
        2 => run_cloud_io_with_retry(&cfg, &mut op),
        3 => OperationBuilder::new().with_retry(cfg).execute(&mut op),
        4 => OperationBuilder::new().with_retry(cfg).with_timeout(timeout).execute(&mut op),
        5 => CloudIOExecutor::new().with_retry(cfg).execute(&mut op),
        6 => CloudIOExecutor::new().with_timeout(timeout).with_retry(cfg).execute(&mut op),
        7 => run_with_timeout_and_retry(&cfg, timeout, &mut op),
        8 => run_cloud_io_with_retry_and_timeout(&cfg, timeout, &mut op),
        10 => OperationBuilder::new().execute(&mut op),
        11 => OperationBuilder::new().with_timeout(timeout).execute(&mut op),
        12 => CloudIOExecutor::default().execute(&mut op),
        13 => CloudIOExecutor::new().with_timeout(timeout).execute(&mut op),
        _ => panic!("bad wrapper {w}"),
    };
    match r {
        Ok(v) => vec![calls as i64, 0, v + 1],
        Err(e) => vec![calls as i64, code_of(&e.kind), origin_of(&e) + 1],
    }
}

/// all sequences over `syms` of length 0..=maxlen; by length, first element slowest
fn all_seqs(nsym: i64, maxlen: usize) -> Vec<Vec<i64>> {
    let mut out = Vec::new();
    let mut cur: Vec<Vec<i64>> = vec![vec![]];
    out.extend(cur.iter().cloned());
    for _ in 0..maxlen {
        let mut next = Vec::with_capacity(cur.len() * nsym as usize);
        for s in &cur {
            for x in 0..nsym {
                let mut t = s.clone();
                t.push(x);
                next.push(t);
            }
        }
        out.extend(next.iter().cloned());
        cur = next;
    }
    out
}

const DIGEST_B: u64 = 1_099_511_628_211;
fn dig(h: u64, x: i64) -> u64 {
    h.wrapping_mul(DIGEST_B).wrapping_add((x as u64).wrapping_add(1))
}

fn ints(v: &Value) -> Vec<i64> {
    v.as_array().unwrap().iter().map(|x| x.as_i64().unwrap()).collect()
}

fn res_json(r: CloudResult<Vec<i64>>) -> Value {
    match r {
        Ok(v) => json!(["ok", v]),
        Err(e) => json!(["err", code_of(&e.kind), origin_of(&e)]),
    }
}

fn mult_of(v: &Value) -> f64 {
    match v["f"].as_str().unwrap() {
        "0x1p+1" => 2.0,
        "0x1.8p+0" => 1.5,
        "0x1.8p+1" => 3.0,
        "0x1.fffffffffffffp+0" => 1.999_999_999_999_999_8,
        "0x1p+0" => 1.0,
        "0x0p+0" => 0.0,
        "nan" => f64::NAN,
        "infinity" => f64::INFINITY,
        other => panic!("unknown multiplier literal {other}"),
    }
}


// ---------------------------------------------------------------------------------------------
// Real-time observation of the waits between attempts ("waits" / "bwaits" cases).
// The closure records when each call starts and ends; gap j = start of call j+1 - end of call j
// is what the helper slept between the two attempts.  Call i sleeps `busy[i]` ms inside the
// operation (0 beyond the end of the list) and always lets the clock advance by at least a tick.
// Every trial must give the same result; the gaps reported are the per-gap minima over the trials
// (scheduler noise only ever adds time).  Trials stop (at least 2, at most 25) once every minimum
// is less than half a millisecond above a whole number of milliseconds - a rule that knows nothing
// about the expected values.
struct Probe<'a> {
    script: &'a [i64],
    busy: &'a [u64],
    starts: Vec<Instant>,
    ends: Vec<Instant>,
    items: Vec<i64>,
}
impl Probe<'_> {
    fn call(&mut self, item: i64) -> CloudResult<i64> {
        let i = self.starts.len();
        self.starts.push(Instant::now());
        self.items.push(item);
        spin();
        let b = self.busy.get(i).copied().unwrap_or(0);
        if b > 0 {
            std::thread::sleep(Duration::from_millis(b));
        }
        let r = op_result(sym_at(self.script, i), i);
        self.ends.push(Instant::now());
        r
    }
    fn gaps(&self) -> Vec<u64> {
        (1..self.starts.len())
            .map(|j| self.starts[j].duration_since(self.ends[j - 1]).as_micros() as u64)
            .collect()
    }
}

#[derive(Clone, Copy)]
struct Cfg {
    initial: u64,
    cap: u64,
    mult: f64,
    budget: u32,
}
impl Cfg {
    fn real(self) -> RetryConfig {
        RetryConfig {
            max_attempts: self.budget,
            initial_delay_ms: self.initial,
            max_delay_ms: self.cap,
            backoff_multiplier: self.mult,
        }
    }
}
/// [initial | null, cap | null, mult | null, budget | null]; null = the field of RetryConfig::default()
fn cfg_of(v: &Value) -> Cfg {
    let d = RetryConfig::default();
    Cfg {
        initial: v[0].as_u64().unwrap_or(d.initial_delay_ms),
        cap: v[1].as_u64().unwrap_or(d.max_delay_ms),
        mult: if v[2].is_null() { d.backoff_multiplier } else { mult_of(&v[2]) },
        budget: v[3].as_u64().map_or(d.max_attempts, |b| b as u32),
    }
}

type Trial = (Vec<i64>, u64, Vec<u64>);

fn code_of_result(calls: usize, r: CloudResult<i64>) -> Vec<i64> {
    match r {
        Ok(v) => vec![calls as i64, 0, v + 1],
        Err(e) => vec![calls as i64, code_of(&e.kind), origin_of(&e) + 1],
    }
}

/// one trial of fixed wrapper `w` (numbering as in `run_wrapper`, plus 14 = utils::with_timeout)
fn wait_trial(w: i64, cfg: Cfg, timeout: Duration, script: &[i64], busy: &[u64]) -> Trial {
    let c = cfg.real();
    let mut p = Probe { script, busy, starts: vec![], ends: vec![], items: vec![] };
    let t0 = Instant::now();
    if w == 9 {
        let items = [1i64, 2, 3];
        let r = run_cloud_io_batch(&c, &items, |item: &i64| p.call(*item));
        let total = t0.elapsed().as_micros() as u64;
        let mut code = vec![p.items.len() as i64, 0];
        code.extend_from_slice(&p.items);
        match r {
            Ok(vs) => code.extend(vs.iter().map(|v| v + 1)),
            Err(e) => {
                code[1] = code_of(&e.kind);
                code.push(origin_of(&e) + 1);
            }
        }
        return (code, total, p.gaps());
    }
    let r: CloudResult<i64> = {
        let mut op = || p.call(0);
        match w {
            0 => retry_with_backoff(&c, &mut op),
            1 => run_with_retry(&c, &mut op),
            2 => run_cloud_io_with_retry(&c, &mut op),
            3 => OperationBuilder::new().with_retry(c).execute(&mut op),
            4 => OperationBuilder::new().with_retry(c).with_timeout(timeout).execute(&mut op),
            5 => CloudIOExecutor::new().with_retry(c).execute(&mut op),
            6 => CloudIOExecutor::new().with_timeout(timeout).with_retry(c).execute(&mut op),
            7 => run_with_timeout_and_retry(&c, timeout, &mut op),
            8 => run_cloud_io_with_retry_and_timeout(&c, timeout, &mut op),
            10 => OperationBuilder::new().execute(&mut op),
            11 => OperationBuilder::new().with_timeout(timeout).execute(&mut op),
            12 => CloudIOExecutor::default().execute(&mut op),
            13 => CloudIOExecutor::new().with_timeout(timeout).execute(&mut op),
            14 => with_timeout(timeout, &mut op),
            _ => panic!("bad wrapper {w}"),
        }
    };
    let total = t0.elapsed().as_micros() as u64;
    (code_of_result(p.starts.len(), r), total, p.gaps())
}

/// a setter is [0, initial, cap, mult, budget] = .with_retry(..) or [1, timeout_ms] = .with_timeout(..)
fn builder_trial(which: i64, ctor: i64, setters: &[Value], script: &[i64], busy: &[u64]) -> Trial {
    let mut p = Probe { script, busy, starts: vec![], ends: vec![], items: vec![] };
    let rc = |st: &Value| cfg_of(&json!([st[1], st[2], st[3], st[4]])).real();
    let to = |st: &Value| Duration::from_millis(st[1].as_u64().unwrap());
    let t0 = Instant::now();
    let r: CloudResult<i64> = {
        let op = || p.call(0);
        if which == 0 {
            let mut b = if ctor == 0 { OperationBuilder::new() } else { OperationBuilder::default() };
            for st in setters {
                b = if st[0].as_i64().unwrap() == 0 { b.with_retry(rc(st)) } else { b.with_timeout(to(st)) };
            }
            b.execute(op)
        } else {
            let mut b = if ctor == 0 { CloudIOExecutor::new() } else { CloudIOExecutor::default() };
            for st in setters {
                b = if st[0].as_i64().unwrap() == 0 { b.with_retry(rc(st)) } else { b.with_timeout(to(st)) };
            }
            b.execute(op)
        }
    };
    let total = t0.elapsed().as_micros() as u64;
    (code_of_result(p.starts.len(), r), total, p.gaps())
}

/// repeat a trial as described above; a result that changes between trials is reported as code [-7]
fn observe_waits(one: &dyn Fn() -> Trial) -> Value {
    let (code, mut total, mut gaps) = one();
    for t in 1..25 {
        if t >= 2 && gaps.iter().all(|g| g % 1000 < 500) {
            break;
        }
        let (c2, t2, g2) = one();
        if c2 != code || g2.len() != gaps.len() {
            return json!([[-7], 0, []]);
        }
        total = total.min(t2);
        for (g, h) in gaps.iter_mut().zip(g2) {
            *g = (*g).min(h);
        }
    }
    json!([code, total, gaps])
}

const WAIT_WRAPPERS: [i64; 15] = [0, 1, 2, 3, 4, 5, 6, 7, 8, 9, 10, 11, 12, 13, 14];

/// generator-side estimate used ONLY to pick timeouts away from the clock's grey zone (Corr/C18.v
/// decides on its own, from the model, whether a timeout is usable and rejects the case as
/// malformed otherwise): attempts of the first retry run and the ms it must at least take
fn plan(cfg: Cfg, script: &[i64], busy: &[u64], retry: bool) -> (u64, u64) {
    let budget = if retry { u64::from(cfg.budget.max(1)) } else { 1 };
    let mut a = 1u64;
    while a < budget && (1..=4).contains(&sym_at(script, (a - 1) as usize)) {
        a += 1;
    }
    let mut lo = 0u64;
    let mut d = cfg.initial;
    for _ in 1..a {
        lo += d;
        d = (if cfg.mult >= 2.0 { d.saturating_mul(2) } else { d }).min(cfg.cap);
    }
    for i in 0..a {
        lo += busy.get(i as usize).copied().unwrap_or(0);
    }
    (a, lo)
}
const GREY_MS: u64 = 300;
fn usable_timeout(t: u64, lo: u64) -> bool {
    t <= lo || t >= lo + GREY_MS
}

/// results of real-time rows computed ahead of time, several rows side by side (they mostly
/// sleep); `run` takes them from here when present and computes them itself otherwise (replay)
static PREFETCHED: std::sync::OnceLock<Mutex<std::collections::HashMap<String, Value>>> =
    std::sync::OnceLock::new();

type Pending = (&'static str, Value, bool, Vec<&'static str>);

fn emit_prefetched(em: &mut Emitter, pending: Vec<Pending>, workers: usize) {
    let cache = PREFETCHED.get_or_init(|| Mutex::new(std::collections::HashMap::new()));
    let next = std::sync::atomic::AtomicUsize::new(0);
    std::thread::scope(|sc| {
        for _ in 0..workers {
            sc.spawn(|| loop {
                let i = next.fetch_add(1, std::sync::atomic::Ordering::SeqCst);
                if i >= pending.len() {
                    break;
                }
                let (kind, input, _, _) = &pending[i];
                let r = std::panic::catch_unwind(std::panic::AssertUnwindSafe(|| run_real(kind, input)));
                if let Ok(v) = r {
                    cache.lock().unwrap().insert(format!("{kind}{input}"), v);
                }
            });
        }
    });
    for (kind, input, nontrivial, tags) in pending {
        em.case(kind, input, nontrivial, &tags);
    }
}

fn run(kind: &str, input: &Value) -> Value {
    if let Some(cache) = PREFETCHED.get() {
        if let Some(v) = cache.lock().unwrap().remove(&format!("{kind}{input}")) {
            return v;
        }
    }
    run_real(kind, input)
}

fn run_real(kind: &str, input: &Value) -> Value {
    match kind {
        // in = [cfg, [timeout_ms of the retrying wrappers, timeout_ms of the single-call ones],
        // script, busy, slack_us]: every fixed wrapper at once (one thread each; they mostly
        // sleep).  out = [[w, code, total_us, gaps_us] per wrapper]
        "waits" => {
            let cfg = cfg_of(&input[0]);
            let t_retry = Duration::from_millis(input[1][0].as_u64().unwrap());
            let t_single = Duration::from_millis(input[1][1].as_u64().unwrap());
            let script = ints(&input[2]);
            let busy: Vec<u64> = ints(&input[3]).iter().map(|x| *x as u64).collect();
            let outs: Vec<Value> = std::thread::scope(|sc| {
                let hs: Vec<_> = WAIT_WRAPPERS
                    .iter()
                    .map(|&w| {
                        let (script, busy) = (&script, &busy);
                        let timeout = if w >= 10 { t_single } else { t_retry };
                        sc.spawn(move || {
                            let o = observe_waits(&|| wait_trial(w, cfg, timeout, script, busy));
                            json!([w, o[0], o[1], o[2]])
                        })
                    })
                    .collect();
                hs.into_iter().map(|h| h.join().expect("wrapper thread")).collect()
            });
            Value::Array(outs)
        }
        // in = [setters, script, busy, slack_us]: OperationBuilder and CloudIOExecutor, from new()
        // and default(), built by the same setter sequence.  out = [[code, total_us, gaps_us] x 4]
        "bwaits" => {
            let setters = input[0].as_array().unwrap().clone();
            let script = ints(&input[1]);
            let busy: Vec<u64> = ints(&input[2]).iter().map(|x| *x as u64).collect();
            let outs: Vec<Value> = std::thread::scope(|sc| {
                let hs: Vec<_> = [(0i64, 0i64), (0, 1), (1, 0), (1, 1)]
                    .iter()
                    .map(|&(which, ctor)| {
                        let (setters, script, busy) = (&setters, &script, &busy);
                        sc.spawn(move || {
                            observe_waits(&|| builder_trial(which, ctor, setters, script, busy))
                        })
                    })
                    .collect();
                hs.into_iter().map(|h| h.join().expect("builder thread")).collect()
            });
            Value::Array(outs)
        }
        // in = [w, budget, prefix, extra, overrun]
        "rrow" | "rbucket" => {
            let w = input[0].as_i64().unwrap();
            let budget = input[1].as_u64().unwrap() as u32;
            let prefix = ints(&input[2]);
            let extra = input[3].as_u64().unwrap() as usize;
            let overrun = input[4].as_bool().unwrap();
            let tails = all_seqs(NSYM, extra);
            let mut h = 0u64;
            let mut rows = Vec::new();
            let mut script = Vec::with_capacity(prefix.len() + extra);
            for t in &tails {
                script.clear();
                script.extend_from_slice(&prefix);
                script.extend_from_slice(t);
                let code = run_wrapper(w, budget, &script, overrun);
                if kind == "rrow" {
                    rows.push(json!(code));
                } else {
                    for x in code {
                        h = dig(h, x);
                    }
                }
            }
            if kind == "rrow" { Value::Array(rows) } else { json!(h & ((1u64 << 61) - 1)) }
        }
        // in = [which, ctor, setters, script]: builder construction sequences.
        // which 0 = OperationBuilder, 1 = CloudIOExecutor; ctor 0 = new(), 1 = default();
        // a setter is [0, budget] = .with_retry(cfg(budget)) or [1, tmode] = .with_timeout(1 h if
        // tmode = 0, zero if tmode = 1); the closure always makes the clock advance, so a zero
        // timeout in force is overrun and a 1 h timeout is not.  out = [calls, class, origin+1]
        "bseq" => {
            let which = input[0].as_i64().unwrap();
            let ctor = input[1].as_i64().unwrap();
            let setters = input[2].as_array().unwrap();
            let script = ints(&input[3]);
            let cfg_of = |b: u64| RetryConfig {
                max_attempts: b as u32,
                initial_delay_ms: 0,
                max_delay_ms: 0,
                backoff_multiplier: 2.0,
            };
            let t_of = |m: i64| if m == 0 { HOUR } else { Duration::ZERO };
            let mut calls = 0usize;
            let op = || {
                let i = calls;
                calls += 1;
                spin();
                op_result(sym_at(&script, i), i)
            };
            let r: CloudResult<i64> = if which == 0 {
                let mut b = if ctor == 0 { OperationBuilder::new() } else { OperationBuilder::default() };
                for st in setters {
                    b = if st[0].as_i64().unwrap() == 0 {
                        b.with_retry(cfg_of(st[1].as_u64().unwrap()))
                    } else {
                        b.with_timeout(t_of(st[1].as_i64().unwrap()))
                    };
                }
                b.execute(op)
            } else {
                let mut b = if ctor == 0 { CloudIOExecutor::new() } else { CloudIOExecutor::default() };
                for st in setters {
                    b = if st[0].as_i64().unwrap() == 0 {
                        b.with_retry(cfg_of(st[1].as_u64().unwrap()))
                    } else {
                        b.with_timeout(t_of(st[1].as_i64().unwrap()))
                    };
                }
                b.execute(op)
            };
            match r {
                Ok(v) => json!([calls as i64, 0, v + 1]),
                Err(e) => json!([calls as i64, code_of(&e.kind), origin_of(&e) + 1]),
            }
        }
        // in = [budget, script]: plain retry_with_backoff, budgets up to u32::MAX
        "rbig" => {
            let budget = input[0].as_u64().unwrap() as u32;
            let script = ints(&input[1]);
            json!(run_wrapper(0, budget, &script, false))
        }
        // in = [api, n, chunk_size, fail, dup, parallel, errsym]
        // items 0..n; chunk number j fails iff j == fail (error errsym, message e<j>), otherwise
        // returns x*100+j for every x (twice if dup).  out = [chunks handed over, result]
        "batch" => {
            let api = input[0].as_i64().unwrap();
            let n = input[1].as_i64().unwrap();
            let chunk_size = input[2].as_u64().unwrap() as usize;
            let fail = input[3].as_i64().unwrap();
            let dup = input[4].as_bool().unwrap();
            let parallel = input[5].as_bool().unwrap();
            let errsym = input[6].as_i64().unwrap();
            let items: Vec<i64> = (0..n).collect();
            let trace: Mutex<Vec<Vec<i64>>> = Mutex::new(Vec::new());
            let process = |chunk: Vec<i64>| -> CloudResult<Vec<i64>> {
                let mut tr = trace.lock().unwrap();
                let j = tr.len() as i64;
                tr.push(chunk.clone());
                if j == fail {
                    return Err(CloudIOError::new(kind_of(errsym), format!("e{j}")));
                }
                let mut out = Vec::new();
                for x in chunk {
                    out.push(x * 100 + j);
                    if dup {
                        out.push(x * 100 + j);
                    }
                }
                Ok(out)
            };
            let r = if api == 0 {
                batch_in_chunks(&items, chunk_size, process)
            } else {
                run_batch_operation(&items, &BatchConfig { chunk_size, parallel }, process)
            };
            let tr = trace.lock().unwrap().clone();
            json!([tr, res_json(r)])
        }
        // in = [api, page_size, max_pages | null, script, tail]; a page is [0, size, has_more] or
        // [1, errsym]; call number j gets script[j] (tail beyond the end); items of call j are
        // j*100 + 0.. ; out = [[page, page_size] per call, result]
        "page" => {
            let api = input[0].as_i64().unwrap();
            let page_size = input[1].as_u64().unwrap() as u32;
            let max_pages = input[2].as_u64().map(|m| m as u32);
            let script = input[3].as_array().unwrap().clone();
            let tail = input[4].clone();
            let cfg = PaginationConfig { page_size, max_pages };
            let mut calls: Vec<(u32, u32)> = Vec::new();
            let fetch = |page: u32, ps: u32| -> CloudResult<(Vec<i64>, bool)> {
                let j = calls.len();
                assert!(j < 100_000, "runaway pagination");
                calls.push((page, ps));
                let p = if j < script.len() { &script[j] } else { &tail };
                if p[0].as_i64().unwrap() == 1 {
                    return Err(CloudIOError::new(kind_of(p[1].as_i64().unwrap()), format!("e{j}")));
                }
                let size = p[1].as_i64().unwrap();
                Ok(((0..size).map(|x| j as i64 * 100 + x).collect(), p[2].as_bool().unwrap()))
            };
            let r = match api {
                0 => paginate(&cfg, fetch),
                1 => run_paginated_operation(&cfg, fetch),
                _ => run_cloud_io_paginated(&cfg, fetch),
            };
            let cs: Vec<Value> = calls.iter().map(|(p, s)| json!([p, s])).collect();
            json!([cs, res_json(r)])
        }
        // long pagination runs.  in = [api, cfgmode, ps, max | null, npages]
        // cfgmode 0: PaginationConfig { page_size: ps, max_pages: max }; 1: ::default();
        // 2: { max_pages: max, ..Default::default() }; 3: { page_size: ps, ..Default::default() }.
        // Page i < npages is [i] with has_more = (i < npages-1); beyond that an empty final page.
        // out = [fetches, page arguments were 0,1,2.. in order, last page argument, min and max
        //        page_size argument (-1 if none), class, items, first, last, sum]
        "plong" => {
            let api = input[0].as_i64().unwrap();
            let mode = input[1].as_i64().unwrap();
            let ps = input[2].as_u64().unwrap() as u32;
            let max = input[3].as_u64().map(|m| m as u32);
            let npages = input[4].as_u64().unwrap();
            let cfg = match mode {
                0 => PaginationConfig { page_size: ps, max_pages: max },
                1 => PaginationConfig::default(),
                2 => PaginationConfig { max_pages: max, ..Default::default() },
                _ => PaginationConfig { page_size: ps, ..Default::default() },
            };
            let mut calls: Vec<(u32, u32)> = Vec::new();
            let fetch = |page: u32, psz: u32| -> CloudResult<(Vec<i64>, bool)> {
                assert!(calls.len() < 100_000, "runaway pagination");
                calls.push((page, psz));
                let i = u64::from(page);
                if i < npages { Ok((vec![i as i64], i + 1 < npages)) } else { Ok((vec![], false)) }
            };
            let r = match api {
                0 => paginate(&cfg, fetch),
                1 => run_paginated_operation(&cfg, fetch),
                _ => run_cloud_io_paginated(&cfg, fetch),
            };
            let in_order = calls.iter().enumerate().all(|(i, c)| c.0 as usize == i);
            let last_page = calls.last().map_or(-1, |c| i64::from(c.0));
            let ps_min = calls.iter().map(|c| i64::from(c.1)).min().unwrap_or(-1);
            let ps_max = calls.iter().map(|c| i64::from(c.1)).max().unwrap_or(-1);
            match r {
                Ok(v) => json!([calls.len(), in_order, last_page, ps_min, ps_max, 0, v.len(),
                                v.first().copied().unwrap_or(-1), v.last().copied().unwrap_or(-1),
                                v.iter().sum::<i64>()]),
                Err(e) => json!([calls.len(), in_order, last_page, ps_min, ps_max,
                                 code_of(&e.kind), 0, -1, -1, 0]),
            }
        }
        // the Default impls are part of the behaviour: observe their fields.  in = [0]
        // out = [[max_attempts, initial_delay_ms, max_delay_ms, multiplier >= 2.0, multiplier == 2.0],
        //        [page_size, max_pages | null], [chunk_size, parallel]]
        "defaults" => {
            let r = RetryConfig::default();
            let p = PaginationConfig::default();
            let b = BatchConfig::default();
            json!([[r.max_attempts, r.initial_delay_ms, r.max_delay_ms, r.backoff_multiplier >= 2.0,
                    r.backoff_multiplier == 2.0],
                   [p.page_size, p.max_pages], [b.chunk_size, b.parallel]])
        }
        // in = [mode, sym]; utils::with_timeout on a single operation.
        // mode 0: timeout 1 h, instantaneous op; 1: timeout zero, clock made to advance;
        // 2: timeout 5 ms, op sleeps 25 ms; 3: timeout 2 s, op sleeps 2 ms.   out = [calls, class, origin+1]
        "timeout" => {
            let mode = input[0].as_i64().unwrap();
            let sym = input[1].as_i64().unwrap();
            let (timeout, nap) = match mode {
                0 => (HOUR, None),
                1 => (Duration::ZERO, None),
                2 => (Duration::from_millis(5), Some(Duration::from_millis(25))),
                _ => (Duration::from_secs(2), Some(Duration::from_millis(2))),
            };
            let mut calls = 0i64;
            let r = with_timeout(timeout, || {
                calls += 1;
                if mode == 1 {
                    spin();
                }
                if let Some(d) = nap {
                    std::thread::sleep(d);
                }
                op_result(sym, 0)
            });
            match r {
                Ok(v) => json!([calls, 0, v + 1]),
                Err(e) => json!([calls, code_of(&e.kind), origin_of(&e) + 1]),
            }
        }
        // in = [initial_ms, cap_ms, mult, budget, nfail, slack_us]: nfail Network errors, then Ok.
        // out = [calls, class, origin+1, min elapsed microseconds over 3..40 trials]
        "timing" => {
            let cfg = RetryConfig {
                initial_delay_ms: input[0].as_u64().unwrap(),
                max_delay_ms: input[1].as_u64().unwrap(),
                backoff_multiplier: mult_of(&input[2]),
                max_attempts: input[3].as_u64().unwrap() as u32,
            };
            let nfail = input[4].as_u64().unwrap() as usize;
            // repeat until the two fastest trials agree to 0.3 ms (scheduler noise only ever
            // adds time), at most 40 times
            let mut times: Vec<u128> = Vec::new();
            let mut first: Option<Vec<i64>> = None;
            for _ in 0..40 {
                let mut calls = 0usize;
                let t0 = Instant::now();
                let r = retry_with_backoff(&cfg, || {
                    let i = calls;
                    calls += 1;
                    op_result(if i < nfail { 1 } else { 0 }, i)
                });
                times.push(t0.elapsed().as_micros());
                times.sort_unstable();
                let code = match r {
                    Ok(v) => vec![calls as i64, 0, v + 1],
                    Err(e) => vec![calls as i64, code_of(&e.kind), origin_of(&e) + 1],
                };
                match &first {
                    None => first = Some(code),
                    Some(f) => assert_eq!(f, &code, "retry is not deterministic"),
                }
                if times.len() >= 3 && times[1] - times[0] <= 300 {
                    break;
                }
            }
            let best = times[0];
            let mut code = first.unwrap();
            code.push(best as i64);
            json!(code)
        }
        // in = [syms]: run_parallel over one FnOnce per symbol; out = [closures called, result]
        "parallel" => {
            let syms = ints(&input[0]);
            let called = std::sync::Arc::new(Mutex::new(0i64));
            let ops: Vec<Box<dyn FnOnce() -> CloudResult<i64> + Send>> = syms
                .iter()
                .enumerate()
                .map(|(i, &s)| {
                    let c = called.clone();
                    Box::new(move || {
                        *c.lock().unwrap() += 1;
                        op_result(s, i)
                    }) as Box<dyn FnOnce() -> CloudResult<i64> + Send>
                })
                .collect();
            let r = run_parallel(ops);
            let n = *called.lock().unwrap();
            json!([n, res_json(r)])
        }
        // in = [name, preset retry_count, preset metadata [[k, v]..], actions, sym]; an action is
        // [0] = increment_retry() or [1, k, v] = add_metadata("k<k>", "v<v>"), performed by the
        // closure on its &mut OperationContext before it answers `sym`.
        // out = ["ok", calls, value, name, retry_count, start_time untouched, [[k, v]..] sorted]
        //     | ["err", calls, class, origin]          (a u32 overflow panics: ["panic"])
        "context" => {
            let name = input[0].as_i64().unwrap();
            let mut ctx = OperationContext::new(format!("n{name}"));
            ctx.retry_count = input[1].as_u64().unwrap() as u32;
            for kv in input[2].as_array().unwrap() {
                ctx.add_metadata(format!("k{}", kv[0]), format!("v{}", kv[1]));
            }
            let actions = input[3].as_array().unwrap().clone();
            let sym = input[4].as_i64().unwrap();
            let start = ctx.start_time;
            let mut calls = 0i64;
            let r = run_with_context(ctx, |c: &mut OperationContext| {
                calls += 1;
                for a in &actions {
                    if a[0].as_i64().unwrap() == 0 {
                        c.increment_retry();
                    } else {
                        c.add_metadata(format!("k{}", a[1]), format!("v{}", a[2]));
                    }
                }
                op_result(sym, 0)
            });
            match r {
                Ok((v, c)) => {
                    let num = |s: &str| s[1..].parse::<i64>().unwrap();
                    let mut meta: Vec<(i64, i64)> =
                        c.metadata.iter().map(|(k, v)| (num(k), num(v))).collect();
                    meta.sort_unstable();
                    let meta: Vec<Value> = meta.iter().map(|(k, v)| json!([k, v])).collect();
                    json!(["ok", calls, v, num(&c.operation_name), c.retry_count,
                           c.start_time == start, meta])
                }
                Err(e) => json!(["err", calls, code_of(&e.kind), origin_of(&e)]),
            }
        }
        // in = [max_size, ops] on a ConnectionPool<i64>; op j is [0, sym] = acquire with a `create`
        // answering sym (Ok carries 1000 + j), [1, x] = release(x), [2] = size().
        // out = one entry per op: [0, class, value | origin, create called] | [1] | [2, size]
        "pool" => {
            let max = input[0].as_u64().unwrap() as usize;
            let mut pool: ConnectionPool<i64> = ConnectionPool::new(max);
            let mut out = Vec::new();
            for (j, op) in input[1].as_array().unwrap().iter().enumerate() {
                match op[0].as_i64().unwrap() {
                    0 => {
                        let sym = op[1].as_i64().unwrap();
                        let mut created = false;
                        let r = pool.acquire(|| {
                            created = true;
                            op_result(sym, j).map(|v| v + 1000)
                        });
                        out.push(match r {
                            Ok(v) => json!([0, 0, v, created]),
                            Err(e) => json!([0, code_of(&e.kind), origin_of(&e), created]),
                        });
                    }
                    1 => {
                        pool.release(op[1].as_i64().unwrap());
                        out.push(json!([1]));
                    }
                    _ => out.push(json!([2, pool.size()])),
                }
            }
            Value::Array(out)
        }
        _ => json!(["bad-kind"]),
    }
}

fn page_alphabet() -> Vec<Value> {
    let mut a = Vec::new();
    for size in 0..3 {
        for hm in [true, false] {
            a.push(json!([0, size, hm]));
        }
    }
    a.push(json!([1, 1])); // Network
    a.push(json!([1, 7])); // NotFound
    a
}

fn all_page_scripts(maxlen: usize) -> Vec<Vec<Value>> {
    let alpha = page_alphabet();
    let mut out = vec![vec![]];
    let mut cur: Vec<Vec<Value>> = vec![vec![]];
    for _ in 0..maxlen {
        let mut next = Vec::new();
        for s in &cur {
            for x in &alpha {
                let mut t = s.clone();
                t.push(x.clone());
                next.push(t);
            }
        }
        out.extend(next.iter().cloned());
        cur = next;
    }
    out
}

fn is_timeout_wrapper(w: i64) -> bool {
    matches!(w, 4 | 6 | 7 | 8 | 11 | 13)
}

fn generate(seed: u64, tier: Tier, em: &mut Emitter) {
    let thorough = tier == Tier::Thorough;
    let transient1 = |p: &[i64]| !p.is_empty() && (1..=4).contains(&p[0]);

    // 1. with_timeout on one operation: every symbol x every mode
    for mode in 0..4 {
        for sym in 0..NSYM {
            em.case("timeout", json!([mode, sym]), true, &["exhaustive", "timeout"]);
        }
    }

    // 2. explicit rows: every wrapper x budget 0..6 x (overrun) x all scripts of length <= 3
    for w in 0..14i64 {
        let budgets: Vec<u32> = if w >= 10 { vec![0, 3] } else { (0..=6).collect() };
        for &b in &budgets {
            for overrun in [false, true] {
                if overrun && !is_timeout_wrapper(w) {
                    continue;
                }
                em.case("rrow", json!([w, b, [], 0, overrun]), false, &["exhaustive", "retry"]);
                for a in 0..NSYM {
                    let nt = b >= 2 && (1..=4).contains(&a) && w < 10;
                    em.case("rrow", json!([w, b, [a], 2, overrun]), nt, &["exhaustive", "retry"]);
                }
            }
        }
    }

    // 2b. builder construction sequences: every order and repetition of the setters (two retry
    //     budgets, an ample and a zero timeout) up to length 3 (thorough 4) x both builders x
    //     scripts incl. a slow Ok under a timeout that is forced past
    {
        let mut alpha: Vec<Value> = vec![json!([0, 2]), json!([0, 4]), json!([1, 0]), json!([1, 1])];
        if thorough {
            alpha.push(json!([0, 0]));
        }
        let maxlen = if thorough { 4 } else { 3 };
        let mut seqs: Vec<Vec<Value>> = vec![vec![]];
        let mut cur: Vec<Vec<Value>> = vec![vec![]];
        for _ in 0..maxlen {
            let mut next = Vec::new();
            for q in &cur {
                for x in &alpha {
                    let mut t = q.clone();
                    t.push(x.clone());
                    next.push(t);
                }
            }
            seqs.extend(next.iter().cloned());
            cur = next;
        }
        let scripts: [&[i64]; 6] = [&[0], &[1, 0], &[1, 1, 1, 0], &[1, 1, 1, 1, 1], &[7], &[2, 9]];
        let mut k = 0i64;
        for q in &seqs {
            let kinds: std::collections::BTreeSet<i64> =
                q.iter().map(|x| x[0].as_i64().unwrap()).collect();
            for which in 0..2 {
                for sc in scripts {
                    k += 1;
                    em.case(
                        "bseq",
                        json!([which, k % 2, q, sc]),
                        kinds.len() == 2,
                        &["exhaustive", "builder-sequence"],
                    );
                }
            }
        }
    }

    // 3. digest buckets: all scripts of length 4 and 5 (prefix of two symbols + up to 3 more;
    //    the shorter ones are in the rows above and repeated here so that one bucket = one prefix)
    let bucket_wrappers: Vec<i64> =
        if thorough { (0..10).collect() } else { vec![0, 1, 3, 5, 9] };
    for &w in &bucket_wrappers {
        for b in 0..=6u32 {
            for a in 0..NSYM {
                for c in 0..NSYM {
                    let p = [a, c];
                    em.case(
                        "rbucket",
                        json!([w, b, p, 3, false]),
                        b >= 2 && transient1(&p),
                        &["exhaustive", "retry", "digest"],
                    );
                }
            }
        }
    }
    if thorough {
        // length 6 for the plain function and the per-item batch
        for &w in &[0i64, 9] {
            for b in 0..=7u32 {
                for a in 0..NSYM {
                    for c in 0..NSYM {
                        em.case(
                            "rbucket",
                            json!([w, b, [a, c], 4, false]),
                            b >= 2 && (1..=4).contains(&a),
                            &["exhaustive", "retry", "digest", "len6"],
                        );
                    }
                }
            }
        }
    }

    // 4. long scripts / larger budgets (explicit, one script per case)
    let mut rng = SplitMix64::new(seed ^ 0xC18);
    for &b in &[7u32, 8, 16, 33, 100, 1000] {
        for w in [0i64, 1, 3, 4, 5, 6, 7, 8, 9] {
            // budget-1 transient failures then Ok; budget failures; budget+1 failures
            for nf in [b - 1, b, b + 1] {
                let mut s: Vec<i64> = (0..nf).map(|i| 1 + (i as i64 % 4)).collect();
                s.push(0);
                em.case("rrow", json!([w, b, s, 0, false]), true, &["boundary", "retry"]);
            }
        }
    }
    for &b in &[65_535u64, 65_536, 2_147_483_648, 4_294_967_294, 4_294_967_295] {
        for nf in [0usize, 1, 6, 40] {
            for last in [0i64, 9] {
                let mut s: Vec<i64> = (0..nf).map(|i| 1 + (i as i64 % 4)).collect();
                s.push(last);
                em.case("rbig", json!([b, s]), nf >= 1, &["boundary", "retry", "huge-budget"]);
            }
        }
    }
    let nrand = if thorough { 6000 } else { 500 };
    for _ in 0..nrand {
        let w = *rng.pick(&[0i64, 1, 2, 3, 4, 5, 6, 7, 8, 9, 9, 9, 10, 11, 12, 13]);
        let b = rng.below(14) as u32;
        let len = rng.below(16) as usize;
        let lead = rng.below(len as u64 + 1) as usize;
        let mut s: Vec<i64> = Vec::new();
        for i in 0..len {
            if i < lead || rng.chance(1, 2) {
                s.push(rng.range(1, 4));
            } else {
                s.push(rng.range(0, 11));
            }
        }
        let overrun = is_timeout_wrapper(w) && rng.chance(1, 3);
        let nt = b >= 2 && transient1(&s);
        em.case("rrow", json!([w, b, s, 0, overrun]), nt, &["random", "retry"]);
    }

    // 5. batch: item counts x chunk sizes 0..n+1 (and huge) x failing chunk index
    let nmax = if thorough { 14 } else { 8 };
    let mut rot = 0i64;
    for n in 0..=nmax {
        let mut sizes: Vec<u64> = (0..=(n as u64 + 1)).collect();
        sizes.push(1 << 61);
        for &cs in &sizes {
            let eff = cs.max(1);
            let nchunks = ((n as u64) + eff - 1) / eff;
            for fail in -1..=(nchunks as i64) {
                for api in 0..2 {
                    rot += 1;
                    let dup = rot % 3 == 0;
                    let parallel = api == 1 && rot % 2 == 0;
                    let errsym = 1 + rot % 11;
                    em.case(
                        "batch",
                        json!([api, n, cs, fail, dup, parallel, errsym]),
                        n >= 2,
                        &["exhaustive", "batch"],
                    );
                }
            }
        }
    }
    let nb = if thorough { 1500 } else { 150 };
    for _ in 0..nb {
        let n = rng.range(0, 120);
        let cs = match rng.below(5) {
            0 => rng.below(3),
            1 => (n as u64).saturating_sub(1) + rng.below(3),
            _ => rng.below(n as u64 + 2),
        };
        let eff = cs.max(1);
        let nchunks = ((n as u64) + eff - 1) / eff;
        let fail = if rng.chance(1, 3) { -1 } else { rng.below(nchunks + 1) as i64 };
        let api = rng.below(2) as i64;
        em.case(
            "batch",
            json!([api, n, cs, fail, rng.chance(1, 3), rng.chance(1, 2), rng.range(1, 11)]),
            n >= 2,
            &["random", "batch"],
        );
    }

    // 6. paginate: every page script up to the bound x max_pages (None, 0..4) x tail page
    let plen = if thorough { 4 } else { 3 };
    let empty_tail = json!([0, 0, false]);
    let good_tail = json!([0, 1, true]);
    let sizes = [1u32, 7, 100, u32::MAX];
    let mut k = 0usize;
    for s in all_page_scripts(plen) {
        let good_first = !s.is_empty() && s[0][0] == 0 && s[0][1].as_i64().unwrap() > 0 && s[0][2] == true;
        let nt = s.len() >= 2 && good_first;
        for mp in [None, Some(0u32), Some(1), Some(2), Some(3), Some(4)] {
            for tail in [&empty_tail, &good_tail] {
                if mp.is_none() && tail == &good_tail {
                    continue; // would never return
                }
                k += 1;
                let api = (k % 3) as i64;
                let ps = sizes[k % 4];
                em.case(
                    "page",
                    json!([api, ps, mp, s, tail]),
                    nt && mp != Some(0),
                    &["exhaustive", "paginate"],
                );
            }
        }
    }
    // long runs of good pages: the limit is what stops them
    for mp in [5u32, 17, 64, 1000] {
        for api in 0..3 {
            em.case("page", json!([api, 10, mp, [], good_tail]), true, &["boundary", "paginate"]);
            let s: Vec<Value> = (0..mp - 1).map(|i| json!([0, 1 + i % 3, true])).collect();
            em.case("page", json!([api, 10, mp, s, empty_tail]), true, &["boundary", "paginate"]);
            em.case("page", json!([api, 10, null, s, empty_tail]), true, &["boundary", "paginate"]);
        }
    }
    em.case("page", json!([0, 3, u32::MAX, [[0, 2, true], [0, 1, true]], empty_tail]), true,
            &["boundary", "paginate"]);
    let np = if thorough { 3000 } else { 300 };
    let alpha = page_alphabet();
    for _ in 0..np {
        let len = rng.below(12) as usize;
        let mut s = Vec::new();
        for _ in 0..len {
            if rng.chance(2, 3) {
                s.push(json!([0, rng.range(1, 4), true]));
            } else {
                s.push(rng.pick(&alpha).clone());
            }
        }
        let mp = if rng.chance(1, 3) { None } else { Some(rng.below(14) as u32) };
        let tail = if mp.is_some() && rng.chance(1, 2) { &good_tail } else { &empty_tail };
        em.case(
            "page",
            json!([rng.below(3), *rng.pick(&sizes), mp, s, tail]),
            len >= 2,
            &["random", "paginate"],
        );
    }

    // 6b. long pagination runs through every entry point and every way of building the
    //     configuration; page counts around 1000 and 5000, limits around them and none
    em.case("defaults", json!([0]), true, &["defaults"]);
    for api in 0..3 {
        for npages in [0u64, 1, 2, 999, 1000, 1001, 1005, 5000] {
            let nt = npages >= 2;
            for max in [None, Some(999u32), Some(1000), Some(1001), Some(1005), Some(5000), Some(u32::MAX)] {
                em.case("plong", json!([api, 0, 25, max, npages]), nt, &["long", "paginate"]);
            }
            em.case("plong", json!([api, 1, 0, null, npages]), nt, &["long", "paginate", "default-config"]);
            em.case("plong", json!([api, 2, 0, null, npages]), nt, &["long", "paginate", "default-config"]);
            em.case("plong", json!([api, 2, 0, 1000, npages]), nt, &["long", "paginate", "default-config"]);
            em.case("plong", json!([api, 3, 7, null, npages]), nt, &["long", "paginate", "default-config"]);
        }
    }

    // 7. run_parallel
    for s in all_seqs(3, 3) {
        let m: Vec<i64> = s.iter().map(|x| [0i64, 1, 7][*x as usize]).collect();
        em.case("parallel", json!([m]), m.len() >= 2, &["exhaustive", "parallel"]);
    }

    // 7b. OperationContext + run_with_context: every action sequence of length <= 3 over
    //     {increment_retry, add k1, add k2, add k1 again with another value} x result symbol x
    //     starting retry_count (0, near u32::MAX) x preset metadata; then longer random ones
    {
        let acts = [json!([0]), json!([1, 1, 10]), json!([1, 2, 20]), json!([1, 1, 11])];
        let mut seqs: Vec<Vec<Value>> = vec![vec![]];
        let mut cur: Vec<Vec<Value>> = vec![vec![]];
        for _ in 0..3 {
            let mut next = Vec::new();
            for q in &cur {
                for x in &acts {
                    let mut t = q.clone();
                    t.push(x.clone());
                    next.push(t);
                }
            }
            seqs.extend(next.iter().cloned());
            cur = next;
        }
        let top = u64::from(u32::MAX);
        let mut k = 0u64;
        for q in &seqs {
            for sym in [0i64, 1, 7] {
                for preset in [0u64, top - 2] {
                    k += 1;
                    let meta = if k % 2 == 0 { json!([]) } else { json!([[1, 5], [3, 6]]) };
                    em.case("context", json!([k % 5, preset, meta, q, sym]), q.len() >= 2,
                            &["exhaustive", "context"]);
                }
            }
        }
        for (preset, n) in [(top - 1, 1usize), (top - 1, 2), (top, 0), (top, 1), (top - 3, 4)] {
            let q: Vec<Value> = (0..n).map(|_| json!([0])).collect();
            for sym in [0i64, 4] {
                em.case("context", json!([9, preset, [], q, sym]), true, &["boundary", "context", "overflow"]);
            }
        }
        let nc = if thorough { 1500 } else { 150 };
        for _ in 0..nc {
            let n = rng.below(25) as usize;
            let q: Vec<Value> = (0..n)
                .map(|_| if rng.chance(1, 3) { json!([0]) } else { json!([1, rng.below(6), rng.below(50)]) })
                .collect();
            let meta: Vec<Value> = (0..rng.below(4)).map(|_| json!([rng.below(6), rng.below(50)])).collect();
            let preset = if rng.chance(1, 4) { top - rng.below(12) } else { rng.below(1000) };
            em.case("context", json!([rng.below(100), preset, meta, q, rng.range(0, 11)]), n >= 2,
                    &["random", "context"]);
        }
    }

    // 7c. ConnectionPool: every op sequence of length <= 4 over {acquire (create Ok), acquire
    //     (create fails), release, size} x max_size 0..2; longer random ones; max_size whose
    //     capacity overflows
    {
        let mut seqs: Vec<Vec<i64>> = vec![vec![]];
        let mut cur: Vec<Vec<i64>> = vec![vec![]];
        let plen = if thorough { 5 } else { 4 };
        for _ in 0..plen {
            let mut next = Vec::new();
            for q in &cur {
                for x in 0..4i64 {
                    let mut t = q.clone();
                    t.push(x);
                    next.push(t);
                }
            }
            seqs.extend(next.iter().cloned());
            cur = next;
        }
        let op_json = |j: usize, x: i64| -> Value {
            match x {
                0 => json!([0, 0]),
                1 => json!([0, 1 + (j as i64 % 11)]),
                2 => json!([1, 10 * j as i64 + 1]),
                _ => json!([2]),
            }
        };
        for q in &seqs {
            let ops: Vec<Value> = q.iter().enumerate().map(|(j, &x)| op_json(j, x)).collect();
            for max in 0..3u64 {
                em.case("pool", json!([max, ops]), q.len() >= 2 && q.contains(&2), &["exhaustive", "pool"]);
            }
        }
        let npool = if thorough { 1000 } else { 100 };
        for _ in 0..npool {
            let n = rng.below(41) as usize;
            let ops: Vec<Value> = (0..n)
                .map(|j| op_json(j, *rng.pick(&[0i64, 0, 1, 2, 2, 2, 3])))
                .collect();
            let max = *rng.pick(&[0u64, 1, 2, 3, 4, 8, 16, 65_536]);
            em.case("pool", json!([max, ops]), n >= 2, &["random", "pool"]);
        }
        // 8 * max_size > isize::MAX: Vec::with_capacity panics (capacity overflow)
        for max in [1u64 << 60, (1 << 60) + 1, 1 << 61] {
            em.case("pool", json!([max, [[2]]]), true, &["boundary", "pool", "capacity-overflow"]);
        }
    }

    // 8. real sleeping, a handful of cases with millisecond delays (see props/C18.json)
    let f = |s: &str| json!({"f": s});
    let timing: Vec<Value> = vec![
        json!([5, 10, f("0x1p+1"), 5, 4, 25000]),   // 5,10,10,10 (cap bites)
        json!([4, 1000, f("0x1.8p+1"), 4, 3, 20000]), // 4,8,16 (3.0 doubles, does not triple)
        json!([10, 1000, f("0x1.8p+0"), 4, 3, 15000]), // 10,10,10 (1.5 does not grow)
        json!([10, 1000, f("0x1.fffffffffffffp+0"), 3, 2, 9000]), // 10,10
        json!([10, 1000, f("nan"), 3, 2, 9000]),    // 10,10
        json!([30, 2, f("0x1p+1"), 4, 3, 20000]),   // 30,2,2: first sleep is not capped
        json!([3, 100, f("infinity"), 4, 2, 8000]), // 3,6 then Ok
        json!([20, 100, f("0x1p+1"), 1, 3, 15000]), // budget 1: no sleep at all
        json!([0, 0, f("0x1p+1"), 6, 5, 15000]),    // zero delays
    ];
    for t in timing {
        em.case("timing", t, true, &["timing"]);
    }

    // 9. the waits themselves, in real time, through EVERY wrapper: each row runs wrappers 0..14
    //    on one (configuration, timeout, script, time inside the calls); the gaps between the
    //    attempts must be the model's sleep sequence and a timeout must be charged for them.
    //    Delays are a few ms (tens at most); differences that matter are >= 2 x slack.
    {
        let fj = |m: f64| -> Value {
            if m.is_nan() {
                f("nan")
            } else if m.is_infinite() {
                f("infinity")
            } else if m == 2.0 {
                f("0x1p+1")
            } else if m == 1.5 {
                f("0x1.8p+0")
            } else if m == 3.0 {
                f("0x1.8p+1")
            } else if m == 1.0 {
                f("0x1p+0")
            } else if m == 0.0 {
                f("0x0p+0")
            } else {
                f("0x1.fffffffffffffp+0")
            }
        };
        let cj = |c: Cfg| json!([c.initial, c.cap, fj(c.mult), c.budget]);
        let mut pend: Vec<Pending> = Vec::new();
        let slack = 8000;
        let big = 1u64 << 61;
        let cfgs: Vec<Cfg> = vec![
            Cfg { initial: 30, cap: 2, mult: 2.0, budget: 4 },    // initial above the cap: 30,2,2
            Cfg { initial: 25, cap: 3, mult: 1.5, budget: 3 },    // the same without growth: 25,3
            Cfg { initial: 2, cap: 9, mult: 2.0, budget: 5 },     // 2,4,8,9
            Cfg { initial: 3, cap: 1000, mult: 3.0, budget: 4 },  // 3,6,12
            Cfg { initial: 5, cap: big, mult: 1.0, budget: 3 },   // 5,5
            Cfg { initial: 0, cap: 7, mult: 2.0, budget: 4 },     // 0,0,0
            Cfg { initial: 6, cap: 6, mult: 2.0, budget: 3 },     // 6,6
            Cfg { initial: 1, cap: big, mult: f64::INFINITY, budget: 6 }, // 1,2,4,8,16
            Cfg { initial: 20, cap: 0, mult: 2.0, budget: 4 },    // cap zero: 20,0,0
            Cfg { initial: 4, cap: 5, mult: f64::NAN, budget: 3 }, // 4,4
            Cfg { initial: 1, cap: 3, mult: 2.0, budget: 12 },    // 1,2,3,3,... (11 waits)
            Cfg { initial: 1, cap: 1, mult: 0.0, budget: 33 },    // 32 waits of 1 ms
            Cfg { initial: 24, cap: 24, mult: 2.0, budget: 0 },   // budget 0 = 1: never waits
            Cfg { initial: 24, cap: 24, mult: 2.0, budget: 1 },
            Cfg { initial: 24, cap: 1, mult: 1.999_999_999_999_999_8, budget: 2 }, // 24
        ];
        let mut k = seed as usize;
        for (ci, &c) in cfgs.iter().enumerate() {
            let b = c.budget.max(1) as usize;
            let tr = |n: usize| -> Vec<i64> { (0..n).map(|i| 1 + ((i + ci) % 4) as i64).collect() };
            let mut scripts: Vec<Vec<i64>> = Vec::new();
            // success at attempt a for the interesting a (all of them for small budgets)
            let succ: Vec<usize> = if b <= 6 { (1..=b).collect() } else { vec![1, 2, 3, b - 1, b] };
            for a in succ {
                let mut s = tr(a - 1);
                s.push(0);
                scripts.push(s);
            }
            scripts.push(tr(b)); // budget exhausted
            let mut s = tr(1.min(b - 1));
            s.push(5 + (ci as i64 % 7)); // permanent error
            scripts.push(s);
            scripts.push(vec![1, 0, 2, 0, 3, 0]); // per-item batch: every item waits once
            for s in &scripts {
                let nontrivial = b >= 2 && (1..=4).contains(&s[0]);
                let (a, lo) = plan(c, s, &[], true);
                // (a) no time inside the calls, ample timeout
                pend.push(("waits", json!([cj(c), [3_600_000, 3_600_000], s, [], slack]), nontrivial, vec!["waits", "realtime"]));
                // (b) the waits alone reach the timeout (clock at least lo, plus a tick)
                pend.push(("waits", json!([cj(c), [lo, 0], s, [], slack]), nontrivial,
                        vec!["waits", "realtime", "wait-overrun"]));
                k += 1;
                match k % 3 {
                    0 => {
                        // (c) 2 ms inside every call; the timeout covers the calls but only half the waits
                        let busy: Vec<u64> = vec![2; a as usize];
                        let (_, lo2) = plan(c, s, &busy, true);
                        let t = 2 * a + (lo2 - 2 * a) / 2;
                        if usable_timeout(t, lo2) {
                            pend.push(("waits", json!([cj(c), [t, 2], s, busy, slack]), nontrivial,
                                    vec!["waits", "realtime", "busy"]));
                        }
                    }
                    1 => {
                        // (d) a slow last call, a timeout well above everything
                        let mut busy: Vec<u64> = vec![0; a as usize];
                        busy[a as usize - 1] = 6;
                        let (_, lo2) = plan(c, s, &busy, true);
                        pend.push(("waits", json!([cj(c), [lo2 + GREY_MS + 50, busy[0] + GREY_MS], s, busy, slack]), nontrivial,
                                vec!["waits", "realtime", "busy"]));
                    }
                    _ => {
                        // (e) a slow first call, the timeout one ms short of the total
                        let mut busy: Vec<u64> = vec![0; a as usize];
                        busy[0] = 5;
                        let (_, lo2) = plan(c, s, &busy, true);
                        pend.push(("waits", json!([cj(c), [lo2 - 1, 4], s, busy, slack]), nontrivial,
                                vec!["waits", "realtime", "busy"]));
                    }
                }
            }
        }
        // RetryConfig::default() and struct update from it (100 ms, 200 ms: two rows only)
        pend.push(("waits", json!([[null, null, null, 2], [50, 0], [3, 0], [], slack]), true,
                vec!["waits", "realtime", "default-config"]));
        pend.push(("waits", json!([[null, null, null, null], [3_600_000, 3_600_000], [4, 1, 0], [], slack]), true,
                vec!["waits", "realtime", "default-config"]));
        pend.push(("waits", json!([[7, null, null, null], [20, 0], [4, 1, 0], [], slack]), true,
                vec!["waits", "realtime", "default-config"]));
        // seeded random rows
        let nw = if thorough { 400 } else { 40 };
        let mut made = 0;
        while made < nw {
            let c = Cfg {
                initial: *rng.pick(&[0u64, 1, 2, 3, 5, 9, 17, 26]),
                cap: *rng.pick(&[0u64, 1, 2, 4, 7, 12, 40, 1000, big]),
                mult: *rng.pick(&[2.0, 2.0, 1.5, 3.0, 1.0, f64::INFINITY, f64::NAN, 0.0]),
                budget: rng.below(8) as u32,
            };
            let len = rng.below(8) as usize;
            let lead = rng.below(len as u64 + 1) as usize;
            let s: Vec<i64> =
                (0..len).map(|i| if i < lead { rng.range(1, 4) } else { rng.range(0, 11) }).collect();
            let busy: Vec<u64> = (0..rng.below(4)).map(|_| *rng.pick(&[0u64, 0, 1, 3, 6])).collect();
            let (_, lo) = plan(c, &s, &busy, true);
            let (_, lo1) = plan(c, &s, &busy, false);
            if lo > 70 {
                continue;
            }
            let t = match rng.below(5) {
                0 => 3_600_000,
                1 => lo,
                2 => lo / 2,
                3 => lo + GREY_MS + rng.below(100),
                _ => lo1,
            };
            let t1 = match rng.below(3) {
                0 => 3_600_000,
                1 => lo1,
                _ => lo1 + GREY_MS + rng.below(100),
            };
            if !(usable_timeout(t, lo) && usable_timeout(t1, lo1)) {
                continue;
            }
            made += 1;
            let nontrivial = c.budget >= 2 && !s.is_empty() && (1..=4).contains(&s[0]);
            pend.push(("waits", json!([cj(c), [t, t1], s, busy, slack]), nontrivial,
                    vec!["waits", "realtime", "random"]));
        }

        // 9b. builder construction sequences in real time: two retry configurations with
        //     different delays, a 3 ms and a 1 h timeout, every sequence up to length 2 and every
        //     length-3 sequence that uses both retry configurations; the first call takes 4 ms
        let r1 = json!([0, 20, 1, fj(2.0), 4]); // 20,1,1
        let r2 = json!([0, 1, 6, fj(2.0), 4]); // 1,2,4
        let alpha = [r1.clone(), r2.clone(), json!([1, 3]), json!([1, 3_600_000])];
        let mut seqs: Vec<Vec<Value>> = vec![vec![]];
        for x in &alpha {
            seqs.push(vec![x.clone()]);
            for y in &alpha {
                seqs.push(vec![x.clone(), y.clone()]);
                for z in &alpha {
                    let q = vec![x.clone(), y.clone(), z.clone()];
                    if q.contains(&r1) && q.contains(&r2) {
                        seqs.push(q);
                    }
                }
            }
        }
        for q in &seqs {
            let both = q.iter().any(|x| x[0] == 0) && q.iter().any(|x| x[0] == 1);
            for sc in [vec![1i64, 4, 2, 0], vec![3, 3, 3, 3, 3]] {
                pend.push(("bwaits", json!([q, sc, [4], slack]), both, vec!["waits", "realtime", "builder-sequence"]));
            }
        }
        emit_prefetched(em, pend, 4);
    }
}

fn main() {
    drive(&generate, &run);
}
