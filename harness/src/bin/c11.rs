//! C11: checkpointing is transparent, cleans up after success and survives crashes.
//!
//! kind "hist": in = [seeds, runs]: a history of runs of REAL pipelines over ONE checkpoint
//! directory, through `Runner { mode, checkpoint_config, .. }.run_collect`.
//!   seeds = null (the directory does not exist) | [[name_spec, {"bytes":[..]}], ..]
//!           name_spec = ["raw", name] | ["pid", r, suffix]  ("checkpoint_<pipeline id of run r>_<suffix>")
//!           or [["state", r, ts], [idx, parts, total, node_type, exec_mode, percent]]: a VALID checkpoint
//!           of run r's pipeline id (what a run killed right after a save leaves), written with the
//!           public CheckpointManager::save_checkpoint
//!   run   = [src, pre|null, post, crash, mode, cfg|null, damage|null]
//!           mode = null (Sequential) | n (Parallel{threads: harness option, partitions: Some(n)})
//!                | ["par", t|null] (Parallel{threads: t, partitions: None}: the runner takes the planner's
//!                  suggestion, else Runner::default_partitions - both are reported in `out`)
//!           program = pre ++ [an identity `map` whose closure panics while `crash` is set] ++ post
//!           (pre = null: no injected map, program = post); steps / sources as in Engine/Decode.v
//!   cfg   = [enabled, policy, max_checkpoints|null, auto_recover]
//!           policy = ["barrier"] | ["every", n] | ["time", secs] | ["hybrid", barriers, secs]
//!           (secs = 0 or >= 3600 up to u64::MAX, anything in between would depend on the wall clock;
//!           a number >= 2^62 - n, secs, max_checkpoints - is written [hi, lo] = hi * 2^32 + lo)
//!   damage (applied after the run to the newest checkpoint file of that run's pipeline id)
//!         = ["trunc", k] | ["set", bytes] | ["patch", offset, bytes] | ["xor", offset, mask]
//! out = [digests, listing0, [[outcome, plain outcome, chain length, listing, suggested|null, default], ..]]
//!   suggested = build_plan(..).suggested_partitions, default = Runner::default().default_partitions
//!   digests = [[string, {"bytes": sha256(string)}], ..] for the strings "<len>" and "<len>:<parts>"
//!             of every run (len = length of the real plan's chain)
//!   plain outcome = the same pipeline (same crash flag) run without checkpoint configuration
//!   listing = null (no directory) | entries sorted:
//!             ["ck", pid, rank, size, fields]  for `checkpoint_<16 hex>_<13-digit ms>.bin`, i.e. a file
//!                  written by a run; rank = dense rank of its timestamp among all timestamps seen in
//!                  this case; fields = ["ok", idx, node_type, total, exec_mode, parts] | ["bad"]
//!                  (what the real load_checkpoint says)
//!             ["raw", name, size]             every other file
//! kind "mgr": in = [enabled, policy, max_checkpoints|null, ops]: ONE real CheckpointManager (over a real
//! directory that exists) driven directly through its public entry points:
//!   op = ["calls", total, [idx, ..]]  should_checkpoint(idx, false, total) and (idx, true, total) for each idx
//!      | ["save", ts]                 save_checkpoint of a state with this timestamp (sets last_checkpoint_time)
//!      | ["last", null | ["rel", d] | ["abs", d]]   the public field last_checkpoint_time = None |
//!                                     Some(now + d seconds) | Some(UNIX_EPOCH + d seconds)   (d signed)
//! out = ["ok", [per op: [bool, ..] | "ok" | "err" | null], [[file name, size], ..]]   (a panic: ["panic"])
//! Every "hist" case is executed in a worker process (address space limited to 4 GiB): its death is the
//! outcome ["abort"], no answer within 30 s is ["hang"].
use ibv::engine::*;
use ibv::{Emitter, SplitMix64, Tier, drive};
use ironbeam::checkpoint::{
    CheckpointConfig, CheckpointManager, CheckpointMetadata, CheckpointPolicy, CheckpointState, compute_checksum,
};
use ironbeam::planner::build_plan;
use ironbeam::{ExecMode, PCollection, Pipeline, Runner};
use serde_json::{Value, json};
use std::io::{BufRead, BufReader, Write};
use std::panic::{AssertUnwindSafe, catch_unwind};
use std::path::{Path, PathBuf};
use std::process::{Child, ChildStdin, Command, Stdio};
use std::sync::atomic::{AtomicBool, Ordering};
use std::sync::mpsc::{Receiver, channel};
use std::sync::{Arc, Mutex};
use std::time::Duration;

const DIR: &str = "/verif/run/C11";

// ------------------------------------------------------------------ case syntax
#[derive(Clone, Debug)]
enum Damage {
    Trunc(usize),
    Set(Vec<u8>),
    Patch(usize, Vec<u8>),
    Xor(usize, u8),
}
#[derive(Clone, Debug)]
struct Cfg {
    enabled: bool,
    policy: CheckpointPolicy,
    max: Option<usize>,
    auto: bool,
}
#[derive(Clone, Debug)]
struct RunSpec {
    src: Src,
    pre: Option<Vec<Step>>,
    post: Vec<Step>,
    crash: bool,
    mode: Mode,
    /// Some(threads): Parallel { threads, partitions: None } (`mode` is then a placeholder)
    auto_parts: Option<Option<usize>>,
    cfg: Option<Cfg>,
    damage: Option<Damage>,
}
#[derive(Clone, Debug)]
enum NameSpec {
    Raw(String),
    Pid(usize, String),
    /// a VALID checkpoint of run r's pipeline id with this timestamp, written through the public
    /// CheckpointManager::save_checkpoint; the content bytes of the seed are replaced by the state
    State(usize, u64, StateSpec),
}
#[derive(Clone, Debug)]
struct StateSpec {
    idx: usize,
    parts: usize,
    /// usize::MAX is written "max" in the case (integers stay below 2^62)
    total: usize,
    ntype: String,
    mode: String,
    pct: u8,
}
type Seeds = Option<Vec<(NameSpec, Vec<u8>)>>;

type R<T> = Result<T, String>;

fn bytes_json(b: &[u8]) -> Value {
    json!({ "bytes": b })
}
fn parse_bytes(j: &Value) -> R<Vec<u8>> {
    // {"bytes":[..]} in a case file; a replayed / shrunk case may carry a plain array or string
    if let Some(a) = j.get("bytes").and_then(Value::as_array).or_else(|| j.as_array()) {
        return a
            .iter()
            .map(|b| b.as_u64().filter(|x| *x < 256).map(|x| x as u8).ok_or_else(|| "byte".to_string()))
            .collect();
    }
    j.as_str().map(|s| s.as_bytes().to_vec()).ok_or_else(|| "bytes".into())
}
/// a u64 / usize of any size: an integer below 2^62 as it is, a larger one as [hi, lo] = hi * 2^32 + lo
fn big_json(n: u64) -> Value {
    if n < 1 << 62 { json!(n) } else { json!([n >> 32, n & 0xffff_ffff]) }
}
fn parse_big(v: &Value) -> R<u64> {
    if let Some(n) = v.as_u64() {
        return if n < 1 << 62 { Ok(n) } else { Err("big".into()) };
    }
    let a = v.as_array().filter(|a| a.len() == 2).ok_or("big")?;
    let hi = a[0].as_u64().filter(|x| *x < 1 << 32).ok_or("big hi")?;
    let lo = a[1].as_u64().filter(|x| *x < 1 << 32).ok_or("big lo")?;
    Ok((hi << 32) | lo)
}
fn policy_json(p: &CheckpointPolicy) -> Value {
    match p {
        CheckpointPolicy::AfterEveryBarrier => json!(["barrier"]),
        CheckpointPolicy::EveryNNodes(n) => json!(["every", big_json(*n as u64)]),
        CheckpointPolicy::TimeInterval(s) => json!(["time", big_json(*s)]),
        CheckpointPolicy::Hybrid { barriers, interval_secs } => json!(["hybrid", barriers, big_json(*interval_secs)]),
    }
}
/// 0 or at least an hour, up to u64::MAX (anything in between would depend on the wall clock)
fn secs_ok(s: u64) -> R<u64> {
    if s == 0 || s >= 3600 { Ok(s) } else { Err("secs".into()) }
}
fn parse_policy(j: &Value) -> R<CheckpointPolicy> {
    let a = j.as_array().ok_or("policy")?;
    let tag = a.first().and_then(Value::as_str).ok_or("policy tag")?;
    Ok(match (tag, a.len()) {
        ("barrier", 1) => CheckpointPolicy::AfterEveryBarrier,
        ("every", 2) => CheckpointPolicy::EveryNNodes(parse_big(&a[1])? as usize),
        ("time", 2) => CheckpointPolicy::TimeInterval(secs_ok(parse_big(&a[1])?)?),
        ("hybrid", 3) => CheckpointPolicy::Hybrid {
            barriers: a[1].as_bool().ok_or("hybrid")?,
            interval_secs: secs_ok(parse_big(&a[2])?)?,
        },
        _ => return Err("policy".into()),
    })
}
fn cfg_json(c: &Option<Cfg>) -> Value {
    match c {
        None => Value::Null,
        Some(c) => json!([c.enabled, policy_json(&c.policy), c.max.map(|m| big_json(m as u64)), c.auto]),
    }
}
fn parse_cfg(j: &Value) -> R<Option<Cfg>> {
    if j.is_null() {
        return Ok(None);
    }
    let a = j.as_array().filter(|a| a.len() == 4).ok_or("cfg")?;
    Ok(Some(Cfg {
        enabled: a[0].as_bool().ok_or("enabled")?,
        policy: parse_policy(&a[1])?,
        max: if a[2].is_null() { None } else { Some(parse_big(&a[2])? as usize) },
        auto: a[3].as_bool().ok_or("auto")?,
    }))
}
fn damage_json(d: &Option<Damage>) -> Value {
    match d {
        None => Value::Null,
        Some(Damage::Trunc(k)) => json!(["trunc", k]),
        Some(Damage::Set(b)) => json!(["set", bytes_json(b)]),
        Some(Damage::Patch(o, b)) => json!(["patch", o, bytes_json(b)]),
        Some(Damage::Xor(o, m)) => json!(["xor", o, m]),
    }
}
fn parse_damage(j: &Value) -> R<Option<Damage>> {
    if j.is_null() {
        return Ok(None);
    }
    let a = j.as_array().ok_or("damage")?;
    let tag = a.first().and_then(Value::as_str).ok_or("damage tag")?;
    let small = |v: &Value| v.as_u64().filter(|n| *n < 1 << 20).map(|n| n as usize).ok_or("offset".to_string());
    Ok(Some(match (tag, a.len()) {
        ("trunc", 2) => Damage::Trunc(small(&a[1])?),
        ("set", 2) => Damage::Set(parse_bytes(&a[1])?),
        ("patch", 3) => Damage::Patch(small(&a[1])?, parse_bytes(&a[2])?),
        ("xor", 3) => Damage::Xor(small(&a[1])?, a[2].as_u64().filter(|m| *m < 256).ok_or("mask")? as u8),
        _ => return Err("damage".into()),
    }))
}
fn mode_json(m: Mode) -> Value {
    match m {
        Mode::Seq => Value::Null,
        Mode::Par(n) => json!(n),
    }
}
fn run_json(r: &RunSpec) -> Value {
    json!([
        src_json(&r.src),
        r.pre.as_ref().map(|p| steps_json(p)),
        steps_json(&r.post),
        r.crash,
        match r.auto_parts {
            Some(t) => json!(["par", t]),
            None => mode_json(r.mode),
        },
        cfg_json(&r.cfg),
        damage_json(&r.damage)
    ])
}
fn parse_run(j: &Value) -> R<RunSpec> {
    let a = j.as_array().filter(|a| a.len() == 7).ok_or("run")?;
    let r = RunSpec {
        src: parse_src(&a[0])?,
        pre: if a[1].is_null() { None } else { Some(parse_steps(&a[1])?) },
        post: parse_steps(&a[2])?,
        crash: a[3].as_bool().ok_or("crash")?,
        mode: if a[4].is_array() { Mode::Par(0) } else { parse_mode(&a[4])? },
        auto_parts: match a[4].as_array() {
            None => None,
            Some(m) => {
                if m.len() != 2 || m[0].as_str() != Some("par") {
                    return Err("mode".into());
                }
                Some(if m[1].is_null() {
                    None
                } else {
                    Some(m[1].as_u64().filter(|t| (1..=64).contains(t)).ok_or("threads")? as usize)
                })
            }
        },
        cfg: parse_cfg(&a[5])?,
        damage: parse_damage(&a[6])?,
    };
    if let Mode::Par(n) = r.mode {
        if n > 1 << 20 {
            return Err("partitions".into());
        }
    }
    if r.src.shape() == Shape::KG && matches!(r.src, Src::Sharded(..)) {
        return Err("source".into());
    }
    let mut all = r.pre.clone().unwrap_or_default();
    all.extend(r.post.iter().cloned());
    steps_shape(&all, r.src.shape())?;
    Ok(r)
}
fn seeds_json(s: &Seeds) -> Value {
    match s {
        None => Value::Null,
        Some(v) => Value::Array(
            v.iter()
                .map(|(n, b)| {
                    let n = match n {
                        NameSpec::Raw(s) => json!(["raw", s]),
                        NameSpec::Pid(r, s) => json!(["pid", r, s]),
                        NameSpec::State(r, ts, st) => {
                            let total = if st.total == usize::MAX { json!("max") } else { json!(st.total) };
                            return json!([["state", r, ts], [st.idx, st.parts, total, st.ntype, st.mode, st.pct]]);
                        }
                    };
                    json!([n, bytes_json(b)])
                })
                .collect(),
        ),
    }
}
fn name_text_ok(s: &str) -> bool {
    !s.is_empty() && s.len() < 120 && s.bytes().all(|b| (0x20..0x7f).contains(&b) && b != b'/' && b != b'"' && b != b'\\')
}
fn parse_seeds(j: &Value, nruns: usize) -> R<Seeds> {
    if j.is_null() {
        return Ok(None);
    }
    let mut out = vec![];
    for e in j.as_array().ok_or("seeds")? {
        let e = e.as_array().filter(|e| e.len() == 2).ok_or("seed")?;
        let n = e[0].as_array().ok_or("seed name")?;
        let spec = match (n.first().and_then(Value::as_str), n.len()) {
            (Some("raw"), 2) => {
                let s = n[1].as_str().filter(|s| name_text_ok(s) && *s != "." && *s != "..").ok_or("raw name")?;
                NameSpec::Raw(s.to_string())
            }
            (Some("pid"), 3) => {
                let r = n[1].as_u64().filter(|r| (*r as usize) < nruns).ok_or("seed run")? as usize;
                let s = n[2].as_str().filter(|s| name_text_ok(s)).ok_or("suffix")?;
                NameSpec::Pid(r, s.to_string())
            }
            (Some("state"), 3) => {
                let r = n[1].as_u64().filter(|r| (*r as usize) < nruns).ok_or("seed run")? as usize;
                // a 13-digit timestamp, like the ones a run writes
                let ts = n[2].as_u64().filter(|t| (1_000_000_000_000..10_000_000_000_000).contains(t)).ok_or("ts")?;
                let f = e[1].as_array().filter(|f| f.len() == 6).ok_or("state fields")?;
                let num = |v: &Value| v.as_u64().filter(|x| *x < 1 << 40).map(|x| x as usize).ok_or("field".to_string());
                // any UTF-8 text up to 4 KiB (a non-ASCII string comes back as a JSON string too)
                let text = |v: &Value| v.as_str().filter(|s| s.len() <= 4096).map(String::from).ok_or("text".to_string());
                let st = StateSpec {
                    idx: num(&f[0])?,
                    parts: num(&f[1])?,
                    total: if f[2].as_str() == Some("max") { usize::MAX } else { num(&f[2])? },
                    ntype: text(&f[3])?,
                    mode: text(&f[4])?,
                    pct: f[5].as_u64().filter(|x| *x < 256).ok_or("pct")? as u8,
                };
                out.push((NameSpec::State(r, ts, st), vec![]));
                continue;
            }
            _ => return Err("seed spec".into()),
        };
        out.push((spec, parse_bytes(&e[1])?));
    }
    Ok(Some(out))
}
fn case_json(seeds: &Seeds, runs: &[RunSpec]) -> Value {
    json!([seeds_json(seeds), runs.iter().map(run_json).collect::<Vec<_>>()])
}
fn parse_case(input: &Value) -> R<(Seeds, Vec<RunSpec>)> {
    let a = input.as_array().filter(|a| a.len() == 2).ok_or("case")?;
    let runs: Vec<RunSpec> = a[1].as_array().ok_or("runs")?.iter().map(parse_run).collect::<R<_>>()?;
    if runs.is_empty() || runs.len() > 6 {
        return Err("runs".into());
    }
    Ok((parse_seeds(&a[0], runs.len())?, runs))
}

// ------------------------------------------------------------------ building and running one run
fn inj<T: Row>(c: PCollection<T>, flag: Arc<AtomicBool>) -> PCollection<T> {
    c.map(move |r: &T| {
        if flag.load(Ordering::SeqCst) {
            panic!("injected crash");
        }
        r.clone()
    })
}
fn inject(c: Coll, flag: Arc<AtomicBool>) -> Coll {
    match c {
        Coll::U(c) => Coll::U(inj(c, flag)),
        Coll::KV(c) => Coll::KV(inj(c, flag)),
        Coll::KG(c) => Coll::KG(inj(c, flag)),
        Coll::KW(c) => Coll::KW(inj(c, flag)),
        Coll::L(c) => Coll::L(inj(c, flag)),
    }
}
fn build_run(p: &Pipeline, r: &RunSpec, flag: &Arc<AtomicBool>, srcdir: &str) -> R<Built> {
    match &r.pre {
        None => build(p, &r.src, &r.post, srcdir),
        Some(pre) => {
            let b = build(p, &r.src, pre, srcdir)?;
            let c = inject(b.coll, flag.clone());
            Ok(Built { coll: apply_steps(p, c, &r.post)?, file: b.file })
        }
    }
}
fn node_of(c: &Coll) -> ironbeam::NodeId {
    match c {
        Coll::U(c) => c.node_id(),
        Coll::KV(c) => c.node_id(),
        Coll::KG(c) => c.node_id(),
        Coll::KW(c) => c.node_id(),
        Coll::L(c) => c.node_id(),
    }
}
fn collect_with(p: &Pipeline, c: &Coll, runner: &Runner) -> Value {
    let id = node_of(c);
    catch_unwind(AssertUnwindSafe(|| match c {
        Coll::U(_) => rows_json(runner.run_collect::<Val>(p, id)),
        Coll::KV(_) => rows_json(runner.run_collect::<(Val, Val)>(p, id)),
        Coll::KG(_) => rows_json(runner.run_collect::<(Val, Vec<Val>)>(p, id)),
        Coll::KW(_) => rows_json(runner.run_collect::<(Val, Wrapped)>(p, id)),
        Coll::L(_) => rows_json(runner.run_collect::<Vec<Val>>(p, id)),
    }))
    .unwrap_or_else(|_| json!(["panic"]))
}
fn exec_mode(r: &RunSpec) -> ExecMode {
    if let Some(t) = r.auto_parts {
        return ExecMode::Parallel { threads: t, partitions: None };
    }
    match r.mode {
        Mode::Seq => ExecMode::Sequential,
        Mode::Par(n) => ExecMode::Parallel { threads: threads(), partitions: Some(n) },
    }
}
/// the mode with the partition count the runner resolves: partitions.or(suggested).unwrap_or(default)
fn resolved_mode(r: &RunSpec, suggested: Option<usize>) -> Mode {
    match r.auto_parts {
        Some(_) => Mode::Par(suggested.unwrap_or(Runner::default().default_partitions)),
        None => r.mode,
    }
}
/// (outcome, chain length) of one real run; `ck` = checkpoint configuration or None
fn run_once(r: &RunSpec, ck: Option<CheckpointConfig>, srcdir: &str) -> R<(Value, usize)> {
    let flag = Arc::new(AtomicBool::new(r.crash));
    let p = Pipeline::default();
    let built = build_run(&p, r, &flag, srcdir)?;
    let len = build_plan(&p, node_of(&built.coll)).map(|pl| pl.chain.len()).map_err(|e| e.to_string());
    let runner = Runner { mode: exec_mode(r), checkpoint_config: ck, ..Default::default() };
    let out = collect_with(&p, &built.coll, &runner);
    if let Some(f) = built.file {
        let _ = std::fs::remove_file(f);
    }
    Ok((out, len?))
}

fn pid_of(s: &str) -> String {
    compute_checksum(s.as_bytes())[..16].to_string()
}
fn pid_string(len: usize, m: Mode) -> String {
    match m {
        Mode::Seq => format!("{len}"),
        Mode::Par(n) => format!("{len}:{n}"),
    }
}
fn unhex(s: &str) -> Vec<u8> {
    (0..s.len() / 2).map(|i| u8::from_str_radix(&s[2 * i..2 * i + 2], 16).unwrap()).collect()
}

// ------------------------------------------------------------------ directory listing
struct Entry {
    name: String,
    size: u64,
    /// (pid, timestamp) for a run-written name
    ck: Option<(String, u64)>,
    fields: Value,
}
fn ck_name(name: &str) -> Option<(String, u64)> {
    let mid = name.strip_prefix("checkpoint_")?.strip_suffix(".bin")?;
    let (pid, ts) = mid.rsplit_once('_')?;
    if pid.len() != 16 || !pid.bytes().all(|b| b.is_ascii_digit() || (b'a'..=b'f').contains(&b)) {
        return None;
    }
    if ts.len() != 13 || !ts.bytes().all(|b| b.is_ascii_digit()) || ts.starts_with('0') {
        return None;
    }
    Some((pid.to_string(), ts.parse().ok()?))
}
fn listing(ck: &Path) -> Option<Vec<Entry>> {
    let rd = std::fs::read_dir(ck).ok()?;
    let mgr = CheckpointManager::new(CheckpointConfig {
        enabled: false,
        directory: ck.to_path_buf(),
        policy: CheckpointPolicy::AfterEveryBarrier,
        auto_recover: false,
        max_checkpoints: None,
    })
    .ok()?;
    let mut out = vec![];
    for e in rd {
        let e = e.ok()?;
        let name = e.file_name().to_str()?.to_string();
        let size = e.metadata().ok()?.len();
        let ckn = ck_name(&name);
        let fields = if ckn.is_some() {
            match mgr.load_checkpoint(&e.path()) {
                Ok(s) => json!(["ok", s.completed_node_index, s.metadata.last_node_type, s.metadata.total_nodes,
                                s.exec_mode, s.partition_count]),
                Err(_) => json!(["bad"]),
            }
        } else {
            Value::Null
        };
        out.push(Entry { name, size, ck: ckn, fields });
    }
    Some(out)
}
fn listing_json(l: &Option<Vec<Entry>>, all_ts: &[u64]) -> Value {
    let Some(l) = l else { return Value::Null };
    let mut raws: Vec<(String, u64)> = vec![];
    let mut cks: Vec<(usize, String, u64, Value)> = vec![];
    for e in l {
        match &e.ck {
            None => raws.push((e.name.clone(), e.size)),
            Some((pid, ts)) => {
                let rank = all_ts.iter().position(|t| t == ts).unwrap() + 1;
                cks.push((rank, pid.clone(), e.size, e.fields.clone()));
            }
        }
    }
    raws.sort();
    cks.sort_by(|a, b| (a.0, &a.1).cmp(&(b.0, &b.1)));
    let mut out: Vec<Value> = cks.into_iter().map(|(r, p, s, f)| json!(["ck", p, r, s, f])).collect();
    out.extend(raws.into_iter().map(|(n, s)| json!(["raw", n, s])));
    Value::Array(out)
}

fn apply_damage(ck: &Path, pid: &str, d: &Damage) {
    if !ck.is_dir() {
        return;
    }
    let Ok(mgr) = CheckpointManager::new(CheckpointConfig {
        enabled: true,
        directory: ck.to_path_buf(),
        policy: CheckpointPolicy::AfterEveryBarrier,
        auto_recover: false,
        max_checkpoints: None,
    }) else {
        return;
    };
    let Ok(Some(path)) = mgr.find_latest_checkpoint(pid) else { return };
    let Ok(old) = std::fs::read(&path) else { return };
    let new = match d {
        Damage::Trunc(k) => old[..(*k).min(old.len())].to_vec(),
        Damage::Set(b) => b.clone(),
        Damage::Patch(off, b) => {
            let mut v = old.clone();
            for (i, x) in b.iter().enumerate() {
                if off + i < v.len() {
                    v[off + i] = *x;
                }
            }
            v
        }
        Damage::Xor(off, m) => {
            let mut v = old.clone();
            if *off < v.len() {
                v[*off] ^= *m;
            }
            v
        }
    };
    let _ = std::fs::write(&path, new);
}

// ------------------------------------------------------------------ one case (inside the worker)
fn run_case(input: &Value) -> Value {
    let Ok((seeds, runs)) = parse_case(input) else { return json!(["invalid"]) };
    let base = PathBuf::from(format!("{DIR}/w{}", std::process::id()));
    let _ = std::fs::remove_dir_all(&base);
    let ck = base.join("ck");
    let srcdir = base.join("src");
    if std::fs::create_dir_all(&srcdir).is_err() {
        return json!(["invalid"]);
    }
    let srcdir_s = srcdir.to_str().unwrap().to_string();
    let out = (|| -> R<Value> {
        // chain lengths first: the seeds refer to pipeline ids
        let mut lens = vec![];
        let mut sugg = vec![];
        for r in &runs {
            let flag = Arc::new(AtomicBool::new(false));
            let p = Pipeline::default();
            let b = build_run(&p, r, &flag, &srcdir_s)?;
            let plan = build_plan(&p, node_of(&b.coll)).map_err(|e| e.to_string())?;
            if let Some(f) = b.file {
                let _ = std::fs::remove_file(f);
            }
            lens.push(plan.chain.len());
            sugg.push(plan.suggested_partitions);
        }
        let rmodes: Vec<Mode> = runs.iter().zip(&sugg).map(|(r, s)| resolved_mode(r, *s)).collect();
        let pids: Vec<String> = rmodes.iter().zip(&lens).map(|(m, l)| pid_of(&pid_string(*l, *m))).collect();
        let mut digests: Vec<Value> = vec![];
        let mut seen: Vec<String> = vec![];
        for (m, l) in rmodes.iter().zip(&lens) {
            let mut strs = vec![format!("{l}")];
            if let Mode::Par(n) = *m {
                strs.push(format!("{l}:{n}"));
            }
            for s in strs {
                if !seen.contains(&s) {
                    digests.push(json!([s, bytes_json(&unhex(&compute_checksum(s.as_bytes())))]));
                    seen.push(s);
                }
            }
        }
        if let Some(seeds) = &seeds {
            std::fs::create_dir_all(&ck).map_err(|e| e.to_string())?;
            for (spec, content) in seeds {
                let name = match spec {
                    NameSpec::Raw(s) => s.clone(),
                    NameSpec::Pid(r, suffix) => format!("checkpoint_{}_{}", pids[*r], suffix),
                    NameSpec::State(r, ts, st) => {
                        let pid = pids[*r].clone();
                        let meta = format!("{pid}:{}:{ts}:{}", st.idx, st.parts);
                        let state = CheckpointState {
                            pipeline_id: pid,
                            completed_node_index: st.idx,
                            timestamp: *ts,
                            partition_count: st.parts,
                            checksum: compute_checksum(meta.as_bytes()),
                            exec_mode: st.mode.clone(),
                            metadata: CheckpointMetadata {
                                total_nodes: st.total,
                                last_node_type: st.ntype.clone(),
                                progress_percent: st.pct,
                            },
                        };
                        let mut mgr = CheckpointManager::new(CheckpointConfig {
                            enabled: true,
                            directory: ck.clone(),
                            policy: CheckpointPolicy::AfterEveryBarrier,
                            auto_recover: false,
                            max_checkpoints: None,
                        })
                        .map_err(|e| e.to_string())?;
                        mgr.save_checkpoint(&state).map_err(|e| e.to_string())?;
                        continue;
                    }
                };
                std::fs::write(ck.join(name), content).map_err(|e| e.to_string())?;
            }
        }
        let mut listings = vec![listing(&ck)];
        let mut obs = vec![];
        for (i, r) in runs.iter().enumerate() {
            // a later run must not share a millisecond with an earlier one
            std::thread::sleep(Duration::from_millis(2));
            let cfg = r.cfg.as_ref().map(|c| CheckpointConfig {
                enabled: c.enabled,
                directory: ck.clone(),
                policy: c.policy,
                auto_recover: c.auto,
                max_checkpoints: c.max,
            });
            let (o, len) = run_once(r, cfg, &srcdir_s)?;
            let l = listing(&ck);
            let (plain, _) = run_once(r, None, &srcdir_s)?;
            if let Some(d) = &r.damage {
                apply_damage(&ck, &pids[i], d);
            }
            obs.push((o, plain, len));
            listings.push(l);
        }
        let mut all_ts: Vec<u64> =
            listings.iter().flatten().flatten().filter_map(|e| e.ck.as_ref().map(|c| c.1)).collect();
        all_ts.sort_unstable();
        all_ts.dedup();
        let runs_obs: Vec<Value> = obs
            .into_iter()
            .enumerate()
            .map(|(i, (o, plain, len))| {
                json!([o, plain, len, listing_json(&listings[i + 1], &all_ts), sugg[i],
                       Runner::default().default_partitions])
            })
            .collect();
        Ok(json!([digests, listing_json(&listings[0], &all_ts), runs_obs]))
    })();
    let _ = std::fs::remove_dir_all(&base);
    out.unwrap_or_else(|_| json!(["invalid"]))
}


// ------------------------------------------------------------------ kind "mgr": the manager directly
// in = [enabled, policy, max|null, ops]; one real CheckpointManager over a real directory (see the header)
#[derive(Clone, Debug)]
enum LastSpec {
    /// last_checkpoint_time = None
    Nothing,
    /// Some(SystemTime::now() + d seconds) (d may be negative)
    Rel(i64),
    /// Some(UNIX_EPOCH + s seconds) (s may be negative)
    Abs(i64),
}
#[derive(Clone, Debug)]
enum MOp {
    /// should_checkpoint(idx, false, total) and should_checkpoint(idx, true, total) for every idx
    Calls(usize, Vec<usize>),
    /// save_checkpoint of a state with this timestamp
    Save(u64),
    Last(LastSpec),
}
const MGR_PID: &str = "00000000000000aa";

fn signed_json(d: i64) -> Value {
    json!(d)
}
fn mop_json(o: &MOp) -> Value {
    match o {
        MOp::Calls(total, idxs) => {
            json!(["calls", big_json(*total as u64), idxs.iter().map(|i| big_json(*i as u64)).collect::<Vec<_>>()])
        }
        MOp::Save(ts) => json!(["save", big_json(*ts)]),
        MOp::Last(LastSpec::Nothing) => json!(["last", null]),
        MOp::Last(LastSpec::Rel(d)) => json!(["last", ["rel", signed_json(*d)]]),
        MOp::Last(LastSpec::Abs(d)) => json!(["last", ["abs", signed_json(*d)]]),
    }
}
fn parse_mop(j: &Value) -> R<MOp> {
    let a = j.as_array().ok_or("op")?;
    let tag = a.first().and_then(Value::as_str).ok_or("op tag")?;
    Ok(match (tag, a.len()) {
        ("calls", 3) => {
            let idxs = a[2].as_array().filter(|l| l.len() <= 4096).ok_or("idxs")?;
            MOp::Calls(parse_big(&a[1])? as usize, idxs.iter().map(|v| parse_big(v).map(|x| x as usize)).collect::<R<_>>()?)
        }
        ("save", 2) => MOp::Save(parse_big(&a[1])?),
        ("last", 2) => {
            if a[1].is_null() {
                MOp::Last(LastSpec::Nothing)
            } else {
                let l = a[1].as_array().filter(|l| l.len() == 2).ok_or("last")?;
                let d = l[1].as_i64().filter(|d| d.unsigned_abs() < 1 << 62).ok_or("last offset")?;
                match l[0].as_str() {
                    Some("rel") => MOp::Last(LastSpec::Rel(d)),
                    Some("abs") => MOp::Last(LastSpec::Abs(d)),
                    _ => return Err("last".into()),
                }
            }
        }
        _ => return Err("op".into()),
    })
}
fn mgr_case_json(enabled: bool, policy: &CheckpointPolicy, max: Option<usize>, ops: &[MOp]) -> Value {
    json!([enabled, policy_json(policy), max.map(|m| big_json(m as u64)), ops.iter().map(mop_json).collect::<Vec<_>>()])
}
fn parse_mgr_case(input: &Value) -> R<(bool, CheckpointPolicy, Option<usize>, Vec<MOp>)> {
    let a = input.as_array().filter(|a| a.len() == 4).ok_or("mgr case")?;
    let ops: Vec<MOp> = a[3].as_array().filter(|o| o.len() <= 64).ok_or("ops")?.iter().map(parse_mop).collect::<R<_>>()?;
    Ok((
        a[0].as_bool().ok_or("enabled")?,
        parse_policy(&a[1])?,
        if a[2].is_null() { None } else { Some(parse_big(&a[2])? as usize) },
        ops,
    ))
}
fn shift(base: std::time::SystemTime, d: i64) -> Option<std::time::SystemTime> {
    let dur = Duration::from_secs(d.unsigned_abs());
    if d >= 0 { base.checked_add(dur) } else { base.checked_sub(dur) }
}
/// out = ["ok", [per op: [bool, ..] | "ok" | "err" | null], [[file name, size], ..] sorted]
fn run_mgr(input: &Value) -> Value {
    let Ok((enabled, policy, max, ops)) = parse_mgr_case(input) else { return json!(["invalid"]) };
    let base = PathBuf::from(format!("{DIR}/m{}", std::process::id()));
    let _ = std::fs::remove_dir_all(&base);
    // the directory exists in every case (a disabled manager does not create it)
    if std::fs::create_dir_all(&base).is_err() {
        return json!(["invalid"]);
    }
    let res = catch_unwind(AssertUnwindSafe(|| -> R<Value> {
        let mut mgr = CheckpointManager::new(CheckpointConfig {
            enabled,
            directory: base.clone(),
            policy,
            auto_recover: false,
            max_checkpoints: max,
        })
        .map_err(|e| e.to_string())?;
        let mut outs: Vec<Value> = vec![];
        for (k, op) in ops.iter().enumerate() {
            match op {
                MOp::Calls(total, idxs) => {
                    let mut v = vec![];
                    for i in idxs {
                        v.push(mgr.should_checkpoint(*i, false, *total));
                        v.push(mgr.should_checkpoint(*i, true, *total));
                    }
                    outs.push(json!(v));
                }
                MOp::Save(ts) => {
                    let meta = format!("{MGR_PID}:{k}:{ts}:1");
                    let state = CheckpointState {
                        pipeline_id: MGR_PID.into(),
                        completed_node_index: k,
                        timestamp: *ts,
                        partition_count: 1,
                        checksum: compute_checksum(meta.as_bytes()),
                        exec_mode: "sequential".into(),
                        metadata: CheckpointMetadata { total_nodes: 1, last_node_type: "Stateless".into(), progress_percent: 0 },
                    };
                    outs.push(json!(if mgr.save_checkpoint(&state).is_ok() { "ok" } else { "err" }));
                }
                MOp::Last(l) => {
                    mgr.last_checkpoint_time = match l {
                        LastSpec::Nothing => None,
                        LastSpec::Rel(d) => Some(shift(std::time::SystemTime::now(), *d).ok_or("time")?),
                        LastSpec::Abs(d) => Some(shift(std::time::UNIX_EPOCH, *d).ok_or("time")?),
                    };
                    outs.push(Value::Null);
                }
            }
        }
        let mut files: Vec<(String, u64)> = vec![];
        for e in std::fs::read_dir(&base).map_err(|e| e.to_string())? {
            let e = e.map_err(|e| e.to_string())?;
            files.push((e.file_name().to_str().ok_or("name")?.to_string(), e.metadata().map_err(|e| e.to_string())?.len()));
        }
        files.sort();
        Ok(json!(["ok", outs, files.into_iter().map(|(n, s)| json!([n, s])).collect::<Vec<_>>()]))
    }));
    let _ = std::fs::remove_dir_all(&base);
    match res {
        Ok(Ok(v)) => v,
        Ok(Err(_)) => json!(["invalid"]),
        Err(_) => json!(["panic"]),
    }
}

// ------------------------------------------------------------------ worker process
fn worker_main() {
    std::panic::set_hook(Box::new(|_| {}));
    let stdin = std::io::stdin();
    let mut out = std::io::stdout();
    for line in stdin.lock().lines() {
        let Ok(line) = line else { break };
        let r = match serde_json::from_str::<Value>(&line) {
            Ok(input) => catch_unwind(AssertUnwindSafe(|| run_case(&input))).unwrap_or_else(|_| json!(["panic"])),
            Err(_) => json!(["invalid"]),
        };
        writeln!(out, "{r}").unwrap();
        out.flush().unwrap();
    }
}
struct Worker {
    child: Child,
    stdin: ChildStdin,
    rx: Receiver<String>,
}
static WORKER: Mutex<Option<Worker>> = Mutex::new(None);
fn spawn_worker() -> Worker {
    let exe = std::env::current_exe().unwrap();
    let mut args = String::new();
    if let Some(t) = threads() {
        args = format!(" --opt threads={t}");
    }
    let mut child = Command::new("sh")
        .arg("-c")
        .arg(format!("ulimit -v 4194304; exec \"$0\" --c11-worker{args}"))
        .arg(&exe)
        .stdin(Stdio::piped())
        .stdout(Stdio::piped())
        .stderr(Stdio::null())
        .spawn()
        .expect("spawn worker");
    let stdin = child.stdin.take().unwrap();
    let stdout = child.stdout.take().unwrap();
    let (tx, rx) = channel();
    std::thread::spawn(move || {
        for line in BufReader::new(stdout).lines() {
            match line {
                Ok(l) => {
                    if tx.send(l).is_err() {
                        break;
                    }
                }
                Err(_) => break,
            }
        }
    });
    Worker { child, stdin, rx }
}
fn in_worker(input: &Value) -> Value {
    let mut guard = WORKER.lock().unwrap();
    if guard.is_none() {
        *guard = Some(spawn_worker());
    }
    let w = guard.as_mut().unwrap();
    let sent = writeln!(w.stdin, "{input}").and_then(|_| w.stdin.flush());
    let res = if sent.is_err() {
        None
    } else {
        match w.rx.recv_timeout(Duration::from_secs(30)) {
            Ok(l) => Some(serde_json::from_str::<Value>(&l).unwrap_or(json!(["abort"]))),
            Err(std::sync::mpsc::RecvTimeoutError::Timeout) => Some(json!(["hang"])),
            Err(_) => None,
        }
    };
    match res {
        Some(v) if v != json!(["hang"]) => v,
        other => {
            let mut w = guard.take().unwrap();
            let _ = w.child.kill();
            let _ = w.child.wait();
            let _ = std::fs::remove_dir_all(format!("{DIR}/w{}", w.child.id()));
            other.unwrap_or(json!(["abort"]))
        }
    }
}
fn shutdown_worker() {
    if let Some(mut w) = WORKER.lock().unwrap().take() {
        drop(w.stdin);
        let _ = w.child.wait();
    }
}

fn run(kind: &str, input: &Value) -> Value {
    match kind {
        "hist" => {
            if parse_case(input).is_err() {
                return json!(["invalid"]);
            }
            in_worker(input)
        }
        "mgr" => run_mgr(input),
        _ => json!(["invalid"]),
    }
}

// ------------------------------------------------------------------ generator
fn bx<T>(x: T) -> Box<T> {
    Box::new(x)
}
fn kv(k: i64, v: i64) -> Val {
    pair(Val::Int(k), Val::Int(v))
}
fn right_rows() -> Vec<Val> {
    vec![kv(0, 5), kv(1, 6), kv(1, 7), kv(9, 8)]
}

/// the fixed programs of the sweeps: (source, steps)
fn sweep_programs() -> Vec<(Src, Vec<Step>)> {
    let u: Vec<Val> = [3, -1, 4, 1, -5, 9, 2, 6].iter().map(|x| Val::Int(*x)).collect();
    let k: Vec<Val> = vec![kv(0, 3), kv(1, 4), kv(0, 5), kv(2, -1), kv(1, 7), kv(0, 2)];
    vec![
        // 0: stateless only (one fused node)
        (Src::Vec(Shape::U, u.clone()), vec![
            Step::Map(EFun::Add(1)),
            Step::Filter(PFun::Not(bx(PFun::ModEq(3, 0)))),
            Step::FlatMap(GFun::UpTo(3)),
        ]),
        // 1: keyed barriers (group_by_key + lifted combine: the planner lifts), then values
        (Src::Vec(Shape::KV, k.clone()), vec![
            Step::MapValues(EFun::Add(2)),
            Step::GroupByKey,
            Step::CombineValuesLifted(Cid::Sum),
            Step::MapValues(EFun::Mul(3)),
            Step::CombineValues(Cid::Max),
        ]),
        // 2: global combine with fan-out, distinct
        (Src::Vec(Shape::U, u.clone()), vec![
            Step::Map(EFun::Mod(4)),
            Step::Distinct,
            Step::CombineGlobally(Cid::Sum, false, Some(2)),
            Step::Map(EFun::Add(10)),
        ]),
        // 3: join (the old defect: sequential checkpointing of a join)
        (Src::Vec(Shape::KV, k.clone()), vec![
            Step::MapValues(EFun::Add(1)),
            Step::Join(JoinKind::Left, vec![Step::GroupByKey, Step::CombineValuesLifted(Cid::Count)], right_rows()),
            Step::FilterValues(PFun::True),
            Step::GroupByKey,
        ]),
        // 4: a join fed by a join: Err "nested CoGroup" in every engine
        (Src::Vec(Shape::KV, k.clone()), vec![
            Step::Join(JoinKind::Inner, vec![], right_rows()),
            Step::Join(JoinKind::Full, vec![], right_rows()),
        ]),
        // 5: long chain of alternating barriers and element-wise steps
        (Src::Vec(Shape::U, u), vec![
            Step::KeyBy(EFun::Mod(3)),
            Step::GroupByKey,
            Step::FlatMap(GFun::Elems),
            Step::CombineValues(Cid::Sum),
            Step::Unkey,
            Step::Map(EFun::Snd),
            Step::CombineGlobally(Cid::Sum, true, None),
            Step::Map(EFun::Dup),
            Step::KeyBy(EFun::Fst),
            Step::CombineValues(Cid::Count),
        ]),
        // 6: empty input through barriers
        (Src::Vec(Shape::KV, vec![]), vec![Step::GroupByKey, Step::CombineValuesLifted(Cid::Sum)]),
    ]
}
fn policies() -> Vec<CheckpointPolicy> {
    use CheckpointPolicy::*;
    vec![
        AfterEveryBarrier,
        EveryNNodes(0),
        EveryNNodes(1),
        EveryNNodes(2),
        EveryNNodes(3),
        EveryNNodes(4),
        TimeInterval(0),
        TimeInterval(3600),
        Hybrid { barriers: true, interval_secs: 0 },
        Hybrid { barriers: false, interval_secs: 0 },
        Hybrid { barriers: true, interval_secs: 3600 },
        Hybrid { barriers: false, interval_secs: 3600 },
    ]
}

/// interval lengths in seconds: 0, ordinary ones (an hour and more), every power of two from 2^12 with both
/// neighbours, the places where seconds -> millis / micros / nanos conversions and `SystemTime + interval`
/// (i64 seconds) overflow, u64::MAX
fn extreme_secs() -> Vec<u64> {
    let mut v: Vec<u64> = vec![0, 3600, 3601, 86_400, 31_536_000];
    for k in 12..64u32 {
        v.extend([(1u64 << k) - 1, 1u64 << k, (1u64 << k) + 1]);
    }
    let i = i64::MAX as u64;
    v.extend([u64::MAX, u64::MAX - 1, i - 1, i + 2, i - 1_000_000_000, i - 1_700_000_000, i - 2_200_000_000,
              i - 4_000_000_000]);
    for d in [1000u64, 1_000_000, 1_000_000_000] {
        v.extend([u64::MAX / d, u64::MAX / d + 1, i / d, i / d + 1]);
    }
    v.sort_unstable();
    v.dedup();
    v
}
/// counts (EveryNNodes, max_checkpoints, node indices): 0..=20, every power of two from 2^5 with both
/// neighbours, usize::MAX
fn extreme_sizes() -> Vec<usize> {
    let mut v: Vec<usize> = (0..=20).collect();
    for k in 5..64u32 {
        v.extend([(1usize << k) - 1, 1usize << k, (1usize << k) + 1]);
    }
    v.extend([usize::MAX, usize::MAX - 1]);
    v.sort_unstable();
    v.dedup();
    v
}
/// the values most likely to break arithmetic, used in full products
fn core_secs() -> Vec<u64> {
    vec![u64::MAX, 1 << 63, i64::MAX as u64, i64::MAX as u64 - 1_000_000_000, u64::MAX / 1000 + 1, 1 << 32, 86_400]
}
fn extreme_policies() -> Vec<CheckpointPolicy> {
    use CheckpointPolicy::*;
    let mut v = vec![];
    for s in extreme_secs() {
        v.push(TimeInterval(s));
        v.push(Hybrid { barriers: true, interval_secs: s });
        v.push(Hybrid { barriers: false, interval_secs: s });
    }
    for n in extreme_sizes() {
        v.push(EveryNNodes(n));
    }
    v
}
const MAXES: [Option<usize>; 4] = [None, Some(0), Some(1), Some(3)];
const MODES: [Mode; 4] = [Mode::Seq, Mode::Par(3), Mode::Par(1), Mode::Par(0)];

fn mk_run(src: &Src, steps: &[Step], k: Option<usize>, crash: bool, mode: Mode, cfg: Option<Cfg>,
          damage: Option<Damage>) -> RunSpec {
    match k {
        None => RunSpec { src: src.clone(), pre: None, post: steps.to_vec(), crash, mode, auto_parts: None, cfg, damage },
        Some(k) => RunSpec {
            src: src.clone(),
            pre: Some(steps[..k].to_vec()),
            post: steps[k..].to_vec(),
            crash,
            mode,
            auto_parts: None,
            cfg,
            damage,
        },
    }
}
fn auto(mut r: RunSpec, threads: Option<usize>) -> RunSpec {
    r.mode = Mode::Par(0);
    r.auto_parts = Some(threads);
    r
}
fn cfg(policy: CheckpointPolicy, max: Option<usize>, auto: bool) -> Option<Cfg> {
    Some(Cfg { enabled: true, policy, max, auto })
}

fn emit(em: &mut Emitter, seeds: &Seeds, runs: &[RunSpec], tags: &[&str]) {
    let enabled = runs.iter().filter(|r| r.cfg.as_ref().is_some_and(|c| c.enabled)).count();
    let pid_seeds = seeds
        .as_ref()
        .is_some_and(|s| s.iter().any(|(n, _)| matches!(n, NameSpec::Pid(..) | NameSpec::State(..))));
    let nontrivial = enabled >= 1 && (runs.len() >= 2 || pid_seeds);
    let mut t: Vec<String> = tags.iter().map(|s| s.to_string()).collect();
    let last = runs.last().unwrap();
    t.push(match last.mode { Mode::Seq => "seq".into(), Mode::Par(_) => "par".into() });
    if runs.iter().any(|r| r.auto_parts.is_some()) {
        t.push("partitions-none".into());
    }
    if runs.iter().any(|r| r.crash) {
        t.push("crash".into());
    }
    if runs.iter().any(|r| r.damage.is_some()) {
        t.push("damage".into());
    }
    if runs.iter().any(|r| r.post.iter().chain(r.pre.iter().flatten()).any(is_join)) {
        t.push("join".into());
    }
    if seeds.is_some() {
        t.push("seeded".into());
    }
    if let Some(c) = &last.cfg {
        t.push(
            match c.policy {
                CheckpointPolicy::AfterEveryBarrier => "pol-barrier",
                CheckpointPolicy::EveryNNodes(_) => "pol-every",
                CheckpointPolicy::TimeInterval(_) => "pol-time",
                CheckpointPolicy::Hybrid { .. } => "pol-hybrid",
            }
            .into(),
        );
        t.push(match c.max {
            None => "max-none".into(),
            Some(m) if m > 1000 => "max-huge".into(),
            Some(m) => format!("max-{m}"),
        });
    }
    let tr: Vec<&str> = t.iter().map(String::as_str).collect();
    em.case("hist", case_json(seeds, runs), nontrivial, &tr);
}


/// non-trivial: an enabled manager whose decisions are asked for again after its state changed (a save or a
/// hand-set last_checkpoint_time), or asked for under a parameter beyond 2^32
fn emit_mgr(em: &mut Emitter, enabled: bool, pol: &CheckpointPolicy, max: Option<usize>, ops: &[MOp], tags: &[&str]) {
    let mut changed = false;
    let mut asked_after = false;
    for o in ops {
        match o {
            MOp::Calls(_, idxs) if !idxs.is_empty() => asked_after |= changed,
            MOp::Calls(..) => {}
            _ => changed = true,
        }
    }
    let huge = match pol {
        CheckpointPolicy::AfterEveryBarrier => false,
        CheckpointPolicy::EveryNNodes(n) => *n as u64 > 1 << 32,
        CheckpointPolicy::TimeInterval(s) | CheckpointPolicy::Hybrid { interval_secs: s, .. } => *s > 1 << 32,
    };
    let calls = ops.iter().any(|o| matches!(o, MOp::Calls(_, i) if !i.is_empty()));
    let mut t: Vec<&str> = tags.to_vec();
    t.push(match pol {
        CheckpointPolicy::AfterEveryBarrier => "pol-barrier",
        CheckpointPolicy::EveryNNodes(_) => "pol-every",
        CheckpointPolicy::TimeInterval(_) => "pol-time",
        CheckpointPolicy::Hybrid { .. } => "pol-hybrid",
    });
    if huge {
        t.push("huge-param");
    }
    em.case("mgr", mgr_case_json(enabled, pol, max, ops), enabled && calls && (asked_after || huge), &t);
}

fn foreign_seeds(this_runs: &[usize]) -> Seeds {
    let mut v = vec![
        (NameSpec::Raw("notes.tmp".into()), b"hello".to_vec()),
        (NameSpec::Raw("checkpoint_0123456789abcdef_5.bin".into()), vec![1, 2, 3]),
        (NameSpec::Raw("checkpoint_zz_1700000000000.bin".into()), vec![]),
        (NameSpec::Raw("x.bin".into()), vec![0xff; 9]),
    ];
    for r in this_runs {
        // files the store's filter accepts for this pipeline: old, odd but valid spellings
        v.push((NameSpec::Pid(*r, "5.bin".into()), vec![253, 0, 0, 0, 0, 0, 0, 0, 128, 1]));
        v.push((NameSpec::Pid(*r, "+7.bin".into()), vec![]));
        v.push((NameSpec::Pid(*r, "0008.bin".into()), b"garbage".to_vec()));
        // and near misses the filter rejects
        v.push((NameSpec::Pid(*r, "x.bin".into()), vec![7]));
        v.push((NameSpec::Pid(*r, "9.BIN".into()), vec![7]));
        v.push((NameSpec::Pid(*r, "9.bin.tmp".into()), vec![7]));
        v.push((NameSpec::Pid(*r, "b_200.bin".into()), vec![7]));
        v.push((NameSpec::Pid(*r, "-3.bin".into()), vec![7]));
        v.push((NameSpec::Pid(*r, ".bin".into()), vec![7]));
    }
    Some(v)
}

fn byte_patterns(rng: &mut SplitMix64) -> Vec<Damage> {
    let p63 = vec![253, 0, 0, 0, 0, 0, 0, 0, 128];
    let p31 = vec![252, 0, 0, 0, 128];
    let p32 = vec![253, 0, 0, 0, 0, 1, 0, 0, 0];
    let p40 = vec![253, 0, 0, 0, 0, 0, 1, 0, 0];
    let max = vec![253, 255, 255, 255, 255, 255, 255, 255, 255];
    let mut v = vec![Damage::Set(vec![]), Damage::Set(vec![0]), Damage::Set(vec![255; 40]), Damage::Set(vec![16])];
    // field offsets of a runner-written file: pid 0, idx 17, ts 18, parts 27, checksum 28,
    // exec_mode 93
    for pat in [p63, p31, p32, p40, max, vec![254], vec![255], vec![251, 16, 0]] {
        v.push(Damage::Set(pat.clone()));
        for off in [0usize, 17, 18, 27, 28, 93] {
            v.push(Damage::Patch(off, pat.clone()));
        }
    }
    for _ in 0..6 {
        let n = rng.below(200) as usize;
        v.push(Damage::Set((0..n).map(|_| rng.below(256) as u8).collect()));
        let off = rng.below(130) as usize;
        let n = 1 + rng.below(4) as usize;
        v.push(Damage::Patch(off, (0..n).map(|_| rng.below(256) as u8).collect()));
    }
    v
}

fn generate(seed: u64, tier: Tier, em: &mut Emitter) {
    let quick = tier == Tier::Quick;
    let progs = sweep_programs();
    let pols = policies();
    let mut rng = SplitMix64::new(seed ^ 0xC11);

    // 1. crash sweep: program x crash position x policy x retention x recovery x mode; the first
    //    run dies at the injected map, the second (same pipeline, flag cleared) must complete
    let mut idx = 0usize;
    for (pi, (src, steps)) in progs.iter().enumerate() {
        for k in 0..=steps.len() {
            for (poli, pol) in pols.iter().enumerate() {
                if quick {
                    // every (program, crash position, policy) sequentially, retention / recovery /
                    // a parallel twin rotating
                    idx += 1;
                    let max = MAXES[(idx / 2) % 4];
                    let auto = idx % 5 != 0;
                    let c = cfg(*pol, max, auto);
                    let first = mk_run(src, steps, Some(k), true, Mode::Seq, c.clone(), None);
                    let second = mk_run(src, steps, Some(k), false, Mode::Seq, c.clone(), None);
                    emit(em, &None, &[first, second], &["crash-sweep"]);
                    if (pi + k + poli) % 3 == 0 {
                        let mode = MODES[1 + idx % 3];
                        let first = mk_run(src, steps, Some(k), true, mode, c.clone(), None);
                        let second = mk_run(src, steps, Some(k), false, mode, c, None);
                        emit(em, &None, &[first, second], &["crash-sweep"]);
                    }
                    continue;
                }
                for max in MAXES.iter() {
                    for auto in [true, false] {
                        for mode in MODES.iter() {
                            idx += 1;
                            if !auto && idx % 3 != 0 {
                                continue;
                            }
                            let c = cfg(*pol, *max, auto);
                            let first = mk_run(src, steps, Some(k), true, *mode, c.clone(), None);
                            let second = mk_run(src, steps, Some(k), false, *mode, c, None);
                            emit(em, &None, &[first, second], &["crash-sweep"]);
                        }
                    }
                }
            }
        }
    }


    // 1b. EXTREME policy parameters through the real engines: TimeInterval / Hybrid intervals up to
    //     u64::MAX (the natural "never by time"), EveryNNodes 0 / 1 / .. / usize::MAX, max_checkpoints up to
    //     usize::MAX, on chains with several barriers, sequentially AND in parallel; the first run dies late
    //     (its checkpoints stay visible: which node indices were saved is compared with the model), the
    //     second completes: after the first save every later should_checkpoint call meets the interval
    {
        let multi = [1usize, 3, 5, 2];
        let big_maxes: [Option<usize>; 6] = [Some(usize::MAX), None, Some(1 << 63), Some(2), Some((1 << 32) + 1), Some(0)];
        let mut vi = 0usize;
        // the core values x every time variant x three multi-barrier programs x both modes
        for s in core_secs() {
            for pol in [
                CheckpointPolicy::TimeInterval(s),
                CheckpointPolicy::Hybrid { barriers: true, interval_secs: s },
                CheckpointPolicy::Hybrid { barriers: false, interval_secs: s },
            ] {
                for pi in [1usize, 3, 5] {
                    for mode in [Mode::Seq, Mode::Par(3)] {
                        vi += 1;
                        if quick && mode != Mode::Seq && vi % 3 != 0 {
                            continue;
                        }
                        let (src, steps) = &progs[pi];
                        let k = [steps.len(), steps.len() - 1, steps.len() / 2][vi % 3];
                        let c = cfg(pol, big_maxes[vi % 6], vi % 4 != 0);
                        let first = mk_run(src, steps, Some(k), true, mode, c.clone(), None);
                        let second = mk_run(src, steps, Some(k), false, mode, c, None);
                        emit(em, &None, &[first, second], &["policy-extreme"]);
                    }
                }
            }
        }
        // every extreme value once (quick: one in four, rotating with the seed), a parallel twin for one in three
        for (xi, pol) in extreme_policies().into_iter().enumerate() {
            if quick && (xi + seed as usize) % 4 != 0 {
                continue;
            }
            vi += 1;
            let (src, steps) = &progs[multi[vi % 4]];
            let k = [steps.len(), steps.len() - 1, steps.len() / 2][(vi / 4) % 3];
            let c = cfg(pol, big_maxes[vi % 6], vi % 5 != 0);
            let first = mk_run(src, steps, Some(k), true, Mode::Seq, c.clone(), None);
            let second = mk_run(src, steps, Some(k), false, Mode::Seq, c.clone(), None);
            emit(em, &None, &[first, second], &["policy-extreme"]);
            if vi % 3 == 0 || !quick {
                let mode = MODES[1 + vi % 3];
                let first = mk_run(src, steps, Some(k), true, mode, c.clone(), None);
                let second = mk_run(src, steps, Some(k), false, mode, c.clone(), None);
                emit(em, &None, &[first, second], &["policy-extreme"]);
            }
            if vi % 7 == 0 {
                // a single clean run over a directory that already holds files of this pipeline
                emit(em, &foreign_seeds(&[0]), &[mk_run(src, steps, None, false, Mode::Seq, c, None)], &["policy-extreme"]);
            }
        }
        // huge retention limits under the ordinary policies
        for (poli, pol) in pols.iter().enumerate() {
            for (mi, max) in [Some(usize::MAX), Some(usize::MAX - 1), Some(1usize << 63), Some(1 << 32), Some(1 << 31)].iter().enumerate() {
                if quick && (poli + mi) % 3 != 0 {
                    continue;
                }
                let (src, steps) = &progs[multi[(poli + mi) % 4]];
                let mode = if (poli + mi) % 2 == 0 { Mode::Seq } else { Mode::Par(2) };
                let c = cfg(*pol, *max, true);
                let first = mk_run(src, steps, Some(steps.len()), true, mode, c.clone(), None);
                let second = mk_run(src, steps, Some(steps.len()), false, mode, c, None);
                emit(em, &None, &[first, second], &["max-extreme"]);
            }
        }
    }

    // 2. damage sweep: crash late under "checkpoint after every node", then every truncation of the
    //    newest file and the byte patterns, then the second run
    let every = CheckpointPolicy::TimeInterval(0);
    for (pi, mode) in [(1usize, Mode::Seq), (3, Mode::Seq), (4, Mode::Par(2))] {
        let (src, steps) = &progs[pi];
        let k = steps.len();
        let stride = if quick { 9 } else { 1 };
        let mut damages: Vec<Damage> = (0..=140).filter(|o| (o + pi) % stride == 0).map(Damage::Trunc).collect();
        let pats = byte_patterns(&mut rng);
        let take = if quick { pats.len() / 3 } else { pats.len() };
        let skip = if quick { (seed as usize + pi) % 3 } else { 0 };
        damages.extend(pats.into_iter().skip(skip).step_by(if quick { 3 } else { 1 }).take(take.max(1)));
        for (di, d) in damages.into_iter().enumerate() {
            let max = MAXES[di % 4];
            let first = mk_run(src, steps, Some(k), true, mode, cfg(every, max, true), Some(d));
            let second = mk_run(src, steps, Some(k), false, mode, cfg(every, max, true), None);
            emit(em, &None, &[first, second], &["damage-sweep"]);
        }
    }

    // 2b. single-byte damage: the newest file a crashed run left with ONE byte overwritten by
    //     {00, 01, 7f, fb, ff} or one bit flipped, at EVERY offset.  Most such files no longer load;
    //     those that hit a field the checksum does not protect (exec_mode, total_nodes,
    //     last_node_type, progress_percent) still decode and pass the integrity check, e.g. with
    //     total_nodes = 0.  The small file: the "Source" checkpoint (113 bytes) of program 0 crashing
    //     in its second node; the others: a join's and a parallel "Failed" checkpoint.
    for (fi, (pi, k, mode)) in [(0usize, 0usize, Mode::Seq), (3, 4, Mode::Seq), (4, 2, Mode::Par(2))].iter().enumerate() {
        let (src, steps) = &progs[*pi];
        for off in 0..128usize {
            let mut ds: Vec<Damage> = vec![];
            if !quick {
                for b in [0x00u8, 0x01, 0x7f, 0xfb, 0xff] {
                    ds.push(Damage::Patch(off, vec![b]));
                }
                for bit in 0..8 {
                    ds.push(Damage::Xor(off, 1 << bit));
                }
            } else if fi == 0 {
                // every offset of the small file; all five values on the tail the checksum does not
                // protect (exec_mode, total_nodes, last_node_type, progress_percent: offsets >= 93),
                // two of them (rotating) where any change is caught by the decoder or the checksum
                let vals = [0x00u8, 0x01, 0x7f, 0xfb, 0xff];
                if off >= 93 {
                    for b in vals {
                        ds.push(Damage::Patch(off, vec![b]));
                    }
                } else {
                    ds.push(Damage::Patch(off, vec![vals[off % 5]]));
                    ds.push(Damage::Patch(off, vec![vals[(off / 5 + off + 2) % 5]]));
                }
                ds.push(Damage::Xor(off, 1 << (off % 8)));
            } else if (off + fi) % 5 == 0 || off >= 93 {
                // a stride over the protected part, every offset of the unprotected tail
                ds.push(Damage::Patch(off, vec![[0x00u8, 0xff, 0x01, 0xfb, 0x7f][(off / 5 + off) % 5]]));
                ds.push(Damage::Xor(off, 1 << (off % 8)));
            }
            for (di, d) in ds.into_iter().enumerate() {
                let max = MAXES[(off + di) % 4];
                let first = mk_run(src, steps, Some(*k), true, *mode, cfg(every, max, true), Some(d));
                let second = mk_run(src, steps, Some(*k), false, *mode, cfg(every, max, true), None);
                emit(em, &None, &[first, second], &["byte-sweep"]);
            }
        }
    }

    // 3. seeded directories: foreign files, files of this pipeline with odd but valid names,
    //    near misses; with and without a crashed run in between
    for (pi, (src, steps)) in progs.iter().enumerate() {
        for (poli, pol) in pols.iter().enumerate() {
            for (mi, max) in MAXES.iter().enumerate() {
                for (modi, mode) in [Mode::Seq, Mode::Par(2)].iter().enumerate() {
                    if quick && (pi + poli + mi + modi) % 6 != 0 {
                        continue;
                    }
                    let c = cfg(*pol, *max, true);
                    let one = mk_run(src, steps, None, false, *mode, c.clone(), None);
                    emit(em, &foreign_seeds(&[0]), &[one], &["seeded-one"]);
                    let k = steps.len() / 2;
                    let first = mk_run(src, steps, Some(k), true, *mode, c.clone(), None);
                    let second = mk_run(src, steps, Some(k), false, *mode, c, None);
                    emit(em, &foreign_seeds(&[0, 1]), &[first, second], &["seeded-crash"]);
                }
            }
        }
    }
    // a file of this pipeline "from the future": with max_checkpoints = 1 every new checkpoint is
    // deleted at once by retention
    for (pi, (src, steps)) in progs.iter().enumerate().take(4) {
        for max in MAXES {
            let seeds: Seeds = Some(vec![
                (NameSpec::Pid(0, "18446744073709551615.bin".into()), vec![1]),
                (NameSpec::Pid(0, "3.bin".into()), vec![2]),
            ]);
            let c = cfg(every, max, pi % 2 == 0);
            let first = mk_run(src, steps, Some(steps.len()), true, Mode::Seq, c.clone(), None);
            let second = mk_run(src, steps, Some(steps.len()), false, Mode::Seq, c, None);
            emit(em, &seeds, &[first, second], &["seeded-future"]);
        }
    }

    // 3b. VALID checkpoints of this pipeline claiming any progress (a run killed right after a save,
    //     e.g. after the last node's checkpoint and before the clean-up): a recovering run must still
    //     compute everything
    for (pi, (src, steps)) in progs.iter().enumerate() {
        for (mi, mode) in [Mode::Seq, Mode::Par(2)].iter().enumerate() {
            let total = 1 + steps.len(); // any claim will do; the real plan length is among them
            for (vi, (idx, tot, pct)) in [(0usize, total, 0u8), (total - 1, total, 100), (total, total, 255),
                                          (1 << 32, 1, 7), (2, 3, 66), (3, 4, 75), (4, 5, 80), (5, 6, 83), (0, 1, 0)]
                .iter()
                .enumerate()
            {
                if quick && (pi + mi + vi) % 3 != 0 {
                    continue;
                }
                let st = |ts: u64, idx: usize| {
                    (NameSpec::State(0, ts, StateSpec {
                        idx,
                        parts: if mi == 0 { 1 } else { 2 },
                        total: *tot,
                        ntype: "Stateless".into(),
                        mode: if mi == 0 { "sequential".into() } else { "parallel:2".into() },
                        pct: *pct,
                    }), vec![])
                };
                // an old one, the claimed one, and (every other case) one "from the future"
                let mut seeds = vec![st(1_600_000_000_000, 0), st(1_600_000_000_001 + vi as u64, *idx)];
                if vi % 2 == 1 {
                    seeds.push(st(9_999_999_999_990 + vi as u64, *idx));
                }
                seeds.push((NameSpec::Raw("notes.tmp".into()), vec![1]));
                let c = cfg(pols[(pi + vi) % pols.len()], MAXES[(vi + mi) % 4], true);
                emit(em, &Some(seeds), &[mk_run(src, steps, None, false, *mode, c, None)], &["valid-state"]);
            }
        }
    }

    // 3c. hand-built VALID checkpoints (written by the real save_checkpoint, correct checksum) whose
    //     UNPROTECTED fields are extreme: total_nodes 0 / 1 / 2^32 / 2^64-1, last_node_type empty /
    //     long / non-ASCII, exec_mode empty / odd, progress_percent 0 / 100 / 255
    {
        let totals = [0usize, 1, 1 << 32, usize::MAX, 3];
        let ntypes: [String; 5] = ["".into(), "x".repeat(300), "Zu\u{17f}tand \u{1f980}".into(), "Failed".into(),
                                   "Stateless".into()];
        let modes_txt: [String; 4] = ["".into(), "sequential".into(), "parallel:0".into(), "\u{e9}t\u{e9} ".repeat(40)];
        let pcts = [0u8, 100, 255];
        let mut vi = 0usize;
        for (ti, total) in totals.iter().enumerate() {
            for (ni, ntype) in ntypes.iter().enumerate() {
                vi += 1;
                if quick && (ti + ni) % 2 != 0 && *total != 0 {
                    continue;
                }
                for (mi, mode) in [Mode::Seq, Mode::Par(2)].iter().enumerate() {
                    let (src, steps) = &progs[(vi + mi) % 4];
                    let st = NameSpec::State(0, 1_650_000_000_000 + vi as u64, StateSpec {
                        idx: [0usize, 1, 7, 1 << 32][(vi + mi) % 4],
                        parts: [1usize, 0, 2, 1 << 20][(vi / 2) % 4],
                        total: *total,
                        ntype: ntype.clone(),
                        mode: modes_txt[(vi + ni) % 4].clone(),
                        pct: pcts[(vi + mi) % 3],
                    });
                    let seeds = vec![(st, vec![]), (NameSpec::Raw("notes.tmp".into()), vec![1])];
                    let c = cfg(pols[vi % pols.len()], MAXES[(vi + mi) % 4], true);
                    emit(em, &Some(seeds), &[mk_run(src, steps, None, false, *mode, c, None)], &["valid-extreme"]);
                }
            }
        }
    }

    // 4. disabled / absent configuration, missing directory
    for (pi, (src, steps)) in progs.iter().enumerate() {
        for mode in [Mode::Seq, Mode::Par(2)] {
            let off = Some(Cfg { enabled: false, policy: every, max: Some(1), auto: true });
            let seeds = if pi % 2 == 0 { None } else { foreign_seeds(&[0]) };
            emit(em, &seeds, &[mk_run(src, steps, None, false, mode, off, None)], &["disabled"]);
            emit(em, &seeds, &[mk_run(src, steps, None, false, mode, None, None)], &["no-config"]);
            emit(em, &None, &[mk_run(src, steps, None, false, mode, cfg(every, None, true), None)], &["fresh-dir"]);
        }
    }

    // 5. two DIFFERENT pipelines with the same chain length share a pipeline id: A dies, B runs
    let same_len: Vec<(usize, Vec<Step>)> = vec![
        // against program 1 (KV source): other steps, same plan shape
        (1, vec![Step::MapValues(EFun::Mul(2)), Step::GroupByKey, Step::CombineValuesLifted(Cid::Count),
                 Step::MapValues(EFun::Add(1)), Step::CombineValues(Cid::Sum)]),
        (1, vec![Step::FilterValues(PFun::Lt(5)), Step::CombineValues(Cid::Sum), Step::MapValues(EFun::Id),
                 Step::CombineValues(Cid::Min)]),
        (0, vec![Step::Filter(PFun::Lt(4))]),
        (2, vec![Step::Filter(PFun::True), Step::CombineGlobally(Cid::Count, false, None), Step::Map(EFun::Dup),
                 Step::CombineGlobally(Cid::Count, true, Some(3)), Step::Map(EFun::Add(1))]),
    ];
    for (pi, bsteps) in &same_len {
        let (src, asteps) = &progs[*pi];
        for (poli, pol) in pols.iter().enumerate() {
            if quick && poli % 3 != (*pi % 3) {
                continue;
            }
            for mode in [Mode::Seq, Mode::Par(2)] {
                let c = cfg(*pol, MAXES[poli % 4], true);
                let d = if poli % 2 == 0 { Some(Damage::Trunc(40 + poli)) } else { None };
                let first = mk_run(src, asteps, Some(asteps.len()), true, mode, c.clone(), d);
                let second = mk_run(src, bsteps, None, false, mode, c, None);
                emit(em, &None, &[first, second], &["same-length"]);
            }
        }
    }

    // 5b. Parallel { threads, partitions: None }: the runner resolves the partition count itself
    //     (planner's suggestion, else default_partitions) and must resolve it the SAME way with and
    //     without checkpointing: programs with a partition-SENSITIVE batch function (rev / droplast /
    //     header per chunk) on inputs long enough that 16 and 32 partitions cut differently
    {
        let mut vi = 0usize;
        for n in [64usize, 65, 97, 128, 200] {
            for (bi, b) in [BFun::Rev, BFun::DropLast, BFun::Header].iter().enumerate() {
                for (si, size) in [1000usize, 3].iter().enumerate() {
                    vi += 1;
                    if quick && (vi + bi) % 2 == 0 {
                        continue;
                    }
                    let src = Src::Vec(Shape::U, (0..n as i64).map(Val::Int).collect());
                    let mut steps = vec![Step::Map(EFun::Add(1)), Step::MapBatches(*size, b.clone())];
                    if si == 0 {
                        steps.extend([Step::KeyBy(EFun::Mod(5)), Step::CombineValues(Cid::Count), Step::Unkey]);
                    }
                    let threads = [None, Some(2), Some(5)][vi % 3];
                    let c = cfg(pols[vi % pols.len()], MAXES[vi % 4], true);
                    let one = auto(mk_run(&src, &steps, None, false, Mode::Seq, c.clone(), None), threads);
                    emit(em, &None, &[one], &["auto-parts"]);
                    let k = 1 + vi % 2;
                    let first = auto(mk_run(&src, &steps, Some(k), true, Mode::Seq, c.clone(), Some(Damage::Trunc(50))), threads);
                    let second = auto(mk_run(&src, &steps, Some(k), false, Mode::Seq, c, None), threads);
                    emit(em, &None, &[first, second], &["auto-parts"]);
                }
            }
        }
        // keyed, through a join (sub-plans are partitioned with the same count), and the empty / tiny inputs
        for n in [0usize, 1, 70] {
            let src = Src::Vec(Shape::KV, (0..n as i64).map(|i| kv(i % 4, i)).collect());
            let steps = vec![
                Step::MapValuesBatches(1000, BFun::Rev),
                Step::Join(JoinKind::Inner, vec![Step::MapValuesBatches(2, BFun::Rev)], right_rows()),
            ];
            let c = cfg(every, Some(1), true);
            emit(em, &None, &[auto(mk_run(&src, &steps, None, false, Mode::Seq, c, None), None)], &["auto-parts"]);
        }
    }

    // 6. seeded random histories
    let mut rng = seed_mix(seed, 0xC11_0006);
    let count = if quick { 400 } else { 6000 };
    let extremes = extreme_policies();
    for _ in 0..count {
        let n = gen_len(&mut rng);
        let src = gen_src(&mut rng, n, true, true);
        let mut o = GenOpts::all();
        if rng.chance(1, 5) {
            o.barriers = false;
            o.joins = false;
        }
        let auto_threads: Option<Option<usize>> =
            if rng.chance(1, 8) { Some(if rng.chance(1, 2) { None } else { Some(1 + rng.below(4) as usize) }) } else { None };
        let src = if auto_threads.is_some() {
            // long, ordered input and partition-sensitive batch functions
            o.odd_batches = true;
            let n = 64 + rng.below(90) as usize;
            if rng.chance(1, 2) { Src::Vec(Shape::U, ints(n, &mut rng)) } else { Src::Vec(Shape::KV, pattern_kv("runs", n, &mut rng)) }
        } else {
            src
        };
        let mode = if auto_threads.is_some() || rng.chance(1, 2) { Mode::Seq } else { Mode::Par(gen_parts(&mut rng, src.len())) };
        let parts = match mode { Mode::Seq => if auto_threads.is_some() { 16 } else { 1 }, Mode::Par(n) => n };
        let nsteps = rng.below(10) as usize;
        let (steps, _) = gen_program(&mut rng, &src, &o, nsteps, parts);
        let pol = *rng.pick(&pols);
        let pol = match pol {
            CheckpointPolicy::EveryNNodes(_) if rng.chance(1, 3) => CheckpointPolicy::EveryNNodes(rng.below(7) as usize),
            p => p,
        };
        let pol = if rng.chance(1, 4) { *rng.pick(&extremes) } else { pol };
        let max = if rng.chance(1, 4) { Some(rng.below(5) as usize) } else { *rng.pick(&MAXES) };
        let max = if rng.chance(1, 10) { Some(usize::MAX - rng.below(2) as usize) } else { max };
        let c = cfg(pol, max, rng.chance(5, 6));
        let k = rng.below(steps.len() as u64 + 1) as usize;
        let damage = match rng.below(4) {
            0 => None,
            1 => Some(Damage::Trunc(rng.below(140) as usize)),
            _ => Some(byte_patterns(&mut rng).swap_remove(rng.below(30) as usize)),
        };
        let wrap = |r: RunSpec| match auto_threads { Some(t) => auto(r, t), None => r };
        let first = wrap(mk_run(&src, &steps, Some(k), true, mode, c.clone(), damage));
        let second = wrap(mk_run(&src, &steps, Some(k), false, mode, c.clone(), None));
        let seeds = if rng.chance(1, 3) { foreign_seeds(&[0]) } else { None };
        match rng.below(5) {
            0 => {
                // three runs: crash, crash elsewhere, complete
                let k2 = rng.below(steps.len() as u64 + 1) as usize;
                let _ = k2;
                let again = wrap(mk_run(&src, &steps, Some(k), true, mode, c, Some(Damage::Trunc(rng.below(100) as usize))));
                emit(em, &seeds, &[first, again, second], &["random", "three-runs"]);
            }
            1 => emit(em, &seeds, &[second], &["random", "single"]),
            _ => emit(em, &seeds, &[first, second], &["random"]),
        }
    }

    // 7. the manager directly: CheckpointManager::should_checkpoint as a public entry point, in sequences
    //    with save_checkpoint (which sets last_checkpoint_time) and with the public field set by hand
    {
        use CheckpointPolicy::*;
        let secs = extreme_secs();
        let sizes = extreme_sizes();
        let totals = [0usize, 1, 7, usize::MAX];
        let mut ci = 0usize;
        // 7a. time policies: EVERY interval x every state of last_checkpoint_time: none, just now, a second
        //     ago, in the future, the epoch, far past / future, and just short of / just past the interval
        for s in &secs {
            for pol in [TimeInterval(*s), Hybrid { barriers: true, interval_secs: *s }, Hybrid { barriers: false, interval_secs: *s }] {
                ci += 1;
                let idxs = vec![ci % 9, [usize::MAX, 1 << 32, 0][ci % 3]];
                let total = totals[ci % 4];
                let mut lasts = vec![
                    LastSpec::Rel(0), LastSpec::Rel(-1), LastSpec::Rel(3600), LastSpec::Rel(1 << 40), LastSpec::Abs(0),
                    LastSpec::Abs(-(1 << 61)), LastSpec::Abs(1 << 61), LastSpec::Rel(-1_000_000_000_000),
                ];
                if *s >= 3600 && *s - 700 < 1 << 61 {
                    lasts.push(LastSpec::Rel(-((*s - 700) as i64)));
                }
                if *s < (1 << 61) - 700 {
                    lasts.push(LastSpec::Rel(-((*s + 700) as i64)));
                }
                let mut ops = vec![MOp::Calls(total, idxs.clone())];
                for l in lasts {
                    ops.push(MOp::Last(l));
                    ops.push(MOp::Calls(total, idxs.clone()));
                }
                ops.push(MOp::Last(LastSpec::Nothing));
                ops.push(MOp::Calls(total, idxs.clone()));
                ops.push(MOp::Save(1_700_000_000_000 + ci as u64));
                ops.push(MOp::Calls(total, idxs.clone()));
                ops.push(MOp::Calls(total, idxs));
                emit_mgr(em, ci % 11 != 0, &pol, [None, Some(0), Some(1)][ci % 3], &ops, &["mgr-time"]);
            }
        }
        // 7b. EveryNNodes(n) for EVERY n of the size set x node indices: 0..=12, n-1, n, n+1, 2n, 2n+1, 3n, the
        //     extremes; AfterEveryBarrier likewise
        let mut pols_n: Vec<CheckpointPolicy> = sizes.iter().map(|n| EveryNNodes(*n)).collect();
        pols_n.push(AfterEveryBarrier);
        for pol in pols_n {
            ci += 1;
            let n = match pol { EveryNNodes(n) => n, _ => 4 };
            let mut idxs: Vec<usize> = (0..=12).collect();
            idxs.extend([Some(n), n.checked_sub(1), n.checked_add(1), n.checked_mul(2), n.checked_mul(2).and_then(|x| x.checked_add(1)),
                         n.checked_mul(3), n.checked_mul(1 << 20)].into_iter().flatten());
            idxs.extend([usize::MAX, usize::MAX - 1, 1 << 63, (1 << 63) - 1, 1 << 32, (1 << 32) + 1, 1 << 31]);
            if !quick {
                idxs.extend(sizes.iter().copied());
            }
            let total = totals[ci % 4];
            let ops = vec![
                MOp::Calls(total, idxs.clone()),
                MOp::Save(1_700_000_000_000 + ci as u64),
                MOp::Calls(total, idxs.clone()),
                MOp::Last(LastSpec::Rel(1 << 40)),
                MOp::Calls(total, idxs),
            ];
            emit_mgr(em, ci % 13 != 0, &pol, [None, Some(usize::MAX), Some(0)][ci % 3], &ops, &["mgr-every"]);
        }
        // 7c. call sequences as the sequential engine makes them (decide, save when told to, decide again ..) for
        //     the core intervals / counts x retention limits incl. 0 and usize::MAX; timestamps of the saved
        //     states ordinary, equal (overwrite), 0 and u64::MAX
        let mut seq_pols = vec![AfterEveryBarrier, EveryNNodes(0), EveryNNodes(1), EveryNNodes(2), EveryNNodes(usize::MAX)];
        for s in core_secs().into_iter().chain([0, 3600]) {
            seq_pols.extend([TimeInterval(s), Hybrid { barriers: true, interval_secs: s }, Hybrid { barriers: false, interval_secs: s }]);
        }
        for pol in &seq_pols {
            for max in [None, Some(0usize), Some(1), Some(2), Some(usize::MAX)] {
                ci += 1;
                let ts: Vec<u64> = match ci % 4 {
                    0 => vec![1_700_000_000_001, 1_700_000_000_002, 1_700_000_000_003, 1_700_000_000_004],
                    1 => vec![1_700_000_000_005, 1_700_000_000_005, 1_700_000_000_004, 1_700_000_000_005],
                    2 => vec![0, u64::MAX, 1, u64::MAX - 1],
                    _ => vec![9, 10, 99, 100],
                };
                let mut ops = vec![];
                for (i, t) in ts.iter().enumerate() {
                    ops.push(MOp::Calls(ts.len(), vec![i, i + 1]));
                    ops.push(MOp::Save(*t));
                }
                ops.push(MOp::Calls(ts.len(), vec![ts.len(), 0]));
                emit_mgr(em, true, pol, max, &ops, &["mgr-seq"]);
            }
        }
        // 7d. seeded random scripts
        let mut rng = seed_mix(seed, 0xC11_0007);
        let all = extreme_policies();
        for _ in 0..(if quick { 150 } else { 3000 }) {
            let pol = if rng.chance(1, 3) { *rng.pick(&seq_pols) } else { *rng.pick(&all) };
            let max = match rng.below(4) { 0 => None, 1 => Some(*rng.pick(&sizes)), _ => Some(rng.below(4) as usize) };
            let nops = 1 + rng.below(12) as usize;
            let mut ops = vec![];
            for _ in 0..nops {
                match rng.below(6) {
                    0 => ops.push(MOp::Save(if rng.chance(1, 5) { *rng.pick(&secs) } else { 1_700_000_000_000 + rng.below(6) })),
                    1 => ops.push(MOp::Last(match rng.below(6) {
                        0 => LastSpec::Nothing,
                        1 => LastSpec::Rel(0),
                        2 => LastSpec::Rel(-1_000_000_000_000),
                        3 => LastSpec::Rel(1 << (12 + rng.below(50))),
                        4 => LastSpec::Abs(0),
                        _ => LastSpec::Abs(if rng.chance(1, 2) { 1 << 61 } else { -(1 << 61) }),
                    })),
                    _ => {
                        let k = 1 + rng.below(5) as usize;
                        ops.push(MOp::Calls(*rng.pick(&totals), (0..k).map(|_| if rng.chance(1, 2) { rng.below(24) as usize } else { *rng.pick(&sizes) }).collect()));
                    }
                }
            }
            emit_mgr(em, rng.chance(9, 10), &pol, max, &ops, &["mgr-random"]);
        }
    }
    shutdown_worker();
}

fn main() {
    if std::env::args().any(|a| a == "--c11-worker") {
        // the worker takes the same generic options as the parent (threads)
        let args: Vec<String> = std::env::args().collect();
        if let Some(i) = args.iter().position(|a| a == "--opt") {
            if let Some(v) = args.get(i + 1).and_then(|kv| kv.strip_prefix("threads=")) {
                if let Ok(t) = v.parse::<usize>() {
                    rayon::ThreadPoolBuilder::new().num_threads(t).build_global().ok();
                }
            }
        }
        worker_main();
        return;
    }
    drive(&generate, &run);
    shutdown_worker();
}
