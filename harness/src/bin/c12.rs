//! C12: checkpoint store - faithful round trip, integrity, bounded retention, true latest.
//! Runs the REAL ironbeam::checkpoint::CheckpointManager on real files in a scratch directory
//! under /verif/run/C12/ (removed at the end).
//!
//! kinds
//!   rt     in = [fields, table]                    out = [load(save(state)) : ["ok", fields] | ["err", class],
//!                                                         content of the written file | null]
//!   load   in = [file bytes, table]                out = load_checkpoint of a file with exactly these
//!                                                        bytes, executed in a CHILD process with an
//!                                                        address-space limit (death => ["abort"],
//!                                                        no answer in 20 s => ["hang"])
//!   hist   in = [max, enabled, initial names, ops, query ids]
//!                                                  out = per op [sorted listing, [latest per query id]]
//!   should in = [enabled, policy, after_save, node_index, is_barrier]   out = bool
//!   sum    in = data                               out = [compute_checksum(data), the same call again]
//!   tamper in = [fields (pipeline id as data), ops] out = per op the load outcome of the encoded file with
//!                                                        that single alteration (child process, as `load`);
//!                                                        ops: ["x", off, mask] | ["s", off, del, ins] | ["t", k];
//!                                                        an "ok" outcome abbreviates id / checksum equal to
//!                                                        the input's by null
//! data   = a string | {"bytes": ..} | ["gen", seed, len] (63-bit LCG bytes) | ["ids", seed, len] (LCG
//!          over a 32-letter alphabet) | ["rep", unit, count]
//! fields = [pipeline_id, completed_node_index, timestamp, partition_count, checksum, exec_mode,
//!           total_nodes, last_node_type, progress_percent]
//! table  = [[string, {"bytes": sha256 digest}] ...] : values of the real `compute_checksum`
//!          (hex-decoded) for the protected strings of the case; each entry is checked against the
//!          Coq model of SHA-256 (Ckpt/Sha256.v), which is the H of the model.
use ibv::{Emitter, SplitMix64, Tier, drive};
use ironbeam::checkpoint::{
    CheckpointConfig, CheckpointManager, CheckpointMetadata, CheckpointPolicy, CheckpointState,
    compute_checksum,
};
use serde_json::{Value, json};
use std::io::{BufRead, BufReader, Write};
use std::path::{Path, PathBuf};
use std::process::{Child, ChildStdin, Command, Stdio};
use std::sync::Mutex;
use std::sync::atomic::{AtomicU64, Ordering};
use std::sync::mpsc::{Receiver, channel};
use std::time::Duration;

const LIMIT: u64 = 16 * 1024 * 1024;

// ------------------------------------------------------------------ scratch space
fn scratch_root() -> PathBuf {
    PathBuf::from(format!("/verif/run/C12/scratch-{}", std::process::id()))
}
static COUNTER: AtomicU64 = AtomicU64::new(0);
fn fresh_dir() -> PathBuf {
    let d = scratch_root().join(format!("c{}", COUNTER.fetch_add(1, Ordering::SeqCst)));
    std::fs::create_dir_all(&d).expect("create scratch dir");
    d
}

fn manager(dir: &Path, enabled: bool, max: Option<usize>, policy: CheckpointPolicy) -> CheckpointManager {
    CheckpointManager::new(CheckpointConfig {
        enabled,
        directory: dir.to_path_buf(),
        policy,
        auto_recover: true,
        max_checkpoints: max,
    })
    .expect("manager")
}

// ------------------------------------------------------------------ state <-> JSON
fn state_of(f: &Value) -> CheckpointState {
    CheckpointState {
        pipeline_id: f[0].as_str().unwrap().to_string(),
        completed_node_index: f[1].as_u64().unwrap() as usize,
        timestamp: f[2].as_u64().unwrap(),
        partition_count: f[3].as_u64().unwrap() as usize,
        checksum: f[4].as_str().unwrap().to_string(),
        exec_mode: f[5].as_str().unwrap().to_string(),
        metadata: CheckpointMetadata {
            total_nodes: f[6].as_u64().unwrap() as usize,
            last_node_type: f[7].as_str().unwrap().to_string(),
            progress_percent: f[8].as_u64().unwrap() as u8,
        },
    }
}
fn fields_of(s: &CheckpointState) -> Value {
    json!([
        s.pipeline_id,
        s.completed_node_index as u64,
        s.timestamp,
        s.partition_count as u64,
        s.checksum,
        s.exec_mode,
        s.metadata.total_nodes as u64,
        s.metadata.last_node_type,
        s.metadata.progress_percent
    ])
}

/// error class of a load failure, from the rendered error chain (never the message itself)
fn classify(e: &anyhow::Error) -> &'static str {
    let s = format!("{e:#} {e:?}");
    if s.contains("checksum mismatch") {
        "checksum"
    } else if s.contains("LimitExceeded") {
        "limit"
    } else if s.contains("UnexpectedEnd") {
        "end"
    } else if s.contains("Utf8") {
        "utf8"
    } else if s.contains("InvalidIntegerType") {
        "discriminant"
    } else if s.contains("Failed to open") {
        "missing"
    } else {
        "other"
    }
}

fn load_outcome(path: &Path) -> Value {
    let dir = path.parent().unwrap();
    let m = manager(dir, true, None, CheckpointPolicy::AfterEveryBarrier);
    match m.load_checkpoint(path) {
        Ok(s) => ibv::ok(fields_of(&s)),
        Err(e) => ibv::err(classify(&e)),
    }
}

// ------------------------------------------------------------------ child worker
fn worker_main() {
    std::panic::set_hook(Box::new(|_| {}));
    let stdin = std::io::stdin();
    let mut out = std::io::stdout();
    for line in stdin.lock().lines() {
        let line = line.unwrap();
        let path = PathBuf::from(line);
        let r = std::panic::catch_unwind(|| load_outcome(&path)).unwrap_or_else(|_| json!(["panic"]));
        writeln!(out, "{r}").unwrap();
        out.flush().unwrap();
    }
}

struct Worker {
    child: Child,
    stdin: ChildStdin,
    rx: Receiver<String>,
}
static WORKER: Mutex<Option<Worker>> = Mutex::new(None);

fn spawn_worker() -> Worker {
    let exe = std::env::current_exe().unwrap();
    // 2 GiB of address space: a decoder that allocates what a corrupted length prefix asks for
    // (2^32, 2^40) dies here instead of being served lazily by the kernel
    let mut child = Command::new("sh")
        .arg("-c")
        .arg("ulimit -v 2097152; exec \"$0\" --c12-worker")
        .arg(&exe)
        .stdin(Stdio::piped())
        .stdout(Stdio::piped())
        .stderr(Stdio::null())
        .spawn()
        .expect("spawn worker");
    let stdin = child.stdin.take().unwrap();
    let stdout = child.stdout.take().unwrap();
    let (tx, rx) = channel();
    std::thread::spawn(move || {
        for line in BufReader::new(stdout).lines() {
            match line {
                Ok(l) => {
                    if tx.send(l).is_err() {
                        break;
                    }
                }
                Err(_) => break,
            }
        }
    });
    Worker { child, stdin, rx }
}

fn load_in_child(path: &Path) -> Value {
    let mut guard = WORKER.lock().unwrap();
    if guard.is_none() {
        *guard = Some(spawn_worker());
    }
    let w = guard.as_mut().unwrap();
    let sent = writeln!(w.stdin, "{}", path.display()).and_then(|_| w.stdin.flush());
    let res = if sent.is_err() {
        None
    } else {
        match w.rx.recv_timeout(Duration::from_secs(20)) {
            Ok(l) => Some(serde_json::from_str::<Value>(&l).unwrap_or(json!(["abort"]))),
            Err(std::sync::mpsc::RecvTimeoutError::Timeout) => Some(json!(["hang"])),
            Err(_) => None,
        }
    };
    match res {
        Some(v) if v != json!(["hang"]) => v,
        other => {
            // the child died (abort) or hangs: get rid of it, the next case gets a new one
            let mut w = guard.take().unwrap();
            let _ = w.child.kill();
            let _ = w.child.wait();
            other.unwrap_or(json!(["abort"]))
        }
    }
}

fn shutdown_worker() {
    if let Some(mut w) = WORKER.lock().unwrap().take() {
        drop(w.stdin);
        let _ = w.child.wait();
    }
}

// ------------------------------------------------------------------ run
fn bytes_of(v: &Value) -> Vec<u8> {
    v["bytes"].as_array().unwrap().iter().map(|b| b.as_u64().unwrap() as u8).collect()
}

fn listing(dir: &Path) -> Vec<String> {
    let mut names: Vec<String> = std::fs::read_dir(dir)
        .unwrap()
        .map(|e| e.unwrap().file_name().to_str().unwrap().to_string())
        .collect();
    names.sort();
    names
}

fn dummy_state(pid: &str, ts: u64) -> CheckpointState {
    let meta = format!("{pid}:1:{ts}:1");
    CheckpointState {
        pipeline_id: pid.to_string(),
        completed_node_index: 1,
        timestamp: ts,
        partition_count: 1,
        checksum: compute_checksum(meta.as_bytes()),
        exec_mode: "seq".into(),
        metadata: CheckpointMetadata { total_nodes: 2, last_node_type: "n".into(), progress_percent: 50 },
    }
}

fn policy_of(p: &Value) -> CheckpointPolicy {
    match p[0].as_str().unwrap() {
        "barrier" => CheckpointPolicy::AfterEveryBarrier,
        "every" => CheckpointPolicy::EveryNNodes(p[1].as_u64().unwrap() as usize),
        "time" => CheckpointPolicy::TimeInterval(p[1].as_u64().unwrap()),
        _ => CheckpointPolicy::Hybrid {
            barriers: p[1].as_bool().unwrap(),
            interval_secs: p[2].as_u64().unwrap(),
        },
    }
}

fn run(kind: &str, input: &Value) -> Value {
    match kind {
        "rt" => {
            let dir = fresh_dir();
            let mut m = manager(&dir, true, None, CheckpointPolicy::AfterEveryBarrier);
            let s = state_of(&input[0]);
            // observed: the load outcome and the exact content of the file that was written
            let out = match m.save_checkpoint(&s) {
                Err(_) => json!([ibv::err("create"), Value::Null]),
                Ok(path) => {
                    let image = std::fs::read(&path).unwrap_or_default();
                    let loaded = match m.load_checkpoint(&path) {
                        Ok(s2) => ibv::ok(fields_of(&s2)),
                        Err(e) => ibv::err(classify(&e)),
                    };
                    json!([loaded, { "bytes": image }])
                }
            };
            let _ = std::fs::remove_dir_all(&dir);
            out
        }
        "load" => {
            let dir = fresh_dir();
            let path = dir.join("checkpoint_x_1.bin");
            std::fs::write(&path, bytes_of(&input[0])).unwrap();
            let out = load_in_child(&path);
            let _ = std::fs::remove_dir_all(&dir);
            out
        }
        "hist" => {
            let dir = fresh_dir();
            let max = input[0].as_u64().map(|m| m as usize);
            let enabled = input[1].as_bool().unwrap();
            for n in input[2].as_array().unwrap() {
                let n = n.as_str().unwrap();
                // only plain file names (a shrunk / hand-written case must never leave the scratch dir)
                if n.is_empty() || n == "." || n == ".." || n.contains('/') || n.contains('\0') {
                    let _ = std::fs::remove_dir_all(&dir);
                    return json!(["invalid"]);
                }
                std::fs::write(dir.join(n), b"x").unwrap();
            }
            let mut m = manager(&dir, enabled, max, CheckpointPolicy::AfterEveryBarrier);
            let mut out = Vec::new();
            for op in input[3].as_array().unwrap() {
                let pid = op[1].as_str().unwrap();
                let status = match op[0].as_str().unwrap() {
                    "save" => m.save_checkpoint(&dummy_state(pid, op[2].as_u64().unwrap())).is_ok(),
                    _ => m.clear_checkpoints(pid).is_ok(),
                };
                let latest: Vec<Value> = input[4]
                    .as_array()
                    .unwrap()
                    .iter()
                    .map(|q| match m.find_latest_checkpoint(q.as_str().unwrap()) {
                        Ok(Some(p)) => json!(p.file_name().unwrap().to_str().unwrap()),
                        Ok(None) => Value::Null,
                        Err(_) => json!(["err"]),
                    })
                    .collect();
                out.push(json!([status, listing(&dir), latest]));
            }
            let _ = std::fs::remove_dir_all(&dir);
            Value::Array(out)
        }
        "should" => {
            let dir = fresh_dir();
            let mut m = manager(&dir, input[0].as_bool().unwrap(), None, policy_of(&input[1]));
            if input[2].as_bool().unwrap() {
                std::fs::create_dir_all(&dir).unwrap();
                m.save_checkpoint(&dummy_state("s", 1)).unwrap();
            }
            let r = m.should_checkpoint(
                input[3].as_u64().unwrap() as usize,
                input[4].as_bool().unwrap(),
                10,
            );
            let _ = std::fs::remove_dir_all(&dir);
            Value::Bool(r)
        }
        "sum" => {
            let Some(d) = data_of(input) else { return json!(["invalid"]) };
            let h1 = compute_checksum(&d);
            let h2 = compute_checksum(&d);
            json!([h1, h2])
        }
        "tamper" => run_tamper(input).unwrap_or(json!(["invalid"])),
        _ => json!(["bad-kind"]),
    }
}

// ------------------------------------------------------------------ compact data, tamper
const ID_ALPHABET: &[u8; 32] = b"abcdefghijklmnopqrstuvwxyz012:_9";
fn lcg_bytes(seed: u64, len: usize) -> Vec<u8> {
    let mut x = seed & ((1u64 << 63) - 1);
    (0..len)
        .map(|_| {
            x = x.wrapping_mul(6364136223846793005).wrapping_add(1442695040888963407) & ((1u64 << 63) - 1);
            ((x >> 32) & 255) as u8
        })
        .collect()
}
fn data_of(v: &Value) -> Option<Vec<u8>> {
    const MAX: u64 = 1 << 22;
    if let Some(s) = v.as_str() {
        return Some(s.as_bytes().to_vec());
    }
    if v.is_object() {
        return v["bytes"].as_array()?.iter().map(|b| b.as_u64().filter(|x| *x < 256).map(|x| x as u8)).collect();
    }
    let a = v.as_array()?;
    if a.len() != 3 {
        return None;
    }
    match a[0].as_str()? {
        "gen" => {
            let (seed, len) = (a[1].as_u64()?, a[2].as_u64()?);
            (len <= MAX && seed < (1 << 62)).then(|| lcg_bytes(seed, len as usize))
        }
        "ids" => {
            let (seed, len) = (a[1].as_u64()?, a[2].as_u64()?);
            (len <= MAX && seed < (1 << 62))
                .then(|| lcg_bytes(seed, len as usize).iter().map(|b| ID_ALPHABET[(b & 31) as usize]).collect())
        }
        "rep" => {
            let u = data_of(&a[1])?;
            let n = a[2].as_u64()?;
            (n.checked_mul(u.len() as u64)? <= MAX).then(|| u.repeat(n as usize))
        }
        _ => None,
    }
}

/// the wire image with the span (start, len) of every item, in wire order:
/// 0 pid prefix, 1 pid, 2 cni, 3 ts, 4 pc, 5 cks prefix, 6 cks, 7 em prefix, 8 em, 9 tn,
/// 10 lnt prefix, 11 lnt, 12 pp
#[allow(clippy::too_many_arguments)]
fn encode_raw(pid: &[u8], cni: u64, ts: u64, pc: u64, cks: &[u8], em: &[u8], tn: u64, lnt: &[u8], pp: u8)
              -> (Vec<u8>, Vec<(usize, usize)>) {
    let mut o = Vec::new();
    let mut spans = Vec::new();
    fn num(v: u64, o: &mut Vec<u8>, spans: &mut Vec<(usize, usize)>) {
        let a = o.len();
        varint(v, o);
        spans.push((a, o.len() - a));
    }
    fn text(x: &[u8], o: &mut Vec<u8>, spans: &mut Vec<(usize, usize)>) {
        num(x.len() as u64, o, spans);
        spans.push((o.len(), x.len()));
        o.extend_from_slice(x);
    }
    text(pid, &mut o, &mut spans);
    num(cni, &mut o, &mut spans);
    num(ts, &mut o, &mut spans);
    num(pc, &mut o, &mut spans);
    text(cks, &mut o, &mut spans);
    text(em, &mut o, &mut spans);
    num(tn, &mut o, &mut spans);
    text(lnt, &mut o, &mut spans);
    spans.push((o.len(), 1));
    o.push(pp);
    (o, spans)
}

fn run_tamper(input: &Value) -> Option<Value> {
    let f = input[0].as_array()?;
    if f.len() != 9 {
        return None;
    }
    let pid = data_of(&f[0])?;
    let cks = f[4].as_str()?.as_bytes().to_vec();
    let (img, _) = encode_raw(&pid, f[1].as_u64()?, f[2].as_u64()?, f[3].as_u64()?, &cks,
                              f[5].as_str()?.as_bytes(), f[6].as_u64()?, f[7].as_str()?.as_bytes(),
                              u8::try_from(f[8].as_u64()?).ok()?);
    let mut files = Vec::new();
    for op in input[1].as_array()? {
        let a = op.as_array()?;
        let b = match (a.first()?.as_str()?, a.len()) {
            ("x", 3) => {
                let (off, mask) = (a[1].as_u64()? as usize, a[2].as_u64()?);
                if off >= img.len() || mask > 255 {
                    return None;
                }
                let mut b = img.clone();
                b[off] ^= mask as u8;
                b
            }
            ("s", 4) => {
                let (off, del) = (a[1].as_u64()? as usize, a[2].as_u64()? as usize);
                let ins = data_of(&a[3])?;
                if off.checked_add(del)? > img.len() {
                    return None;
                }
                let mut b = img[..off].to_vec();
                b.extend_from_slice(&ins);
                b.extend_from_slice(&img[off + del..]);
                b
            }
            ("t", 2) => {
                let k = a[1].as_u64()? as usize;
                if k > img.len() {
                    return None;
                }
                img[..k].to_vec()
            }
            _ => return None,
        };
        files.push(b);
    }
    let dir = fresh_dir();
    let path = dir.join("checkpoint_x_1.bin");
    let mut out = Vec::new();
    for b in files {
        std::fs::write(&path, &b).unwrap();
        let mut o = load_in_child(&path);
        // abbreviate the long strings of an accepted state that are exactly the input's
        if o[0] == "ok" {
            if o[1][0].as_str().map(str::as_bytes) == Some(&pid[..]) {
                o[1][0] = Value::Null;
            }
            if o[1][4].as_str().map(str::as_bytes) == Some(&cks[..]) {
                o[1][4] = Value::Null;
            }
        }
        out.push(o);
    }
    let _ = std::fs::remove_dir_all(&dir);
    Some(Value::Array(out))
}

// ------------------------------------------------------------------ generator helpers
fn digest_bytes(s: &[u8]) -> Value {
    let hexs = compute_checksum(s);
    let h = hexs.as_bytes();
    let nib = |c: u8| if c <= b'9' { c - b'0' } else { c - b'a' + 10 };
    let d: Vec<u8> = (0..h.len() / 2).map(|i| nib(h[2 * i]) * 16 + nib(h[2 * i + 1])).collect();
    json!({ "bytes": d })
}
/// one table entry: (string, real digest of the string)
fn entry(s: &[u8]) -> Value {
    json!([{ "bytes": s }, digest_bytes(s)])
}
fn meta_of(pid: &[u8], a: u64, b: u64, c: u64) -> Vec<u8> {
    let mut m = pid.to_vec();
    m.extend_from_slice(format!(":{a}:{b}:{c}").as_bytes());
    m
}

fn varint(v: u64, out: &mut Vec<u8>) {
    if v <= 250 {
        out.push(v as u8);
    } else if v <= 0xFFFF {
        out.push(251);
        out.extend_from_slice(&(v as u16).to_le_bytes());
    } else if v <= 0xFFFF_FFFF {
        out.push(252);
        out.extend_from_slice(&(v as u32).to_le_bytes());
    } else {
        out.push(253);
        out.extend_from_slice(&v.to_le_bytes());
    }
}

/// Lenient reader used ONLY to find which strings the model will need H for (the table): if it
/// misreads a file the table lacks an entry and the Coq side reports the case as malformed.
fn peek_meta(b: &[u8]) -> Option<Vec<u8>> {
    fn num(b: &[u8], p: &mut usize) -> Option<u64> {
        let d = *b.get(*p)?;
        *p += 1;
        let w = match d {
            0..=250 => return Some(d as u64),
            251 => 2,
            252 => 4,
            253 => 8,
            _ => return None,
        };
        let s = b.get(*p..*p + w)?;
        *p += w;
        let mut v = 0u64;
        for (i, x) in s.iter().enumerate() {
            v |= (*x as u64) << (8 * i);
        }
        Some(v)
    }
    let mut p = 0usize;
    let len = num(b, &mut p)?;
    if len > LIMIT {
        return None;
    }
    let pid = b.get(p..p + len as usize)?.to_vec();
    p += len as usize;
    let a = num(b, &mut p)?;
    let t = num(b, &mut p)?;
    let c = num(b, &mut p)?;
    Some(meta_of(&pid, a, t, c))
}

fn table_for(file: &[u8], extra: &[Vec<u8>]) -> Value {
    let mut t: Vec<Value> = Vec::new();
    let mut seen: Vec<Vec<u8>> = Vec::new();
    let mut add = |s: Vec<u8>| {
        if !seen.contains(&s) {
            t.push(entry(&s));
            seen.push(s);
        }
    };
    if let Some(m) = peek_meta(file) {
        add(m);
    }
    for e in extra {
        add(e.clone());
    }
    Value::Array(t)
}

#[derive(Clone)]
struct St {
    pid: String,
    cni: u64,
    ts: u64,
    pc: u64,
    cks: String,
    em: String,
    tn: u64,
    lnt: String,
    pp: u8,
}
impl St {
    fn meta(&self) -> Vec<u8> {
        meta_of(self.pid.as_bytes(), self.cni, self.ts, self.pc)
    }
    fn sealed(mut self) -> St {
        self.cks = compute_checksum(&self.meta());
        self
    }
    fn fields(&self) -> Value {
        json!([self.pid, self.cni, self.ts, self.pc, self.cks, self.em, self.tn, self.lnt, self.pp])
    }
    /// the wire image, produced here independently of bincode (checked against the real file by
    /// the `load` cases themselves: the unmodified image must load as these fields)
    fn encode(&self) -> (Vec<u8>, Vec<usize>) {
        let mut o = Vec::new();
        let mut prefixes = Vec::new();
        let s = |x: &str, o: &mut Vec<u8>, pre: &mut Vec<usize>| {
            pre.push(o.len());
            varint(x.len() as u64, o);
            o.extend_from_slice(x.as_bytes());
        };
        s(&self.pid, &mut o, &mut prefixes);
        varint(self.cni, &mut o);
        varint(self.ts, &mut o);
        varint(self.pc, &mut o);
        s(&self.cks, &mut o, &mut prefixes);
        s(&self.em, &mut o, &mut prefixes);
        varint(self.tn, &mut o);
        s(&self.lnt, &mut o, &mut prefixes);
        o.push(self.pp);
        (o, prefixes)
    }
}

fn st(pid: &str, cni: u64, ts: u64, pc: u64, em: &str, tn: u64, lnt: &str, pp: u8) -> St {
    St { pid: pid.into(), cni, ts, pc, cks: String::new(), em: em.into(), tn, lnt: lnt.into(), pp }
        .sealed()
}

const EXTREMES: [u64; 12] = [
    0,
    1,
    250,
    251,
    65535,
    65536,
    (1 << 32) - 1,
    1 << 32,
    (1 << 63) - 1,
    1 << 63,
    u64::MAX - 1,
    u64::MAX,
];

fn rand_char(rng: &mut SplitMix64) -> char {
    loop {
        let c = match rng.below(8) {
            0 | 1 => rng.below(0x80) as u32,                     // ASCII incl. NUL, '/', ':', '_'
            2 => *rng.pick(&[b':', b'_', b'/', b'+', b'.', b'0', b'9', b' ', 0u8, b'"', b'\\']) as u32,
            3 => 0x80 + rng.below(0x780) as u32,                 // 2-byte
            4 => 0x800 + rng.below(0xF800) as u32,               // 3-byte (surrogates rejected below)
            5 => 0x10000 + rng.below(0x100000) as u32,           // 4-byte
            6 => *rng.pick(&[0x7Fu32, 0x80, 0x7FF, 0x800, 0xFFFF, 0x10000, 0x10FFFF, 0xD7FF, 0xE000,
                             0x301, 0x200D, 0xFEFF, 0x663]),
            _ => b'a' as u32 + rng.below(26) as u32,
        };
        if let Some(ch) = char::from_u32(c) {
            return ch;
        }
    }
}
/// random string of at most `max_bytes` UTF-8 bytes
fn rand_string(rng: &mut SplitMix64, max_bytes: usize) -> String {
    let target = rng.below(max_bytes as u64 + 1) as usize;
    let mut s = String::new();
    loop {
        let ch = rand_char(rng);
        if s.len() + ch.len_utf8() > target {
            return s;
        }
        s.push(ch);
    }
}

fn emit_load(em: &mut Mix, file: Vec<u8>, extra: &[Vec<u8>], nontrivial: bool, tags: &[&str]) {
    let table = table_for(&file, extra);
    em.case("load", json!([{ "bytes": file }, table]), nontrivial, tags);
}

fn mutations(em: &mut Mix, s: &St, all: bool, rng: &mut SplitMix64) {
    let (img, prefixes) = s.encode();
    let base = [s.meta()];
    emit_load(em, img.clone(), &base, true, &["intact"]);
    // trailing bytes are ignored
    let mut t = img.clone();
    t.extend_from_slice(&[0xFF, 0x00, 0x7F]);
    emit_load(em, t, &base, true, &["trailing"]);
    // every truncation
    let step = if all { 1 } else { 5 };
    for k in (0..img.len()).step_by(step) {
        emit_load(em, img[..k].to_vec(), &base, true, &["trunc"]);
    }
    // every single-bit flip
    for i in 0..img.len() {
        for bit in 0..8 {
            if !all && rng.below(6) != 0 {
                continue;
            }
            let mut f = img.clone();
            f[i] ^= 1 << bit;
            emit_load(em, f, &base, true, &["flip"]);
        }
    }
    // every length prefix overwritten by a huge one (and by the exact limit boundary)
    for (k, &p) in prefixes.iter().enumerate() {
        let plen = {
            let d = img[p];
            match d {
                251 => 3,
                252 => 5,
                253 => 9,
                _ => 1,
            }
        };
        // bytes claimed before this string's own length claim (8 per integer, 8 + len per string)
        let claimed_before: u64 = match k {
            0 => 0,
            1 => 8 + s.pid.len() as u64 + 24,
            2 => 8 + s.pid.len() as u64 + 24 + 8 + s.cks.len() as u64,
            _ => 8 + s.pid.len() as u64 + 24 + 8 + s.cks.len() as u64 + 8 + s.em.len() as u64 + 8,
        };
        let edge = LIMIT - claimed_before - 8;
        let mut vals: Vec<(u64, u8)> = vec![
            (1 << 31, 252),
            (1 << 31, 253),
            (1 << 32, 253),
            (1 << 40, 253),
            (1 << 63, 253),
            (u64::MAX, 253),
            (edge, 252),
            (edge + 1, 252),
            (edge - 1, 253),
            (LIMIT, 252),
            (65535, 251),
            (0, 251),
        ];
        // the true length, non-minimally encoded: must still load
        let true_len = [s.pid.len(), s.cks.len(), s.em.len(), s.lnt.len()][k] as u64;
        vals.push((true_len, 251));
        vals.push((true_len, 252));
        vals.push((true_len, 253));
        for (v, marker) in vals {
            let mut f = img[..p].to_vec();
            f.push(marker);
            match marker {
                251 => f.extend_from_slice(&(v as u16).to_le_bytes()),
                252 => f.extend_from_slice(&(v as u32).to_le_bytes()),
                _ => f.extend_from_slice(&v.to_le_bytes()),
            }
            f.extend_from_slice(&img[p + plen..]);
            emit_load(em, f, &base, true, &["prefix-overwrite"]);
        }
        for marker in [254u8, 255] {
            let mut f = img.clone();
            f[p] = marker;
            emit_load(em, f, &base, true, &["prefix-overwrite", "bad-marker"]);
        }
    }
}

// ------------------------------------------------------------------ generate
fn generate(seed: u64, tier: Tier, em0: &mut Emitter) {
    let thorough = tier == Tier::Thorough;
    let mut rng = SplitMix64::new(seed ^ 0xC12);
    // the expensive cases (long files / long hash inputs) are prepared first and handed out evenly
    // between the cheap ones, so that no judging shard gets all of them
    let heavy = heavy_cases(seed, thorough);
    let every = (7500 / heavy.len().max(1)).max(1);
    let mut mix = Mix { em: em0, heavy: heavy.into(), since: 0, every };
    let em = &mut mix;

    // ---- 0. compute_checksum as an entry point of its own: every length 0..=200 (all padding
    //         shapes: 55/56/63/64/65 mod 64), constant 0x00 / 0x80 / 0xFF data at the boundaries
    for len in 0..=200u64 {
        em.case("sum", json!(["gen", seed.wrapping_mul(977).wrapping_add(len) & 0xFFFF_FFFF, len]), true, &["sum", "every-length"]);
    }
    for len in [0u64, 1, 55, 56, 57, 63, 64, 65, 119, 120, 127, 128, 129, 191, 192, 193, 255, 256, 257] {
        for unit in [0u8, 0x80, 0xFF] {
            em.case("sum", json!(["rep", { "bytes": [unit] }, len]), true, &["sum", "constant"]);
        }
    }
    for text in ["abc", "", "p:1:5:2", "abcdbcdecdefdefgefghfghighijhijkijkljklmklmnlmnomnopnopq"] {
        em.case("sum", json!(text), true, &["sum", "known-answer"]);
    }
    // ---- 0b. real save + real load for EVERY id length a file name can hold (and the first that
    //          it cannot), numbers of every width in the tail of the protected string
    for len in 0..=238usize {
        let pid: String = lcg_bytes(seed ^ 0x1D5 ^ len as u64, len).iter().map(|b| ID_ALPHABET[(b & 31) as usize] as char)
            .map(|c| if c == ':' && len % 3 == 0 { 'x' } else { c }).collect();
        let (cni, ts, pc) = TAILS[len % TAILS.len()];
        let s = st(&pid, cni, ts, pc, "seq", 3, "n", 50);
        em.case("rt", json!([s.fields(), [entry(&s.meta())]]), true, &["rt", "id-length"]);
    }

    // ---- 1. round trips: extremes of every numeric field, boundary lengths of every string
    for &v in &EXTREMES {
        for which in 0..4 {
            let mut s = st("p", 1, 5, 2, "seq", 3, "n", 50);
            match which {
                0 => s.cni = v,
                1 => s.ts = v,
                2 => s.pc = v,
                _ => s.tn = v,
            }
            let s = s.sealed();
            em.case("rt", json!([s.fields(), [entry(&s.meta())]]), true, &["rt", "extreme-number"]);
        }
    }
    for pp in [0u8, 1, 127, 128, 250, 251, 253, 255] {
        let s = st("p", 1, 5, 2, "seq", 3, "n", pp);
        em.case("rt", json!([s.fields(), [entry(&s.meta())]]), true, &["rt", "extreme-number"]);
    }
    for len in [0usize, 1, 250, 251, 252, 4095, 4096] {
        for which in 0..3 {
            let text: String = (0..len).map(|i| (b'a' + (i % 26) as u8) as char).collect();
            let mut s = st("p", 1, 5, 2, "seq", 3, "n", 50);
            match which {
                0 => s.em = text,
                1 => s.lnt = text,
                _ => s.pid = text, // long ids cannot be a file name: save fails
            }
            let s = s.sealed();
            em.case("rt", json!([s.fields(), [entry(&s.meta())]]), true, &["rt", "string-length"]);
        }
    }
    // pipeline ids that stress the file name and the metadata string
    let mut pids: Vec<String> = ["", "a", "a_b", "a:1:2", ":", "1:2:3", "x/y", "/", "..", "a\u{0}b", "π", "ü_1",
                                 "p_5", "+5", "日本語", "😀"].iter().map(|s| s.to_string()).collect();
    pids.extend(["é".repeat(100), "é".repeat(120), "q".repeat(219), "q".repeat(220), "q".repeat(221)]);
    for pid in &pids {
        for ts in [0u64, 7, u64::MAX] {
            let s = st(pid, 3, ts, 4, "par", 9, "GroupByKey", 30);
            em.case("rt", json!([s.fields(), [entry(&s.meta())]]), true, &["rt", "pipeline-id"]);
        }
    }
    // wrong / foreign checksums
    {
        let good = st("p", 1, 5, 2, "seq", 3, "n", 50);
        let other = st("p", 1, 6, 2, "seq", 3, "n", 50);
        let variants: Vec<String> = vec![String::new(), "0".into(), good.cks[..63].to_string(),
                                         good.cks.to_uppercase(), other.cks.clone(), format!("{} ", good.cks)];
        for cks in &variants {
            let mut s = good.clone();
            s.cks = cks.to_string();
            em.case("rt", json!([s.fields(), [entry(&s.meta())]]), true, &["rt", "wrong-checksum"]);
        }
    }
    // seeded random states, arbitrary unicode up to 4 KiB
    let n_rt = if thorough { 600 } else { 60 };
    for i in 0..n_rt {
        let big = i % 4 == 0;
        let cap = if big { 4096 } else { 40 };
        let pid_cap = if rng.chance(1, 8) { 300 } else { 24 };
        let mut s = St {
            pid: rand_string(&mut rng, pid_cap),
            cni: if rng.chance(1, 2) { *rng.pick(&EXTREMES) } else { rng.next_u64() >> rng.below(64) },
            ts: if rng.chance(1, 2) { *rng.pick(&EXTREMES) } else { rng.next_u64() >> rng.below(64) },
            pc: if rng.chance(1, 2) { *rng.pick(&EXTREMES) } else { rng.next_u64() >> rng.below(64) },
            cks: String::new(),
            em: rand_string(&mut rng, cap),
            tn: if rng.chance(1, 2) { *rng.pick(&EXTREMES) } else { rng.next_u64() >> rng.below(64) },
            lnt: rand_string(&mut rng, cap),
            pp: rng.below(256) as u8,
        }
        .sealed();
        if rng.chance(1, 10) {
            s.cks = rand_string(&mut rng, cap); // arbitrary text in the checksum field
        }
        em.case("rt", json!([s.fields(), [entry(&s.meta())]]), true, &["rt", "random"]);
    }

    // ---- 2. corrupted files
    let small = [
        st("p", 1, 5, 2, "s", 3, "m", 50),
        st("a_b", 300, 1_700_000_000_000, 70000, "", 251, "é", 255),
        st("", 0, 0, 0, "par", 0, "", 0),
    ];
    for s in &small {
        mutations(em, s, true, &mut rng);
    }
    let more = if thorough { 12 } else { 2 };
    for _ in 0..more {
        let s = St {
            pid: rand_string(&mut rng, 12),
            cni: *rng.pick(&EXTREMES),
            ts: rng.next_u64() >> rng.below(64),
            pc: *rng.pick(&EXTREMES),
            cks: String::new(),
            em: rand_string(&mut rng, 10),
            tn: rng.below(1000),
            lnt: rand_string(&mut rng, 300),
            pp: rng.below(256) as u8,
        }
        .sealed();
        mutations(em, &s, thorough, &mut rng);
    }
    // non-minimal integer encodings, bad markers in integer position, junk
    {
        let s = &small[0];
        let base = [s.meta()];
        let (img, prefixes) = s.encode();
        let cni_at = prefixes[0] + 1 + s.pid.len();
        for (marker, w) in [(251u8, 2usize), (252, 4), (253, 8)] {
            let mut f = img[..cni_at].to_vec();
            f.push(marker);
            let mut le = vec![0u8; w];
            le[0] = s.cni as u8;
            f.extend_from_slice(&le);
            f.extend_from_slice(&img[cni_at + 1..]);
            emit_load(em, f, &base, true, &["non-minimal"]);
        }
        for marker in [254u8, 255] {
            let mut f = img.clone();
            f[cni_at] = marker;
            emit_load(em, f, &base, true, &["bad-marker"]);
        }
        emit_load(em, vec![], &base, true, &["junk"]);
        for b in [0u8, 1, 250, 251, 252, 253, 254, 255] {
            emit_load(em, vec![b], &base, true, &["junk"]);
            emit_load(em, vec![b; 9], &base, true, &["junk"]);
            emit_load(em, vec![b; 64], &base, true, &["junk"]);
        }
    }
    // UTF-8 validation of a decoded string (exec_mode is not covered by the checksum, so a valid
    // replacement loads): boundary sweep over 4-byte windows around every row of Unicode Table 3-7
    {
        let s = st("p", 1, 5, 2, "abcd", 3, "m", 50);
        let base = [s.meta()];
        let (img, prefixes) = s.encode();
        let at = prefixes[2] + 1;
        let b0s: Vec<u8> = if thorough {
            (0..=255u8).collect()
        } else {
            vec![0x00, 0x7F, 0x80, 0xBF, 0xC0, 0xC1, 0xC2, 0xDF, 0xE0, 0xE1, 0xEC, 0xED, 0xEE, 0xEF, 0xF0,
                 0xF1, 0xF3, 0xF4, 0xF5, 0xF7, 0xF8, 0xFF]
        };
        for &b0 in &b0s {
            for b1 in [0x61u8, 0x7F, 0x80, 0x8F, 0x90, 0x9F, 0xA0, 0xBF, 0xC0] {
                for b2 in [0x61u8, 0x80, 0xBF, 0xC0] {
                    for b3 in [0x61u8, 0x80, 0xBF] {
                        let mut f = img.clone();
                        f[at..at + 4].copy_from_slice(&[b0, b1, b2, b3]);
                        emit_load(em, f, &base, true, &["utf8-sweep"]);
                    }
                }
            }
        }
        // sequences cut off by the end of the string
        for tail in [[0x61u8, 0x61, 0x61, 0xC2], [0x61, 0x61, 0xE2, 0x82], [0x61, 0xF0, 0x9F, 0x98],
                     [0x61, 0x61, 0x61, 0xE0], [0x61, 0x61, 0x61, 0xF4], [0x61, 0x61, 0xF0, 0x90]] {
            let mut f = img.clone();
            f[at..at + 4].copy_from_slice(&tail);
            emit_load(em, f, &base, true, &["utf8-sweep", "cut"]);
        }
    }
    let n_junk = if thorough { 3000 } else { 300 };
    for _ in 0..n_junk {
        let s = &small[rng.below(3) as usize];
        let (mut img, _) = s.encode();
        match rng.below(3) {
            0 => {
                // overwrite a random window with random bytes
                let a = rng.below(img.len() as u64) as usize;
                let l = 1 + rng.below(4) as usize;
                for i in a..(a + l).min(img.len()) {
                    img[i] = rng.below(256) as u8;
                }
            }
            1 => {
                let l = rng.below(40) as usize;
                img = (0..l).map(|_| *rng.pick(&[0u8, 1, 2, 5, 250, 251, 252, 253, 254, 255, 0x80, 0xC3, 0x41])).collect();
            }
            _ => {
                // two bit flips
                for _ in 0..2 {
                    let i = rng.below(img.len() as u64) as usize;
                    img[i] ^= 1 << rng.below(8);
                }
            }
        }
        emit_load(em, img, &[s.meta()], true, &["random-corruption"]);
    }

    // ---- 3. save histories
    let foreign: Vec<&str> = vec![
        "checkpoint_p_x.bin", "checkpoint_p_5.BIN", "checkpoint_p_5.tmp", "checkpoint_p_5.bin.tmp",
        "checkpoint_a_b_200.bin", "checkpoint_p_.bin", "checkpoint_p_-1.bin", "checkpoint_p_+.bin",
        "checkpoint_p_18446744073709551616.bin", "checkpoint_p_1 .bin", "checkpoint_p_ 1.bin",
        "xcheckpoint_p_5.bin", "checkpoint_p_5.binx", "checkpoint_p__5.bin", "checkpoint__5.bin",
        "checkpoint_p_\u{663}.bin", "checkpoint_p_1_2.bin", "Checkpoint_p_5.bin", "checkpoint_p5.bin",
        "notes.txt", ".bin", "checkpoint_p_0x10.bin", "checkpoint_p_1e3.bin",
    ];
    let odd_own: Vec<&str> = vec![
        "checkpoint_p_+7.bin", "checkpoint_p_007.bin", "checkpoint_p_18446744073709551615.bin",
        "checkpoint_p_0.bin", "checkpoint_p_00000000000000000000000000012.bin", "checkpoint_p_+0.bin",
    ];
    let queries = json!(["p", "a", "a_b", "", "p_", "zz"]);
    // corpus-like: the old prefix-confusion witness, for every retention setting
    for max in [Value::Null, json!(0), json!(1), json!(2), json!(3)] {
        em.case(
            "hist",
            json!([max, true, ["checkpoint_a_b_200.bin", "checkpoint_a_b_100.bin"],
                   [["save", "a", 100], ["save", "a", 300], ["save", "a", 50], ["save", "a_b", 150],
                    ["save", "a", 301], ["clear", "a"], ["save", "a_b", 1], ["clear", "a_b"]],
                   ["a", "a_b"]]),
            true,
            &["hist", "prefix-confusion"],
        );
        // all foreign files present, unordered timestamps
        em.case(
            "hist",
            json!([max, true, foreign,
                   [["save", "p", 5], ["save", "p", 3], ["save", "p", 9], ["save", "p", 1],
                    ["save", "p", 9], ["save", "p_", 4], ["save", "", 6], ["save", "p", 18446744073709551615u64],
                    ["save", "p", 0], ["clear", "p"], ["save", "p", 2]],
                   queries]),
            true,
            &["hist", "foreign"],
        );
        // names that parse to a timestamp although save never writes them (ties: 7 / +7 / 007)
        em.case(
            "hist",
            json!([max, true, odd_own,
                   [["save", "p", 7], ["save", "p", 12], ["save", "p", 0], ["save", "p", 8], ["clear", "p"]],
                   ["p"]]),
            true,
            &["hist", "ties"],
        );
    }
    // numeric, not lexicographic, order of the timestamps in the file names (9 < 10 < 99 < 100)
    for max in [Value::Null, json!(1), json!(2), json!(3)] {
        for order in [[9u64, 10, 99, 100], [100, 99, 10, 9], [10, 9, 100, 99], [99, 100, 9, 10]] {
            let ops: Vec<Value> = order.iter().map(|t| json!(["save", "p", t])).collect();
            em.case("hist", json!([max, true, ["checkpoint_p_8.bin", "checkpoint_p_1000.bin"], ops, ["p"]]),
                    true, &["hist", "numeric-order"]);
        }
        em.case("hist", json!([max, false, ["checkpoint_p_4.bin", "checkpoint_q_1.bin"],
                               [["save", "p", 5], ["save", "q", 3], ["save", "p", 1], ["clear", "q"]], ["p", "q"]]),
                true, &["hist", "disabled"]);
    }
    // ids that cannot be part of a file name: the save fails and nothing changes
    let long_id = "q".repeat(240);
    em.case(
        "hist",
        json!([1, true, ["checkpoint_x_4.bin", "checkpoint_y_1_9.bin"],
               [["save", "x/y_1", 5], ["save", "x", 6], ["save", long_id, 1], ["save", "a\u{0}", 2],
                ["save", "", 3], ["clear", "x/y_1"], ["clear", long_id]],
               ["x", "x/y_1", "y_1", ""]]),
        true,
        &["hist", "uncreatable"],
    );
    em.case(
        "hist",
        json!([1, false, ["checkpoint_p_4.bin"], [["save", "p", 5], ["save", "p", 3]], ["p"]]),
        true,
        &["hist", "disabled"],
    );
    // exhaustive small space: every sequence of <= 3 saves over 2 ids x 3 timestamps, every max
    let ids = ["a", "a_b"];
    let tss = [1u64, 2, 3];
    let mut seqs: Vec<Vec<(usize, u64)>> = vec![vec![]];
    let mut cur = seqs.clone();
    for _ in 0..3 {
        let mut next = Vec::new();
        for s in &cur {
            for i in 0..2 {
                for &t in &tss {
                    let mut x = s.clone();
                    x.push((i, t));
                    next.push(x);
                }
            }
        }
        seqs.extend(next.iter().cloned());
        cur = next;
    }
    for max in [Value::Null, json!(0), json!(1), json!(2)] {
        for s in &seqs {
            if s.is_empty() || (!thorough && s.len() == 3 && max != json!(1)) {
                continue;
            }
            let ops: Vec<Value> = s.iter().map(|(i, t)| json!(["save", ids[*i], t])).collect();
            em.case(
                "hist",
                json!([max, true, ["checkpoint_a_2.bin", "checkpoint_a_b_2.bin", "checkpoint_a_b_x.bin"], ops, ["a", "a_b"]]),
                s.len() >= 2,
                &["hist", "exhaustive"],
            );
        }
    }
    // seeded random histories
    let n_hist = if thorough { 1500 } else { 150 };
    let pool = ["p", "a", "a_b", "", "p_", "a_b_c"];
    for _ in 0..n_hist {
        let max = match rng.below(6) {
            0 => Value::Null,
            k => json!(k - 1),
        };
        let mut init: Vec<String> = Vec::new();
        for _ in 0..rng.below(5) {
            let n = if rng.chance(1, 2) {
                rng.pick(&foreign).to_string()
            } else if rng.chance(1, 4) {
                rng.pick(&odd_own).to_string()
            } else {
                format!("checkpoint_{}_{}.bin", rng.pick(&pool), rng.below(12))
            };
            if !init.contains(&n) {
                init.push(n);
            }
        }
        let nops = 1 + rng.below(8);
        let ops: Vec<Value> = (0..nops)
            .map(|_| {
                let pid = *rng.pick(&pool);
                if rng.chance(1, 10) {
                    json!(["clear", pid])
                } else {
                    let ts = if rng.chance(1, 8) { *rng.pick(&EXTREMES) } else { rng.below(12) };
                    json!(["save", pid, ts])
                }
            })
            .collect();
        em.case("hist", json!([max, true, init, ops, pool]), nops >= 2, &["hist", "random"]);
    }

    // ---- 4. should_checkpoint (the deterministic part: no previous save, or an interval that is
    //         0 / far beyond the duration of the test)
    for enabled in [true, false] {
        for after in [false, true] {
            for idx in [0u64, 1, 2, 3, 4, 6, 7] {
                for barrier in [false, true] {
                    let mut pols = vec![json!(["barrier"])];
                    for n in [0u64, 1, 2, 3, 7] {
                        pols.push(json!(["every", n]));
                    }
                    for secs in [0u64, 3600, u64::MAX] {
                        pols.push(json!(["time", secs]));
                        pols.push(json!(["hybrid", true, secs]));
                        pols.push(json!(["hybrid", false, secs]));
                    }
                    for p in pols {
                        em.case("should", json!([enabled, p, after, idx, barrier]), enabled, &["should"]);
                    }
                }
            }
        }
    }
    em.flush();
}

// ------------------------------------------------------------------ heavy cases, evenly mixed in
type Prepared = (String, Value, bool, Vec<String>);
struct Mix<'a, 'b> {
    em: &'a mut Emitter<'b>,
    heavy: std::collections::VecDeque<Prepared>,
    since: usize,
    every: usize,
}
impl Mix<'_, '_> {
    fn case(&mut self, kind: &str, input: Value, nontrivial: bool, tags: &[&str]) {
        self.em.case(kind, input, nontrivial, tags);
        self.since += 1;
        if self.since >= self.every {
            self.since = 0;
            self.one_heavy();
        }
    }
    fn one_heavy(&mut self) -> bool {
        match self.heavy.pop_front() {
            Some((kind, input, nt, tags)) => {
                let t: Vec<&str> = tags.iter().map(String::as_str).collect();
                self.em.case(&kind, input, nt, &t);
                true
            }
            None => false,
        }
    }
    fn flush(&mut self) {
        while self.one_heavy() {}
    }
}

/// numeric tails of the protected string: 1-byte / multi-byte varints, 6 .. 63 characters
const TAILS: [(u64, u64, u64); 6] = [
    (1, 5, 2),
    (300, 1_700_000_000_000, 70000),
    (u64::MAX, u64::MAX, u64::MAX),
    (0, 0, 0),
    (250, 251, 65536),
    (9, 99_999_999_999_999_999, 1 << 32),
];

fn varint_vec(v: u64) -> Vec<u8> {
    let mut o = Vec::new();
    varint(v, &mut o);
    o
}
fn nonminimal(v: u64, marker: u8) -> Vec<u8> {
    let mut o = vec![marker];
    match marker {
        251 => o.extend_from_slice(&(v as u16).to_le_bytes()),
        252 => o.extend_from_slice(&(v as u32).to_le_bytes()),
        _ => o.extend_from_slice(&v.to_le_bytes()),
    }
    o
}

/// Alterations of ONE encoded state, every protected field and the checksum covered:
/// (priority, op). Priority 0 ops are always kept, the others are sampled when the state is big.
#[allow(clippy::too_many_arguments)]
fn tamper_ops(pid: &[u8], nums: (u64, u64, u64), cks: &[u8], em: &[u8], tn: u64, lnt: &[u8], pp: u8,
              dense: bool) -> Vec<(u8, Value)> {
    let (img, sp) = encode_raw(pid, nums.0, nums.1, nums.2, cks, em, tn, lnt, pp);
    let mut ops: Vec<(u8, Value)> = Vec::new();
    // the unaltered file, the file with trailing junk
    ops.push((0, json!(["t", img.len()])));
    ops.push((0, json!(["s", img.len(), 0, { "bytes": [255, 0, 127] }])));
    // ---- the numeric protected fields (the TAIL of the protected string): every bit of every byte,
    //      byte overwrites, the whole field replaced by a neighbouring / extreme value
    for (k, v) in [(2usize, nums.0), (3, nums.1), (4, nums.2)] {
        let (a, n) = sp[k];
        for i in a..a + n {
            for bit in 0..8 {
                ops.push((if bit == 0 { 0 } else { 1 }, json!(["x", i, 1u64 << bit])));
            }
            for nb in [0u8, 1, 250, 251, 252, 253, 254, 255] {
                if nb != img[i] {
                    ops.push((2, json!(["x", i, nb ^ img[i]])));
                }
            }
        }
        let mut repl: Vec<u64> = vec![v.wrapping_add(1), v.wrapping_sub(1), 0, 1, v / 10, v.wrapping_mul(10),
                                      v ^ 1, v ^ (1 << 63), u64::MAX, 250, 251, 65535, 65536];
        repl.sort_unstable();
        repl.dedup();
        for (j, r) in repl.iter().enumerate() {
            if *r != v {
                ops.push((if j < 2 { 0 } else { 1 }, json!(["s", a, n, { "bytes": varint_vec(*r) }])));
            }
        }
        // the SAME value in a wider encoding is the same state: must still be accepted
        for marker in [251u8, 252, 253] {
            let fits = match marker {
                251 => v <= 0xFFFF,
                252 => v <= 0xFFFF_FFFF,
                _ => true,
            };
            if fits && nonminimal(v, marker) != img[a..a + n] {
                ops.push((1, json!(["s", a, n, { "bytes": nonminimal(v, marker) }])));
            }
        }
    }
    // two numeric fields exchanged / shifted (index <-> timestamp <-> partitions)
    {
        let (a, _) = sp[2];
        let end = sp[4].0 + sp[4].1;
        for (x, y, z) in [(nums.1, nums.0, nums.2), (nums.0, nums.2, nums.1), (nums.2, nums.1, nums.0),
                          (nums.1, nums.2, nums.0)] {
            if (x, y, z) != nums {
                let mut b = varint_vec(x);
                b.extend(varint_vec(y));
                b.extend(varint_vec(z));
                ops.push((1, json!(["s", a, end - a, { "bytes": b }])));
            }
        }
    }
    // ---- the pipeline id: its ends, every 64-byte boundary of the protected string, the start of
    //      its last partial block; short ids completely
    {
        let (a, n) = sp[1];
        let meta_len = n + format!(":{}:{}:{}", nums.0, nums.1, nums.2).len();
        let mut pos: Vec<usize> = vec![0, 1, n.saturating_sub(2), n.saturating_sub(1), n / 2];
        let mut k = 64;
        while k <= n + 1 {
            pos.extend([k - 1, k, k + 1]);
            k *= 2;
        }
        let mut k = 64;
        while k <= n + 1 {
            pos.extend([k - 1, k]);
            k += 64;
        }
        let last_block = meta_len / 64 * 64;
        pos.extend([last_block.saturating_sub(1), last_block, last_block + 1]);
        if n <= 70 || dense {
            pos.extend(0..n.min(if dense { 300 } else { 70 }));
        }
        pos.retain(|p| *p < n);
        pos.sort_unstable();
        pos.dedup();
        for (j, p) in pos.iter().enumerate() {
            for (m, mask) in [1u8, 0x20, 0x80, 2, 4, 8, 0x10, 0x40].iter().enumerate() {
                let pr = if m == 0 && (j % 7 == 0 || *p + 1 == n) { 0 } else if m < 3 { 1 } else { 2 };
                ops.push((pr, json!(["x", a + p, mask])));
            }
        }
        // the length prefix one off in both directions (shifts every later field)
        let (pa, pn) = sp[0];
        ops.push((0, json!(["s", pa, pn, { "bytes": varint_vec(n as u64 + 1) }])));
        if n > 0 {
            ops.push((0, json!(["s", pa, pn, { "bytes": varint_vec(n as u64 - 1) }])));
        }
        for marker in [251u8, 252, 253] {
            if (marker != 251 || n <= 0xFFFF) && nonminimal(n as u64, marker) != img[pa..pa + pn] {
                ops.push((1, json!(["s", pa, pn, { "bytes": nonminimal(n as u64, marker) }])));
            }
        }
        for bit in 0..8 {
            ops.push((2, json!(["x", pa, 1u64 << bit])));
        }
        // a digit moved across the id / index boundary: "ab1" index 2 <-> "ab" index 12 ...
        // (with the length prefix left alone the decoder reads one byte of the index into the id:
        // every later field shifts)
        if n > 0 {
            let moved = format!("{}{}", pid[n - 1] % 10, nums.0);
            if let Ok(v) = moved.parse::<u64>() {
                ops.push((1, json!(["s", a + n - 1, 1 + sp[2].1, { "bytes": varint_vec(v) }])));
            }
        }
    }
    // ---- the checksum: every character, its length prefix
    {
        let (a, n) = sp[6];
        for i in 0..n {
            ops.push((if i == 0 || i + 1 == n { 0 } else { 1 }, json!(["x", a + i, 1])));
            ops.push((2, json!(["x", a + i, 0x20])));
            ops.push((2, json!(["x", a + i, 0x80])));
        }
        let (pa, pn) = sp[5];
        for l in [n as u64 + 1, (n as u64).saturating_sub(1), 0, 32] {
            ops.push((1, json!(["s", pa, pn, { "bytes": varint_vec(l) }])));
        }
        ops.push((1, json!(["s", a, n, { "bytes": cks.to_ascii_uppercase() }])));
        ops.push((1, json!(["s", a, n, compute_checksum(b"")])));
    }
    // ---- the unprotected rest: one alteration each (accepted, different state), every truncation
    //      at an item boundary
    for k in [8usize, 9, 11, 12] {
        let (a, n) = sp[k];
        if n > 0 {
            ops.push((1, json!(["x", a, 1])));
        }
    }
    for (a, n) in &sp {
        ops.push((1, json!(["t", a])));
        if *n > 1 {
            ops.push((2, json!(["t", a + n - 1])));
        }
    }
    ops.push((0, json!(["t", img.len() - 1])));
    ops
}

fn heavy_cases(seed: u64, thorough: bool) -> Vec<Prepared> {
    let mut rng = SplitMix64::new(seed ^ 0xC12_7A3);
    let mut out: Vec<Prepared> = Vec::new();
    // ---- compute_checksum on long inputs: around every power of two up to 64 KiB (thorough: 1 MiB)
    let top = if thorough { 20 } else { 16 };
    for k in 8..=top {
        let n = 1u64 << k;
        let mut lens = vec![n - 1, n, n + 1];
        if k <= 14 || thorough {
            lens.extend([n + 55, n + 56, n + 63, n - 9, n - 8]);
        }
        for len in lens {
            out.push(("sum".into(), json!(["gen", rng.next_u64() >> 34, len]), true,
                      vec!["sum".into(), "power-of-two".into()]));
        }
    }
    for len in [300u64, 1000, 4095, 5000, 10000] {
        out.push(("sum".into(), json!(["rep", "id:", len]), true, vec!["sum".into(), "repeated".into()]));
    }
    // ---- tamper sweeps: id lengths across every block size up to 4 KiB (short ids included)
    let mut lens: Vec<usize> = vec![0, 1, 2, 7, 15, 16, 17, 20, 31, 32, 33, 40, 44, 45, 46, 50, 55, 56, 57, 58, 60,
                                    63, 64, 65, 100, 119, 120, 121, 127, 128, 129, 200, 255, 256, 257, 300, 500,
                                    511, 512, 513, 1000, 1023, 1024, 1025, 2000, 2047, 2048, 2049, 3000, 4000,
                                    4095, 4096];
    if thorough {
        lens.extend(3..=140);
        lens.extend([8191, 8192, 8193, 16384, 65536]);
        lens.sort_unstable();
        lens.dedup();
    }
    for (i, &len) in lens.iter().enumerate() {
        let n_tails = if thorough { 3 } else { 2 };
        for t in 0..n_tails {
            let nums = match t {
                0 => TAILS[i % TAILS.len()],
                1 => TAILS[(i + 2 + i / TAILS.len()) % TAILS.len()],
                _ => (rng.next_u64() >> rng.below(64), rng.next_u64() >> rng.below(64), rng.next_u64() >> rng.below(64)),
            };
            // ids: LCG letters (':' and '_' included); every fifth one non-ASCII
            let pseed = rng.next_u64() >> 34;
            let (pid_spec, pid) = if i % 5 == 4 && len >= 2 {
                let unit = if len % 3 == 0 { "日" } else { "é" };
                let count = len / unit.len();
                let pad = "z".repeat(len - count * unit.len());
                let text = format!("{}{}", unit.repeat(count), pad);
                if pad.is_empty() {
                    (json!(["rep", unit, count]), text.into_bytes())
                } else {
                    (json!(text), text.into_bytes())
                }
            } else {
                let v = json!(["ids", pseed, len]);
                let b = data_of(&v).unwrap();
                (v, b)
            };
            let mut meta = pid.clone();
            meta.extend_from_slice(format!(":{}:{}:{}", nums.0, nums.1, nums.2).as_bytes());
            let cks = compute_checksum(&meta);
            let (em, tn, lnt, pp) = ("seq", 3u64, "Map", 50u8);
            let all = tamper_ops(&pid, nums, cks.as_bytes(), em.as_bytes(), tn, lnt.as_bytes(), pp, thorough);
            // what one op costs on the judging side grows with the number of SHA-256 blocks
            let blocks = meta.len() / 64 + 1;
            let budget = ((if thorough { 30000 } else { 2500 }) / blocks).clamp(if thorough { 300 } else { 70 }, if thorough { 4000 } else { 300 });
            let must = all.iter().filter(|(p, _)| *p == 0).count();
            let rest = all.len() - must;
            let keep_rest = budget.saturating_sub(must);
            let mut ops: Vec<Value> = Vec::new();
            for (p, op) in all {
                // priority 1 is twice as likely to survive as priority 2
                let keep = p == 0 || rest <= keep_rest
                    || rng.below((rest as u64) * 2) < (keep_rest as u64) * if p == 1 { 3 } else { 1 };
                if keep {
                    ops.push(op);
                }
            }
            let per_case = (300 / blocks).clamp(4, 48);
            for chunk in ops.chunks(per_case) {
                let fields = json!([pid_spec, nums.0, nums.1, nums.2, cks, em, tn, lnt, pp]);
                out.push(("tamper".into(), json!([fields, chunk]), true,
                          vec!["tamper".into(), if len > 45 { "long-id".into() } else { "short-id".into() }]));
            }
        }
    }
    out
}

fn main() {
    if std::env::args().nth(1).as_deref() == Some("--c12-worker") {
        worker_main();
        return;
    }
    let _ = std::fs::create_dir_all(scratch_root());
    drive(&generate, &run);
    shutdown_worker();
    let _ = std::fs::remove_dir_all(scratch_root());
}
