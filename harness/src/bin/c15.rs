//! C15: approximate aggregations (t-digest quantiles, KMV distinct count) stay within their bounds.
//! Runs the REAL `TDigest`, `ApproxQuantiles`, `ApproxMedian`, `KMVApproxDistinctCount` (directly
//! and through pipelines) and prints what they return; everything is judged in Corr/C15.v.
//!
//! floats travel as {"f": "<hex literal>"} (exact).
//! digest program `prog`:
//!   ["new", c] | ["add", prog, [v..]] | ["addw", prog, [[v,w]..]] | ["merge", prog, prog]
//!   | ["group", c, [v..]]   (ApproxQuantiles::build_from_group: adds, then compress)
//!   | ["groupm", c, [v..]]  (ApproxMedian::build_from_group)
//! kinds
//!   "td" / "tdx": in = [prog, qs, xs]
//!          out = ["ok", [state, quantiles(qs), [cdf(x)..], count, is_empty,
//!                        ApproxQuantiles(qs).finish, ApproxMedian.finish]]
//!          state = [[[mean, weight]..], total_weight, min, max, compression] (verif_state hook).
//!          "tdx" = the extreme-magnitude stream (only the property instance is judged).
//!          "tdw" = add_weighted with weights < 1 (outside the property; only agreement is judged).
//!   "mono": in = [prog, qs ascending]; out = ["ok", [quantiles(qs), ApproxQuantiles(qs).finish]]
//!   "pipe": in = [variant, c, data, qs, parts, fanout]   (parts 0 = collect_seq; fanout 0 = None)
//!          variant "glob"  from_vec(values).combine_globally(ApproxQuantiles)
//!                  "globl" .combine_globally_lifted(ApproxQuantiles)
//!                  "med"   .combine_globally(ApproxMedian)           (out: one float in a list)
//!                  "vals"  from_vec([k,v]..).combine_values(ApproxQuantiles)
//!                  "gbkl"  .group_by_key().combine_values_lifted(ApproxQuantiles)
//!          out = ["ok", [q..]] or ["ok", [[k, [q..]]..]] sorted by key
//!   "stat": in = [c, n, a, b, parts, qs]: values ((a*i+b) mod n) as f64, i = 0..n, cut into
//!          `parts` contiguous chunks, one digest per chunk (add), merged left to right, finish.
//!          out = ["ok", [q..]]
//!   "kmv":  in = [k, shape, [[lifted, [elem..]]..]]  elements are u64 (< 2^62); one accumulator
//!          per part (lifted 1 = build_from_group, 0 = create + add_input), merged
//!          shape 0 = left to right into the first, 1 = right to left, 2 = balanced tree;
//!          out = ["ok", [estimate, [[rank..]..], plain]]  rank = DefaultHasher(elem) as f64 / 2^64
//!          (used on the AGREEMENT side only); plain = the real combiner on the distinct elements,
//!          ascending, one accumulator, add_input only (the PROPERTY side compares with it: the
//!          property names no hash function)
//!   "kmvp": in = [k, [elem..], parts]        approx_distinct_count(k); out as "kmv" (one part)
//!   "kmvs": as "kmvp" for big inputs: elements and ranks travel in chunks of <= 4000
//!          (in = [k, [[elem..]..], parts], out = ["ok", [estimate, [[rank..]..]]]) because coqc's
//!          parser overflows its stack on a single list literal of 10^5 elements
//!   "kmvk": in = [k, [[key, elem]..], parts] approx_distinct_count_per_key(k);
//!          out = ["ok", [[[key, estimate]..] sorted, [rank per pair..], [[key, plain]..]]]
//! compact streams (big cases): segs = [[key, start, step, count, modulus]..]; segment = the
//!          integers (start + step*j) mod modulus, j = 0..count (modulus 0: none), under `key`
//!   "kh":  in = [k, segs, parts, fan]  every public entry point that builds a KMV sketch on the
//!          same u64 data; out = ["ok", [adc, cg, cgl, adck, cv, gbkl, cvl, twin, dst, dstk, dir, adck2, plain, kplain]]
//!          (see Corr/C15.v check_kh); no ranks travel: Coq hashes the elements itself
//!   "kx":  in = [k, start, step, count, parts]  count distinct ids start + step*j far below a huge
//!          sketch size (d of order 10^5: a rank function with fewer than 64 bits collides);
//!          out = ["ok", [approx_distinct_count, approx_distinct_count_per_key (one key, reversed)]];
//!          property only (exact count), no model run
//!   "qh":  in = [comb, c, segs, qs, parts, fan, den, vtype]  every public entry point that builds
//!          a t-digest on the same data (value = integer / den as vtype f64 | f32 | i32 | u16);
//!          comb = aq | five | pct | median | med | meddef; out = ["ok", [cg, cgl, cv, gbkl, cvl, cv2]]
use ibv::{Emitter, SplitMix64, Tier, drive, ok};
use ironbeam::collection::{CombineFn, LiftableCombiner};
use ironbeam::combiners::{ApproxMedian, ApproxQuantiles, KMVApproxDistinctCount, TDigest};
use ironbeam::{PCollection, Pipeline, RFBound, from_vec};
use serde_json::{Value, json};
use std::hash::{DefaultHasher, Hash, Hasher};

// ------------------------------------------------------------------ float <-> JSON
fn hexs(x: f64) -> String {
    let bits = x.to_bits();
    let neg = bits >> 63 == 1;
    let exp = ((bits >> 52) & 0x7ff) as i64;
    let man = bits & ((1u64 << 52) - 1);
    let body = if exp == 0x7ff {
        if man == 0 { "infinity".to_string() } else { "nan".to_string() }
    } else if exp == 0 {
        if man == 0 { "0x0p+0".to_string() } else { format!("0x0.{man:013x}p-1022") }
    } else {
        let e = exp - 1023;
        format!("0x1.{man:013x}p{}{}", if e < 0 { "-" } else { "+" }, e.abs())
    };
    if neg && body != "nan" { format!("(-{body})") } else { body }
}
fn fj(x: f64) -> Value {
    json!({"f": hexs(x)})
}
fn fjs(xs: &[f64]) -> Value {
    Value::Array(xs.iter().map(|&x| fj(x)).collect())
}
fn pf(v: &Value) -> f64 {
    let s = v["f"].as_str().expect("float literal");
    let (neg, s) = match s.strip_prefix("(-") {
        Some(r) => (true, r.strip_suffix(')').expect("paren")),
        None => (false, s),
    };
    let mag = if s == "infinity" {
        f64::INFINITY
    } else if s == "nan" {
        f64::NAN
    } else if s == "0x0p+0" {
        0.0
    } else if let Some(r) = s.strip_prefix("0x0.") {
        let man = u64::from_str_radix(&r[..13], 16).expect("mantissa");
        f64::from_bits(man)
    } else {
        let r = s.strip_prefix("0x1.").expect("hex float");
        let man = u64::from_str_radix(&r[..13], 16).expect("mantissa");
        let e: i64 = r[14..].parse().expect("exponent");
        f64::from_bits((((e + 1023) as u64) << 52) | man)
    };
    if neg { -mag } else { mag }
}
fn pfs(v: &Value) -> Vec<f64> {
    v.as_array().expect("float array").iter().map(pf).collect()
}

// ------------------------------------------------------------------ running the real code
fn eval(p: &Value) -> TDigest {
    let a = p.as_array().expect("prog");
    match a[0].as_str().expect("prog tag") {
        "new" => TDigest::new(pf(&a[1])),
        "add" => {
            let mut d = eval(&a[1]);
            for v in pfs(&a[2]) {
                d.add(v);
            }
            d
        }
        "addw" => {
            let mut d = eval(&a[1]);
            for vw in a[2].as_array().unwrap() {
                d.add_weighted(pf(&vw[0]), pf(&vw[1]));
            }
            d
        }
        "merge" => {
            let mut d = eval(&a[1]);
            let o = eval(&a[2]);
            d.merge(&o);
            d
        }
        "group" => ApproxQuantiles::<f64>::new(vec![], pf(&a[1])).build_from_group(&pfs(&a[2])),
        "groupm" => ApproxMedian::<f64>::new(pf(&a[1])).build_from_group(&pfs(&a[2])),
        other => panic!("bad prog tag {other}"),
    }
}

fn state(d: &TDigest) -> Value {
    let (cs, total, min, max, comp) = d.verif_state();
    let cj: Vec<Value> = cs.iter().map(|&(m, w)| json!([fj(m), fj(w)])).collect();
    json!([cj, fj(total), fj(min), fj(max), fj(comp)])
}

fn rank_of(e: u64) -> f64 {
    let mut h = DefaultHasher::new();
    e.hash(&mut h);
    (h.finish() as f64) / ((u64::MAX as f64) + 1.0)
}

fn u64s(v: &Value) -> Vec<u64> {
    v.as_array().unwrap().iter().map(|x| x.as_u64().unwrap()).collect()
}

fn stat_values(n: u64, a: u64, b: u64) -> Vec<f64> {
    (0..n).map(|i| ((a.wrapping_mul(i).wrapping_add(b)) % n) as f64).collect()
}

/// merge accumulators: shape 0 = left to right into the first, 1 = right to left (the earlier
/// part absorbs the later ones), 2 = balanced tree
fn merge_shape<T>(comb: &KMVApproxDistinctCount<u64>, accs: Vec<T>, shape: u64) -> T
where
    KMVApproxDistinctCount<u64>: CombineFn<u64, T, f64>,
{
    fn tree<T>(comb: &KMVApproxDistinctCount<u64>, mut v: Vec<T>) -> Option<T>
    where
        KMVApproxDistinctCount<u64>: CombineFn<u64, T, f64>,
    {
        if v.len() <= 1 {
            return v.pop();
        }
        let right = v.split_off(v.len() / 2);
        let mut l = tree(comb, v).unwrap();
        let r = tree(comb, right).unwrap();
        comb.merge(&mut l, r);
        Some(l)
    }
    match shape {
        0 => {
            let mut it = accs.into_iter();
            let mut a = it.next().unwrap_or_else(|| comb.create());
            for o in it {
                comb.merge(&mut a, o);
            }
            a
        }
        1 => {
            let mut it = accs.into_iter().rev();
            let mut a = it.next().unwrap_or_else(|| comb.create());
            for mut o in it {
                comb.merge(&mut o, a);
                a = o;
            }
            a
        }
        _ => tree(comb, accs).unwrap_or_else(|| comb.create()),
    }
}

/// the plain run the property compares everything with: every distinct element once, in
/// ascending order, one accumulator, create + add_input, finish -- no duplicates, no partitions,
/// no merge (whatever hash function the sketch uses, its answer for a SET of elements is this)
fn kmv_plain(k: usize, elems: &[u64]) -> f64 {
    let mut e: Vec<u64> = elems.to_vec();
    e.sort_unstable();
    e.dedup();
    let comb = KMVApproxDistinctCount::<u64>::new(k);
    let mut a = comb.create();
    for x in e {
        comb.add_input(&mut a, x);
    }
    comb.finish(a)
}

fn run(kind: &str, input: &Value) -> Value {
    match kind {
        "td" | "tdx" | "tdw" => {
            let d = eval(&input[0]);
            let qs = pfs(&input[1]);
            let xs = pfs(&input[2]);
            let st = state(&d);
            let direct = d.quantiles(&qs);
            let cdfs: Vec<f64> = xs.iter().map(|&x| d.cdf(x)).collect();
            let comp = d.verif_state().4;
            let fin = ApproxQuantiles::<f64>::new(qs.clone(), comp).finish(d.clone());
            let med = ApproxMedian::<f64>::new(comp).finish(d.clone());
            ok(json!([st, fjs(&direct), fjs(&cdfs), fj(d.count()), d.is_empty(), fjs(&fin), fj(med)]))
        }
        "mono" => {
            let d = eval(&input[0]);
            let qs = pfs(&input[1]);
            let direct = d.quantiles(&qs);
            let comp = d.verif_state().4;
            let fin = ApproxQuantiles::<f64>::new(qs.clone(), comp).finish(d);
            ok(json!([fjs(&direct), fjs(&fin)]))
        }
        "pipe" => {
            let variant = input[0].as_str().unwrap();
            let c = pf(&input[1]);
            let qs = pfs(&input[3]);
            let parts = input[4].as_u64().unwrap() as usize;
            let fan = input[5].as_u64().unwrap() as usize;
            let fanout = if fan == 0 { None } else { Some(fan) };
            let p = Pipeline::default();
            match variant {
                "glob" | "globl" | "med" => {
                    let vals = pfs(&input[2]);
                    let src = from_vec(&p, vals);
                    let res: Vec<Vec<f64>> = match variant {
                        "glob" => {
                            let out = src.combine_globally(ApproxQuantiles::<f64>::new(qs, c), fanout);
                            if parts == 0 { out.collect_seq() } else { out.collect_par(None, Some(parts)) }
                                .expect("collect")
                        }
                        "globl" => {
                            let out = src
                                .combine_globally_lifted(ApproxQuantiles::<f64>::new(qs, c), fanout);
                            if parts == 0 { out.collect_seq() } else { out.collect_par(None, Some(parts)) }
                                .expect("collect")
                        }
                        _ => {
                            let out = src.combine_globally(ApproxMedian::<f64>::new(c), fanout);
                            let r: Vec<f64> =
                                if parts == 0 { out.collect_seq() } else { out.collect_par(None, Some(parts)) }
                                    .expect("collect");
                            r.into_iter().map(|m| vec![m]).collect()
                        }
                    };
                    if res.len() != 1 {
                        return json!(["err", "not-one-output"]);
                    }
                    ok(fjs(&res[0]))
                }
                "vals" | "gbkl" => {
                    let kvs: Vec<(i64, f64)> = input[2]
                        .as_array()
                        .unwrap()
                        .iter()
                        .map(|kv| (kv[0].as_i64().unwrap(), pf(&kv[1])))
                        .collect();
                    let src = from_vec(&p, kvs);
                    let out = if variant == "vals" {
                        src.combine_values(ApproxQuantiles::<f64>::new(qs, c))
                    } else {
                        src.group_by_key().combine_values_lifted(ApproxQuantiles::<f64>::new(qs, c))
                    };
                    let mut res: Vec<(i64, Vec<f64>)> =
                        if parts == 0 { out.collect_seq() } else { out.collect_par(None, Some(parts)) }
                            .expect("collect");
                    res.sort_by_key(|kv| kv.0);
                    ok(Value::Array(res.iter().map(|(k, v)| json!([k, fjs(v)])).collect()))
                }
                _ => json!(["bad-variant"]),
            }
        }
        "stat" => {
            let c = pf(&input[0]);
            let n = input[1].as_u64().unwrap();
            let (a, b) = (input[2].as_u64().unwrap(), input[3].as_u64().unwrap());
            let parts = input[4].as_u64().unwrap().max(1) as usize;
            let qs = pfs(&input[5]);
            let vals = stat_values(n, a, b);
            let chunk = vals.len().div_ceil(parts).max(1);
            let aq = ApproxQuantiles::<f64>::new(qs, c);
            let mut acc: Option<TDigest> = None;
            for ch in vals.chunks(chunk) {
                let mut d = aq.create();
                for &v in ch {
                    aq.add_input(&mut d, v);
                }
                match acc.as_mut() {
                    None => acc = Some(d),
                    Some(a0) => aq.merge(a0, d),
                }
            }
            let acc = acc.unwrap_or_else(|| aq.create());
            ok(fjs(&aq.finish(acc)))
        }
        "kmv" => {
            let k = input[0].as_u64().unwrap() as usize;
            let shape = input[1].as_u64().unwrap();
            let comb = KMVApproxDistinctCount::<u64>::new(k);
            let mut accs = Vec::new();
            let mut ranks = Vec::new();
            for part in input[2].as_array().unwrap() {
                let lifted = part[0].as_u64().unwrap() == 1;
                let elems = u64s(&part[1]);
                ranks.push(fjs(&elems.iter().map(|&e| rank_of(e)).collect::<Vec<_>>()));
                let acc = if lifted {
                    comb.build_from_group(&elems)
                } else {
                    let mut a = comb.create();
                    for e in elems {
                        comb.add_input(&mut a, e);
                    }
                    a
                };
                accs.push(acc);
            }
            let acc = merge_shape(&comb, accs, shape);
            let all: Vec<u64> = input[2].as_array().unwrap().iter().flat_map(|p| u64s(&p[1])).collect();
            ok(json!([fj(comb.finish(acc)), ranks, fj(kmv_plain(k, &all))]))
        }
        "kmvp" => {
            let k = input[0].as_u64().unwrap() as usize;
            let elems = u64s(&input[1]);
            let parts = input[2].as_u64().unwrap() as usize;
            let ranks = fjs(&elems.iter().map(|&e| rank_of(e)).collect::<Vec<_>>());
            let plain = kmv_plain(k, &elems);
            let p = Pipeline::default();
            let out = from_vec(&p, elems).approx_distinct_count(k);
            let res: Vec<f64> =
                if parts == 0 { out.collect_seq() } else { out.collect_par(None, Some(parts)) }
                    .expect("collect");
            if res.len() != 1 {
                return json!(["err", "not-one-output"]);
            }
            ok(json!([fj(res[0]), [ranks], fj(plain)]))
        }
        "kmvs" => {
            let k = input[0].as_u64().unwrap() as usize;
            let chunks: Vec<Vec<u64>> = input[1].as_array().unwrap().iter().map(u64s).collect();
            let parts = input[2].as_u64().unwrap() as usize;
            let ranks: Vec<Value> = chunks
                .iter()
                .map(|c| fjs(&c.iter().map(|&e| rank_of(e)).collect::<Vec<_>>()))
                .collect();
            let elems: Vec<u64> = chunks.into_iter().flatten().collect();
            let plain = kmv_plain(k, &elems);
            let p = Pipeline::default();
            let out = from_vec(&p, elems).approx_distinct_count(k);
            let res: Vec<f64> =
                if parts == 0 { out.collect_seq() } else { out.collect_par(None, Some(parts)) }
                    .expect("collect");
            if res.len() != 1 {
                return json!(["err", "not-one-output"]);
            }
            ok(json!([fj(res[0]), ranks, fj(plain)]))
        }
        "kmvk" => {
            let k = input[0].as_u64().unwrap() as usize;
            let kvs: Vec<(i64, u64)> = input[1]
                .as_array()
                .unwrap()
                .iter()
                .map(|kv| (kv[0].as_i64().unwrap(), kv[1].as_u64().unwrap()))
                .collect();
            let parts = input[2].as_u64().unwrap() as usize;
            let ranks = fjs(&kvs.iter().map(|&(_, e)| rank_of(e)).collect::<Vec<_>>());
            let kvs2 = kvs.clone();
            let p = Pipeline::default();
            let out = from_vec(&p, kvs).approx_distinct_count_per_key(k);
            let mut res: Vec<(i64, f64)> =
                if parts == 0 { out.collect_seq() } else { out.collect_par(None, Some(parts)) }
                    .expect("collect");
            res.sort_by_key(|kv| kv.0);
            let rj: Vec<Value> = res.iter().map(|&(k, e)| json!([k, fj(e)])).collect();
            let pj: Vec<Value> = res
                .iter()
                .map(|&(key, _)| {
                    let mine: Vec<u64> = kvs2.iter().filter(|kv| kv.0 == key).map(|kv| kv.1).collect();
                    json!([key, fj(kmv_plain(k, &mine))])
                })
                .collect();
            ok(json!([rj, ranks, pj]))
        }
        "kx" => {
            // exactness far below a huge sketch size: count distinct ids start + step*j
            let k = input[0].as_u64().unwrap() as usize;
            let (start, step, count) =
                (input[1].as_u64().unwrap(), input[2].as_u64().unwrap(), input[3].as_u64().unwrap());
            let parts = input[4].as_u64().unwrap() as usize;
            let elems: Vec<u64> = (0..count).map(|j| start + step * j).collect();
            let p = Pipeline::default();
            let adc = one(collect(from_vec(&p, elems.clone()).approx_distinct_count(k), parts));
            let pairs: Vec<(i64, u64)> = elems.iter().rev().map(|&e| (1, e)).collect();
            let adck = collect(from_vec(&p, pairs).approx_distinct_count_per_key(k), if parts == 0 { 3 } else { 0 });
            assert!(adck.len() == 1, "one key");
            ok(json!([fj(adc), fj(adck[0].1)]))
        }
        "kh" => run_kh(input),
        "qh" => run_qh(input),
        _ => json!(["bad-kind"]),
    }
}

fn collect<T: RFBound>(pc: PCollection<T>, parts: usize) -> Vec<T> {
    if parts == 0 { pc.collect_seq() } else { pc.collect_par(None, Some(parts)) }.expect("collect")
}

/// expand [[key, start, step, count, modulus]..] into (key, integers) per segment
fn seg_groups(v: &Value) -> Vec<(i64, Vec<i64>)> {
    v.as_array()
        .expect("segs")
        .iter()
        .map(|s| {
            let key = s[0].as_i64().unwrap();
            let (start, step) = (i128::from(s[1].as_i64().unwrap()), i128::from(s[2].as_i64().unwrap()));
            let count = s[3].as_u64().unwrap();
            let m = i128::from(s[4].as_i64().unwrap());
            let vals = (0..count)
                .map(|j| {
                    let e = start + step * i128::from(j);
                    (if m == 0 { e } else { e.rem_euclid(m) }) as i64
                })
                .collect();
            (key, vals)
        })
        .collect()
}

fn kests(mut res: Vec<(i64, f64)>) -> Value {
    res.sort_by_key(|kv| kv.0);
    Value::Array(res.iter().map(|&(k, e)| json!([k, fj(e)])).collect())
}

fn one(res: Vec<f64>) -> f64 {
    assert!(res.len() == 1, "not one output");
    res[0]
}

fn run_kh(input: &Value) -> Value {
    let k = input[0].as_u64().unwrap() as usize;
    let groups: Vec<(i64, Vec<u64>)> = seg_groups(&input[1])
        .into_iter()
        .map(|(key, es)| (key, es.into_iter().map(|e| u64::try_from(e).expect("element >= 0")).collect()))
        .collect();
    let parts = input[2].as_u64().unwrap() as usize;
    let fan = input[3].as_u64().unwrap() as usize;
    let fanout = if fan == 0 { None } else { Some(fan) };
    let pairs: Vec<(i64, u64)> =
        groups.iter().flat_map(|(key, es)| es.iter().map(move |&e| (*key, e))).collect();
    let elems: Vec<u64> = pairs.iter().map(|kv| kv.1).collect();
    let mut keys: Vec<i64> = groups.iter().map(|g| g.0).collect();
    keys.sort_unstable();
    keys.dedup();
    let p = Pipeline::default();
    let adc = one(collect(from_vec(&p, elems.clone()).approx_distinct_count(k), parts));
    let cg = one(collect(
        from_vec(&p, elems.clone()).combine_globally(KMVApproxDistinctCount::<u64>::new(k), fanout),
        parts,
    ));
    let cgl = one(collect(
        from_vec(&p, elems.clone()).combine_globally_lifted(KMVApproxDistinctCount::<u64>::new(k), fanout),
        parts,
    ));
    // the same PCollection collected twice: first as asked, then again the other way
    // (sequentially if it ran in parallel, with 3 partitions if it ran sequentially)
    let adck_pc = from_vec(&p, pairs.clone()).approx_distinct_count_per_key(k);
    let adck = collect(adck_pc.clone(), parts);
    let adck2 = collect(adck_pc, if parts == 0 { 3 } else { 0 });
    let cv = collect(from_vec(&p, pairs.clone()).combine_values(KMVApproxDistinctCount::<u64>::new(k)), parts);
    let gbkl = collect(
        from_vec(&p, pairs.clone()).group_by_key().combine_values_lifted(KMVApproxDistinctCount::<u64>::new(k)),
        parts,
    );
    let cvl = collect(
        from_vec(&p, groups.clone()).combine_values_lifted(KMVApproxDistinctCount::<u64>::new(k)),
        parts,
    );
    let twin: Vec<(i64, f64)> = keys
        .iter()
        .map(|&key| {
            let mine: Vec<u64> = pairs.iter().filter(|kv| kv.0 == key).map(|kv| kv.1).collect();
            (key, one(collect(from_vec(&p, mine).approx_distinct_count(k), parts)))
        })
        .collect();
    // the CombineFn / LiftableCombiner API by hand: one accumulator per segment (even segments
    // build_from_group, odd ones create + add_input), merged in shape fan % 3
    let comb = KMVApproxDistinctCount::<u64>::new(k);
    let accs: Vec<_> = groups
        .iter()
        .enumerate()
        .map(|(i, (_, es))| {
            if i % 2 == 0 {
                comb.build_from_group(es)
            } else {
                let mut a = comb.create();
                for &e in es {
                    comb.add_input(&mut a, e);
                }
                a
            }
        })
        .collect();
    let dir = comb.finish(merge_shape(&comb, accs, fan as u64 % 3));
    let plain = kmv_plain(k, &elems);
    let kplain: Vec<(i64, f64)> = keys
        .iter()
        .map(|&key| {
            let mine: Vec<u64> = pairs.iter().filter(|kv| kv.0 == key).map(|kv| kv.1).collect();
            (key, kmv_plain(k, &mine))
        })
        .collect();
    let dst = collect(from_vec(&p, elems).distinct(), parts).len();
    let dk = collect(from_vec(&p, pairs).distinct_per_key(), parts);
    let dstk: Vec<Value> =
        keys.iter().map(|&key| json!([key, dk.iter().filter(|kv| kv.0 == key).count()])).collect();
    ok(json!([fj(adc), fj(cg), fj(cgl), kests(adck), kests(cv), kests(gbkl), kests(cvl), kests(twin), dst, dstk, fj(dir), kests(adck2), fj(plain), kests(kplain)]))
}

/// the five pipeline entry points for one t-digest combiner over values of type V
fn qh_entries<V, C, O>(
    comb: &C,
    groups: &[(i64, Vec<V>)],
    parts: usize,
    fanout: Option<usize>,
    to_list: &dyn Fn(O) -> Vec<f64>,
) -> Value
where
    V: RFBound + Into<f64>,
    O: RFBound,
    C: CombineFn<V, TDigest, O> + LiftableCombiner<V, TDigest, O> + Clone + 'static,
{
    let pairs: Vec<(i64, V)> =
        groups.iter().flat_map(|(key, vs)| vs.iter().map(move |v| (*key, v.clone()))).collect();
    let vals: Vec<V> = pairs.iter().map(|kv| kv.1.clone()).collect();
    let p = Pipeline::default();
    let glob = |res: Vec<O>| -> Value {
        assert!(res.len() == 1, "not one output");
        fjs(&to_list(res.into_iter().next().unwrap()))
    };
    let keyed = |mut res: Vec<(i64, O)>| -> Value {
        res.sort_by_key(|kv| kv.0);
        Value::Array(res.into_iter().map(|(k, o)| json!([k, fjs(&to_list(o))])).collect())
    };
    let cg = glob(collect(from_vec(&p, vals.clone()).combine_globally(comb.clone(), fanout), parts));
    let cgl = glob(collect(from_vec(&p, vals).combine_globally_lifted(comb.clone(), fanout), parts));
    // the same PCollection collected twice
    let cv_pc = from_vec(&p, pairs.clone()).combine_values(comb.clone());
    let cv = keyed(collect(cv_pc.clone(), parts));
    let cv2 = keyed(collect(cv_pc, parts));
    let gbkl = keyed(collect(from_vec(&p, pairs).group_by_key().combine_values_lifted(comb.clone()), parts));
    let cvl = keyed(collect(from_vec(&p, groups.to_vec()).combine_values_lifted(comb.clone()), parts));
    json!([cg, cgl, cv, gbkl, cvl, cv2])
}

fn qh_typed<V>(input: &Value, conv: &dyn Fn(i64, f64) -> V) -> Value
where
    V: RFBound + Into<f64>,
{
    let comb = input[0].as_str().unwrap();
    let c = pf(&input[1]);
    let den = input[6].as_i64().unwrap() as f64;
    let groups: Vec<(i64, Vec<V>)> = seg_groups(&input[2])
        .into_iter()
        .map(|(key, zs)| (key, zs.into_iter().map(|z| conv(z, den)).collect()))
        .collect();
    let qs = pfs(&input[3]);
    let parts = input[4].as_u64().unwrap() as usize;
    let fan = input[5].as_u64().unwrap() as usize;
    let fanout = if fan == 0 { None } else { Some(fan) };
    let id = |v: Vec<f64>| v;
    let single = |m: f64| vec![m];
    match comb {
        "aq" => qh_entries(&ApproxQuantiles::<V>::new(qs, c), &groups, parts, fanout, &id),
        "five" => qh_entries(&ApproxQuantiles::<V>::five_number_summary(c), &groups, parts, fanout, &id),
        "pct" => qh_entries(&ApproxQuantiles::<V>::percentiles(c), &groups, parts, fanout, &id),
        "median" => qh_entries(&ApproxQuantiles::<V>::median(c), &groups, parts, fanout, &id),
        "med" => qh_entries(&ApproxMedian::<V>::new(c), &groups, parts, fanout, &single),
        "meddef" => qh_entries(&ApproxMedian::<V>::default(), &groups, parts, fanout, &single),
        other => panic!("bad comb {other}"),
    }
}

fn run_qh(input: &Value) -> Value {
    let out = match input[7].as_str().unwrap() {
        "f64" => qh_typed::<f64>(input, &|z, den| z as f64 / den),
        "f32" => qh_typed::<f32>(input, &|z, den| z as f32 / den as f32),
        "i32" => qh_typed::<i32>(input, &|z, _| i32::try_from(z).expect("i32 value")),
        "u16" => qh_typed::<u16>(input, &|z, _| u16::try_from(z).expect("u16 value")),
        other => panic!("bad vtype {other}"),
    };
    ok(out)
}

// ------------------------------------------------------------------ generation
fn shuffle<T>(rng: &mut SplitMix64, v: &mut [T]) {
    for i in (1..v.len()).rev() {
        let j = rng.below(i as u64 + 1) as usize;
        v.swap(i, j);
    }
}

const PATS: [&str; 10] = [
    "sorted", "reversed", "shuffled", "all-equal", "ties", "small-ints", "dyadic", "doubles",
    "wide", "non-finite-mixed",
];

/// value pattern `pat` of length n (finite values, |v| <= 1e6, no negative zero)
fn pattern(rng: &mut SplitMix64, n: usize, pat: usize) -> Vec<f64> {
    let mut v: Vec<f64> = match pat {
        0 => (1..=n).map(|i| i as f64).collect(),
        1 => (1..=n).rev().map(|i| i as f64).collect(),
        2 => {
            let mut v: Vec<f64> = (1..=n).map(|i| i as f64).collect();
            shuffle(rng, &mut v);
            v
        }
        3 => vec![7.0; n],
        4 => {
            let mut v: Vec<f64> = (0..n).map(|i| (i / 2) as f64).collect();
            if rng.chance(1, 2) {
                shuffle(rng, &mut v);
            }
            v
        }
        5 => (0..n).map(|_| rng.range(-5, 5) as f64).collect(),
        6 => (0..n).map(|_| rng.range(-800, 800) as f64 / 8.0).collect(),
        7 => (0..n)
            .map(|_| ((rng.next_u64() >> 11) as f64) * (2e6 / 9_007_199_254_740_992.0) - 1e6)
            .collect(),
        8 => (0..n)
            .map(|_| {
                let m = 1.0 + ((rng.next_u64() >> 12) as f64) / 4_503_599_627_370_496.0;
                let e = rng.range(-20, 20) as i32;
                let s = if rng.chance(1, 3) { -1.0 } else { 1.0 };
                s * m * 2f64.powi(e)
            })
            .collect(),
        _ => {
            let mut v: Vec<f64> = (0..n).map(|_| rng.range(-50, 50) as f64 / 4.0).collect();
            let extra = 1 + rng.below(3) as usize;
            for _ in 0..extra {
                let x = *rng.pick(&[f64::INFINITY, f64::NEG_INFINITY, f64::NAN]);
                let at = rng.below(v.len() as u64 + 1) as usize;
                v.insert(at, x);
            }
            v
        }
    };
    for x in &mut v {
        if *x == 0.0 {
            *x = 0.0; // never -0.0 in the agreement stream
        }
    }
    v
}

fn prev1() -> f64 {
    f64::from_bits(1.0f64.to_bits() - 1)
}

fn qs_std() -> Vec<f64> {
    vec![
        f64::NEG_INFINITY, -0.5, 0.0, 1e-17, f64::EPSILON, 3e-16, 0.01, 0.05, 0.1, 0.11, 0.25, 0.3,
        0.5, 0.7, 0.75, 0.9, 0.95, 0.99, 1.0 - 3e-16, 1.0 - f64::EPSILON, prev1(), 1.0, 1.5,
        f64::INFINITY, f64::NAN,
    ]
}
const GRID_MODES: [&str; 7] = [
    "q-ascending", "q-descending", "q-shuffled", "q-duplicates", "q-nan-and-outside-interleaved",
    "q-single", "q-empty",
];
/// the requested quantile list in a non-canonical arrangement: result[i] must be the estimate
/// for qs[i], whatever the order of the request
fn arrange(rng: &mut SplitMix64, mut qs: Vec<f64>, mode: usize) -> Vec<f64> {
    match mode {
        0 => qs,
        1 => {
            qs.reverse();
            qs
        }
        2 => {
            shuffle(rng, &mut qs);
            qs
        }
        3 => {
            let extra: Vec<f64> = qs.iter().copied().filter(|_| rng.chance(1, 2)).collect();
            qs.extend(extra);
            qs.push(1.0);
            qs.push(0.0);
            qs.push(1.0);
            shuffle(rng, &mut qs);
            qs
        }
        4 => {
            qs.reverse();
            for x in [f64::NAN, -3.0, 7.0, f64::INFINITY, f64::NAN, f64::NEG_INFINITY, 1.0, 0.0] {
                let at = rng.below(qs.len() as u64 + 1) as usize;
                qs.insert(at, x);
            }
            qs
        }
        5 => vec![*rng.pick(&qs)],
        _ => Vec::new(),
    }
}
/// mode drawn at random: ascending, descending, shuffled, duplicates, interleaved 2/12 each;
/// single and empty 1/12 each
fn draw_mode(rng: &mut SplitMix64) -> usize {
    [0, 0, 1, 1, 2, 2, 3, 3, 4, 4, 5, 6][rng.below(12) as usize]
}

fn qs_short() -> Vec<f64> {
    vec![-1.0, 0.0, 0.1, 0.25, 0.5, 0.75, 0.9, 1.0, 2.0]
}
fn qs_grid(den: u32) -> Vec<f64> {
    (0..=den).map(|k| f64::from(k) / f64::from(den)).collect()
}

/// cdf probe points around the data
fn xs_for(vals: &[f64]) -> Vec<f64> {
    let fin: Vec<f64> = vals.iter().copied().filter(|v| v.is_finite()).collect();
    if fin.is_empty() {
        return vec![0.0, 1.0];
    }
    let lo = fin.iter().copied().fold(f64::INFINITY, f64::min);
    let hi = fin.iter().copied().fold(f64::NEG_INFINITY, f64::max);
    let mut xs = vec![lo - 1.0, lo, (lo + hi) / 2.0, hi, hi + 1.0, f64::NAN];
    xs.push(fin[fin.len() / 2]);
    xs.push(lo + (hi - lo) / 3.0);
    xs
}

/// cut `vals` into `parts` pieces (contiguous, or round-robin) and build one prog per piece,
/// merged left to right or as a balanced tree
fn partition_prog(rng: &mut SplitMix64, c: f64, vals: &[f64], parts: usize) -> (Value, usize) {
    let parts = parts.max(1);
    let mut pieces: Vec<Vec<f64>> = vec![Vec::new(); parts];
    let rr = rng.chance(1, 3);
    if rr {
        for (i, &v) in vals.iter().enumerate() {
            pieces[i % parts].push(v);
        }
    } else {
        // random cut points (empty pieces allowed)
        let mut cuts: Vec<usize> = (0..parts - 1).map(|_| rng.below(vals.len() as u64 + 1) as usize).collect();
        cuts.sort_unstable();
        let mut start = 0;
        for (i, piece) in pieces.iter_mut().enumerate() {
            let end = if i + 1 == parts { vals.len() } else { cuts[i] };
            *piece = vals[start..end].to_vec();
            start = end;
        }
    }
    let nonempty = pieces.iter().filter(|p| !p.is_empty()).count();
    let mut leaves: Vec<Value> = pieces
        .iter()
        .map(|p| match rng.below(3) {
            0 => json!(["group", fj(c), fjs(p)]),
            1 => json!(["groupm", fj(c), fjs(p)]),
            _ => json!(["add", ["new", fj(c)], fjs(p)]),
        })
        .collect();
    fn tree(mut v: Vec<Value>) -> Value {
        if v.len() == 1 {
            return v.pop().unwrap();
        }
        let r = v.split_off(v.len() / 2);
        json!(["merge", tree(v), tree(r)])
    }
    let prog = match rng.below(3) {
        0 => {
            let mut it = leaves.drain(..);
            let mut acc = it.next().unwrap();
            for l in it {
                acc = json!(["merge", acc, l]);
            }
            acc
        }
        1 => {
            // the combine_values shape: a fresh accumulator absorbs every part
            let mut acc = json!(["new", fj(c)]);
            for l in leaves.drain(..) {
                acc = json!(["merge", acc, l]);
            }
            acc
        }
        _ => tree(leaves),
    };
    (prog, nonempty)
}

fn nfinite(vals: &[f64]) -> usize {
    vals.iter().filter(|v| v.is_finite()).count()
}

/// a case kept back to be emitted between the light ones (check.py cuts the case list into
/// contiguous shards: the expensive compact cases must not end up in the same shard)
struct Heavy {
    kind: &'static str,
    input: Value,
    nt: bool,
    tags: Vec<String>,
}
struct Out<'a, 'b> {
    em: &'a mut Emitter<'b>,
    heavy: std::collections::VecDeque<Heavy>,
    stride: usize,
    n: usize,
}
impl Out<'_, '_> {
    fn case(&mut self, kind: &str, input: Value, nt: bool, tags: &[&str]) {
        self.em.case(kind, input, nt, tags);
        self.n += 1;
        if self.n % self.stride == 0 {
            self.one_heavy();
        }
    }
    fn one_heavy(&mut self) -> bool {
        match self.heavy.pop_front() {
            Some(h) => {
                let tags: Vec<&str> = h.tags.iter().map(String::as_str).collect();
                self.em.case(h.kind, h.input, h.nt, &tags);
                true
            }
            None => false,
        }
    }
}

/// one key's elements for "kh": `d` distinct u64 ids base + step*j (j < d) cut into 1..=5
/// segments, plus `dups` segments that repeat sub-ranges
fn kh_key_segs(rng: &mut SplitMix64, key: i64, d: u64, dup: bool) -> Vec<Value> {
    let base = (key as u64) * (1u64 << 40) + rng.below(1 << 30);
    let step = 1 + 2 * rng.below(500);
    let mut segs = Vec::new();
    let pieces = 1 + rng.below(5);
    let mut at = 0u64;
    for i in 0..pieces {
        let end = if i + 1 == pieces { d } else { at + rng.below(d - at + 1) };
        if end > at || d == 0 {
            segs.push(json!([key, base + step * at, step, end - at, 0]));
        }
        at = end;
    }
    if dup && d > 0 {
        for _ in 0..1 + rng.below(3) {
            let from = rng.below(d);
            let len = 1 + rng.below((d - from).min(d / 3 + 1));
            segs.push(json!([key, base + step * from, step, len, 0]));
        }
    }
    segs
}

fn kh_case(rng: &mut SplitMix64, k: u64, ds: &[u64], tag: &str) -> Heavy {
    let dup = rng.chance(2, 3);
    let mut segs: Vec<Value> = Vec::new();
    for (i, &d) in ds.iter().enumerate() {
        segs.extend(kh_key_segs(rng, i as i64 + 1, d, dup));
    }
    shuffle(rng, &mut segs); // the keys' records are interleaved
    let parts = *rng.pick(&[0u64, 1, 2, 3, 5, 7, 16, 64]);
    let fan = *rng.pick(&[0u64, 0, 1, 2, 3, 4]);
    let nt = ds.iter().any(|&d| d >= 2) && (dup || parts >= 2);
    Heavy {
        kind: "kh",
        input: json!([k, segs, parts, fan]),
        nt,
        tags: vec!["kmv".into(), "every-entry-point".into(), tag.into()],
    }
}

fn qh_case(rng: &mut SplitMix64, c: f64, ns: &[u64], tag: &str) -> Heavy {
    let comb = *rng.pick(&["aq", "aq", "five", "pct", "median", "med", "meddef"]);
    let c = if comb == "meddef" { 100.0 } else { c };
    let vtype = *rng.pick(&["f64", "f64", "f64", "f32", "i32", "u16"]);
    let total: u64 = ns.iter().sum();
    let den: i64 = match vtype {
        "f64" => *rng.pick(&[1, 8, 1024]),
        "f32" => *rng.pick(&[1, 4]),
        _ => 1,
    };
    let mut segs: Vec<Value> = Vec::new();
    for (i, &n) in ds_nonempty(ns).iter().enumerate() {
        let key = i as i64 + 1;
        // values: an affine sequence reduced modulo a prime (pseudo-shuffled), or a ramp up / down
        let pieces = 1 + rng.below(4);
        let mut at = 0u64;
        for pc in 0..pieces {
            let end = if pc + 1 == pieces { n } else { at + rng.below(n - at + 1) };
            let cnt = end - at;
            at = end;
            if cnt == 0 && n > 0 {
                continue;
            }
            let seg = match (vtype, rng.below(3)) {
                ("u16", 0) => json!([key, rng.below(1000), 1 + rng.below(3), cnt, 0]),
                ("u16", 1) => json!([key, 65_000, -(1 + rng.below(3) as i64), cnt, 0]),
                ("u16", _) => json!([key, rng.below(60_000), 7919, cnt, 65_521]),
                (_, 0) => json!([key, rng.range(-5000, 5000), 1 + rng.below(9), cnt, 0]),
                (_, 1) => json!([key, rng.range(-5000, 500_000), -(1 + rng.below(9) as i64), cnt, 0]),
                _ => json!([key, rng.range(-100_000, 100_000), 7919 + 2 * rng.below(50), cnt, 1_000_003]),
            };
            segs.push(seg);
        }
    }
    shuffle(rng, &mut segs);
    let gm = draw_mode(rng);
    let qs = if comb == "aq" { arrange(rng, qs_short(), gm) } else { Vec::new() };
    let parts = *rng.pick(&[0u64, 1, 2, 3, 5, 8]);
    let fan = *rng.pick(&[0u64, 0, 2, 3]);
    Heavy {
        kind: "qh",
        input: json!([comb, fj(c), segs, fjs(&qs), parts, fan, den, vtype]),
        nt: total >= 2,
        tags: vec!["t-digest".into(), "every-entry-point".into(), comb.into(), vtype.into(), tag.into()],
    }
}
fn ds_nonempty(ns: &[u64]) -> Vec<u64> {
    ns.to_vec()
}

/// the compact big cases: every entry point x sketch size across the powers of two x input size
/// just below / at / above the size thresholds
fn gen_heavy(seed: u64, tier: Tier) -> Vec<Heavy> {
    let thorough = tier == Tier::Thorough;
    let mut rng = SplitMix64::new(seed ^ 0xC15_BEEF);
    let mut kh: Vec<Heavy> = Vec::new();
    let mut ks: Vec<u64> = vec![0, 1, 4, 5, 8, 16, 20, 32, 64, 128, 256, 512, 1024, 2048, 4096, 8192];
    if thorough {
        ks.extend([16_384, 65_536]);
    }
    for &k in &ks {
        let kk = k.max(4);
        // one key: d just below / at / above the sketch size (the global entry points see exactly d)
        for d in [kk - 1, kk, kk + 1] {
            kh.push(kh_case(&mut rng, k, &[d], "d-around-k"));
        }
        // three keys at once, interleaved
        kh.push(kh_case(&mut rng, k, &[kk - 1, kk, kk + 1], "keys-around-k"));
        kh.push(kh_case(&mut rng, k, &[kk / 2, kk / 2 + kk / 4, 2 * kk], "keys-half-to-double-k"));
        if kk >= 32 {
            // every smaller power of two as a distinct count below k (a clamp of the sketch size
            // at any of them shows as an inexact count)
            let mut p2 = 16u64;
            let mut ds = Vec::new();
            while p2 < kk {
                ds.push(p2 + rng.below(p2)); // p2 <= d < 2*p2 <= k
                p2 *= 2;
            }
            for ch in ds.chunks(4) {
                kh.push(kh_case(&mut rng, k, ch, "d-between-powers-of-two-below-k"));
            }
        }
    }
    if !thorough {
        // past every size swept above: d = k - 1 only
        for k in [16_384u64, 65_536] {
            kh.push(kh_case(&mut rng, k, &[k - 1], "d-around-k"));
        }
    }
    // sampled error band (statistical claim; sampled, not proved): d well above k
    let band: Vec<(u64, u64)> = if thorough {
        vec![(64, 10_000), (256, 10_000), (1024, 10_000), (256, 100_000), (1024, 100_000), (4096, 30_000),
             (8192, 60_000)]
    } else {
        vec![(64, 3000), (256, 10_000), (1024, 10_000), (4096, 12_000)]
    };
    for (k, d) in band {
        kh.push(kh_case(&mut rng, k, &[d], "sampled-error-band"));
        kh.push(kh_case(&mut rng, k, &[d / 3, d / 2], "sampled-error-band"));
    }
    // exact far below a huge sketch size: with d of order 10^5 distinct values a rank function that
    // keeps fewer than 64 bits of the hash collides (d^2 / 2^(bits+1) expected pairs)
    let big: Vec<(u64, u64)> = if thorough { vec![(1 << 19, 300_000), (1 << 20, 600_000)] } else { vec![(1 << 19, 300_000)] };
    for (k, d) in big {
        let start = rng.below(1 << 40);
        let step = 1 + 2 * rng.below(1000);
        kh.push(Heavy {
            kind: "kx",
            input: json!([k, start, step, d, 8]),
            nt: true,
            tags: vec!["kmv".into(), "exact-far-below-huge-k".into(), "property-only".into()],
        });
    }
    // unusual sketch sizes
    let reps = if thorough { 300 } else { 60 };
    for _ in 0..reps {
        let k = *rng.pick(&[2u64, 3, 6, 10, 100, 1000, 1023, 1025, 1500, 3000, 5000, 1 << 20, 1 << 40,
                            (1 << 61) - 1]);
        let kk = k.max(4).min(6000);
        let nkeys = 1 + rng.below(4) as usize;
        let mut ds: Vec<u64> = Vec::new();
        for _ in 0..nkeys {
            let d = match rng.below(6) {
                0 => kk - 1,
                1 => kk,
                2 => kk + 1,
                3 => rng.below(kk),
                4 => kk / 2,
                _ => kk + rng.below(kk / 2 + 1),
            };
            ds.push(if k > 6000 { d.min(1 + rng.below(3000)) } else { d });
        }
        kh.push(kh_case(&mut rng, k, &ds, "unusual-k"));
    }

    let mut qh: Vec<Heavy> = Vec::new();
    let mut cs: Vec<u64> = vec![1, 2, 4, 8, 16, 32, 64, 128, 256, 512, 1024];
    if thorough {
        cs.extend([2048, 4096]);
    }
    for &c in &cs {
        let cf = c as f64;
        // add() compresses when the buffer exceeds 2c
        for n in [2 * c - 1, 2 * c, 2 * c + 1, 2 * c + 2] {
            qh.push(qh_case(&mut rng, cf, &[n], "n-around-2c"));
        }
        qh.push(qh_case(&mut rng, cf, &[c, c + 1], "n-around-c"));
        if c <= 256 {
            qh.push(qh_case(&mut rng, cf, &[2 * c - 1, 2 * c, 2 * c + 2], "keys-around-2c"));
            qh.push(qh_case(&mut rng, cf, &[4 * c + 3, 3], "n-past-4c"));
        }
    }
    // one partition, c <= n <= 2c: the accumulator that reaches finish() was never merged and
    // add() never compressed it (finish is the only thing that sorts the centroids)
    for &c in &[16u64, 32, 64, 128] {
        for n in [c, c + c / 2, 2 * c] {
            for parts in [0u64, 1] {
                let mut h = qh_case(&mut rng, c as f64, &[n], "single-partition-uncompressed");
                h.input[4] = json!(parts);
                qh.push(h);
            }
        }
    }
    let reps = if thorough { 200 } else { 40 };
    for _ in 0..reps {
        let c = *rng.pick(&[0.5, 1.0, 3.0, 5.0, 10.0, 20.0, 100.0, 100.0, 1000.0]);
        let nkeys = 1 + rng.below(3) as usize;
        let ns: Vec<u64> = (0..nkeys).map(|_| if rng.chance(1, 4) { rng.below(4) } else { rng.below(150) }).collect();
        qh.push(qh_case(&mut rng, c, &ns, "random"));
    }
    // interleave the two families
    let mut all = Vec::new();
    let (mut a, mut b) = (kh.into_iter(), qh.into_iter());
    loop {
        let (x, y) = (a.next(), b.next());
        if x.is_none() && y.is_none() {
            break;
        }
        all.extend(x);
        all.extend(y);
    }
    all
}

fn generate(seed: u64, tier: Tier, em: &mut Emitter) {
    let heavy: std::collections::VecDeque<Heavy> = gen_heavy(seed, tier).into();
    let expected_light = if tier == Tier::Thorough { 15_000 } else { 2_900 };
    let stride = (expected_light / heavy.len().max(1)).max(1);
    let mut out = Out { em, heavy, stride, n: 0 };
    gen_light(seed, tier, &mut out);
    while out.one_heavy() {}
}

fn gen_light(seed: u64, tier: Tier, em: &mut Out) {
    let thorough = tier == Tier::Thorough;
    let comps = [10.0, 20.0, 100.0, 1000.0];
    let small_comps = [0.5, 1.0, 2.0, 3.0, 5.0];
    let mut rng = SplitMix64::new(seed ^ 0xC15);

    // ---- 1. tiny inputs, every pattern, every compression, direct adds (no partitioning)
    for n in 0..=12usize {
        for pat in 0..PATS.len() {
            for &c in &comps {
                let vals = pattern(&mut rng, n, pat);
                let prog = json!(["add", ["new", fj(c)], fjs(&vals)]);
                let nt = nfinite(&vals) >= 2;
                let gm = (n + pat) % GRID_MODES.len();
                let qs = arrange(&mut rng, qs_std(), gm);
                em.case("td", json!([prog, fjs(&qs), fjs(&xs_for(&vals))]), nt, &["tiny", PATS[pat], GRID_MODES[gm]]);
            }
        }
    }
    // the same through build_from_group (compress) with the k/100 grid
    for n in 0..=12usize {
        for pat in [0usize, 1, 2, 3, 4, 9] {
            let c = comps[(n + pat) % 4];
            let vals = pattern(&mut rng, n, pat);
            let prog = json!(["group", fj(c), fjs(&vals)]);
            em.case("td", json!([prog, fjs(&qs_grid(100)), fjs(&xs_for(&vals))]), nfinite(&vals) >= 2,
                    &["tiny", "group", "grid100", PATS[pat]]);
        }
    }

    // ---- 2. small compressions: compress fires inside add (len > 2c), centroids really merge
    let reps = if thorough { 40 } else { 6 };
    for _ in 0..reps {
        for &c in &small_comps {
            for pat in 0..PATS.len() {
                let n = rng.below(40) as usize;
                let vals = pattern(&mut rng, n, pat);
                let prog = json!(["add", ["new", fj(c)], fjs(&vals)]);
                let gm = draw_mode(&mut rng);
                let qs = arrange(&mut rng, qs_std(), gm);
                em.case("td", json!([prog, fjs(&qs), fjs(&xs_for(&vals))]), nfinite(&vals) >= 2,
                        &["small-compression", PATS[pat], GRID_MODES[gm]]);
            }
        }
    }

    // ---- 3. medium inputs where the documented compressions merge centroids (n up to 120)
    let reps = if thorough { 60 } else { 8 };
    for _ in 0..reps {
        for &c in &comps {
            for pat in [0usize, 1, 2, 4, 5, 6, 7, 8, 9] {
                let n = 13 + rng.below(108) as usize;
                let vals = pattern(&mut rng, n, pat);
                let prog = if rng.chance(1, 2) {
                    json!(["group", fj(c), fjs(&vals)])
                } else {
                    json!(["add", ["new", fj(c)], fjs(&vals)])
                };
                let gm = draw_mode(&mut rng);
                let qs = arrange(&mut rng, qs_std(), gm);
                em.case("td", json!([prog, fjs(&qs), fjs(&xs_for(&vals))]), true,
                        &["medium", PATS[pat], GRID_MODES[gm]]);
            }
        }
    }

    // ---- 4. partitionings: one digest per part, merged (left fold / fresh accumulator / tree)
    let reps = if thorough { 2500 } else { 420 };
    for i in 0..reps {
        let c = if i % 3 == 0 { *rng.pick(&small_comps) } else { *rng.pick(&comps) };
        let pat = rng.below(PATS.len() as u64) as usize;
        let n = if rng.chance(1, 3) { rng.below(13) as usize } else { rng.below(70) as usize };
        let vals = pattern(&mut rng, n, pat);
        let parts = 1 + rng.below(5) as usize;
        let (prog, nonempty) = partition_prog(&mut rng, c, &vals, parts);
        let gm = draw_mode(&mut rng);
        let qs = arrange(&mut rng, if i % 4 == 0 { qs_std() } else { qs_short() }, gm);
        em.case("td", json!([prog, fjs(&qs), fjs(&xs_for(&vals))]), nfinite(&vals) >= 2 && nonempty >= 2,
                &["partitioned", PATS[pat], GRID_MODES[gm]]);
    }

    // ---- 5. weighted adds (weights >= 1) and digests of different compressions merged
    let reps = if thorough { 400 } else { 80 };
    for _ in 0..reps {
        let c = *rng.pick(&[2.0, 5.0, 20.0, 100.0]);
        let n = rng.below(25) as usize;
        let wpat = rng.below(9) as usize;
        let vals = pattern(&mut rng, n, wpat);
        let vws: Vec<Value> = vals
            .iter()
            .map(|&v| json!([fj(v), fj(*rng.pick(&[1.0, 1.0, 2.0, 3.0, 1.5, 10.0]))]))
            .collect();
        let on = rng.below(10) as usize;
        let other = pattern(&mut rng, on, 5);
        let c2 = *rng.pick(&[1.0, 10.0, 1000.0]);
        let prog = json!(["merge", ["addw", ["new", fj(c)], vws], ["add", ["new", fj(c2)], fjs(&other)]]);
        let mut all = vals.clone();
        all.extend(&other);
        let gm = draw_mode(&mut rng);
        let qs = arrange(&mut rng, qs_short(), gm);
        em.case("td", json!([prog, fjs(&qs), fjs(&xs_for(&all))]), nfinite(&all) >= 2,
                &["weighted", "mixed-compression", GRID_MODES[gm]]);
    }

    // ---- 5b. fractional weights (k_size's .max(1.0) matters only here): agreement only
    let reps = if thorough { 400 } else { 80 };
    for _ in 0..reps {
        let c = *rng.pick(&[1.0, 2.0, 5.0, 16.0, 32.0, 100.0]);
        let n = rng.below(30) as usize;
        let wpat = rng.below(9) as usize;
        let vals = pattern(&mut rng, n, wpat);
        let vws: Vec<Value> = vals
            .iter()
            .map(|&v| json!([fj(v), fj(*rng.pick(&[0.25, 0.5, 0.5, 1.0, 2.0, 0.125]))]))
            .collect();
        let base = json!(["addw", ["new", fj(c)], vws]);
        let prog = if rng.chance(1, 2) { json!(["merge", ["new", fj(c)], base]) } else { base };
        let gm = draw_mode(&mut rng);
        let qs = arrange(&mut rng, qs_short(), gm);
        em.case("tdw", json!([prog, fjs(&qs), fjs(&xs_for(&vals))]), nfinite(&vals) >= 2,
                &["fractional-weights", "agreement-only", GRID_MODES[gm]]);
    }

    // ---- 5c. extreme configuration values: compression 0, negative, NaN, infinite, huge, tiny
    let reps = if thorough { 20 } else { 3 };
    for _ in 0..reps {
        for &c in &[0.0, -0.0, -5.0, f64::NAN, f64::INFINITY, f64::NEG_INFINITY, 1e300, 1e-300, 5e-324,
                    0.25, 0.49, 0.51, f64::MAX, 4_503_599_627_370_496.0] {
            let pat = rng.below(PATS.len() as u64) as usize;
            let n = rng.below(40) as usize;
            let vals = pattern(&mut rng, n, pat);
            let parts = 1 + rng.below(3) as usize;
            let (prog, _) = partition_prog(&mut rng, c, &vals, parts);
            let gm = draw_mode(&mut rng);
            let qs = arrange(&mut rng, qs_short(), gm);
            em.case("td", json!([prog, fjs(&qs), fjs(&xs_for(&vals))]), nfinite(&vals) >= 2,
                    &["extreme-compression", PATS[pat], GRID_MODES[gm]]);
        }
    }

    // ---- 6. monotonicity in q (the open known finding lives here)
    let reps = if thorough { 600 } else { 120 };
    for i in 0..reps {
        let c = if i % 2 == 0 { *rng.pick(&comps) } else { *rng.pick(&small_comps) };
        let pat = rng.below(9) as usize;
        let n = if i < 40 { i % 4 } else { rng.below(40) as usize };
        let vals = pattern(&mut rng, n, pat);
        let parts = 1 + rng.below(3) as usize;
        let (prog, _) = partition_prog(&mut rng, c, &vals, parts);
        let qs = if i % 3 == 0 { qs_grid(100) } else { qs_grid(20) };
        em.case("mono", json!([prog, fjs(&qs)]), nfinite(&vals) >= 2, &["mono", PATS[pat]]);
    }

    // ---- 7. real pipelines
    let reps = if thorough { 1200 } else { 200 };
    for i in 0..reps {
        let c = if i % 3 == 0 { *rng.pick(&small_comps) } else { *rng.pick(&comps) };
        let pat = rng.below(PATS.len() as u64) as usize;
        let n = if rng.chance(1, 4) { rng.below(4) as usize } else { rng.below(60) as usize };
        let vals = pattern(&mut rng, n, pat);
        let parts = if rng.chance(1, 4) { 0 } else { 1 + rng.below(7) as usize };
        let fan = if rng.chance(1, 2) { 0 } else { 1 + rng.below(4) as usize };
        let gm = draw_mode(&mut rng);
        let qs = arrange(&mut rng, qs_short(), gm);
        match i % 5 {
            0 | 1 | 2 => {
                let variant = ["glob", "globl", "med"][i % 3];
                em.case("pipe", json!([variant, fj(c), fjs(&vals), fjs(&qs), parts, fan]),
                        nfinite(&vals) >= 2 && parts >= 2 && n >= 2, &["pipeline", variant, PATS[pat], GRID_MODES[gm]]);
            }
            _ => {
                let variant = if i % 5 == 3 { "vals" } else { "gbkl" };
                let nk = 1 + rng.below(3) as i64;
                let kvs: Vec<Value> = vals.iter().map(|&v| json!([rng.range(0, nk - 1), fj(v)])).collect();
                em.case("pipe", json!([variant, fj(c), kvs, fjs(&qs), parts, 0]),
                        nfinite(&vals) >= 2 && parts >= 2 && n >= 2, &["pipeline", variant, PATS[pat], GRID_MODES[gm]]);
            }
        }
    }

    // ---- 8. extreme magnitudes (up to f64::MAX: overflow fallbacks of compress / quantile).
    // "td": agreement AND property; "tdx" (zeros of both signs mixed in: f64::min/max may return
    // either zero): property only.
    let reps = if thorough { 900 } else { 180 };
    let mags = [f64::MAX, -f64::MAX, 1e308, -1e308, 1.6e308, -1.6e308, 1e300, -1e300, 3e299, 1e150,
                -1e150, 1e-300, -1e-300, 5e-324, -5e-324, 2.2250738585072014e-308, 1e-310, 1.0, -1.0, 0.0];
    for i in 0..reps {
        let c = *rng.pick(&[2.0, 10.0, 20.0, 100.0, 1000.0]);
        let n = if rng.chance(1, 3) { 20 + rng.below(100) as usize } else { rng.below(30) as usize };
        let sub = match i % 4 {
            0 => &mags[..6],   // only values near f64::MAX
            1 => &mags[..11],  // huge
            _ => &mags[..],    // everything
        };
        let mut vals: Vec<f64> = (0..n).map(|_| *rng.pick(sub)).collect();
        if i % 8 == 7 {
            // all equal to +-f64::MAX: the convex-combination fallback can round above MAX
            let m = if rng.chance(1, 2) { f64::MAX } else { -f64::MAX };
            vals = vec![m; 20 + rng.below(100) as usize];
        }
        if rng.chance(1, 4) {
            vals.push(*rng.pick(&[f64::INFINITY, f64::NEG_INFINITY, f64::NAN]));
        }
        let both_zeros = i % 6 == 5;
        if both_zeros {
            for v in vals.iter_mut() {
                if *v == 0.0 && rng.chance(1, 2) {
                    *v = -0.0;
                }
            }
            vals.push(-0.0);
        }
        let parts = 1 + rng.below(3) as usize;
        let (prog, _) = partition_prog(&mut rng, c, &vals, parts);
        let gm = draw_mode(&mut rng);
        let qs = arrange(&mut rng, qs_std(), gm);
        if both_zeros {
            em.case("tdx", json!([prog, fjs(&qs), fjs(&xs_for(&vals))]), nfinite(&vals) >= 2,
                    &["extreme-magnitude", "signed-zeros", "agreement-not-required", GRID_MODES[gm]]);
        } else {
            em.case("td", json!([prog, fjs(&qs), fjs(&xs_for(&vals))]), nfinite(&vals) >= 2,
                    &["extreme-magnitude", GRID_MODES[gm]]);
        }
    }

    // ---- 9. sampled rank error (statistical claim; sampled, not proved)
    let stat: Vec<(u64, f64, u64)> = if thorough {
        vec![(500, 100.0, 1), (1000, 100.0, 3), (2000, 20.0, 4), (10_000, 100.0, 1), (10_000, 100.0, 7),
             (30_000, 100.0, 16), (100_000, 100.0, 8), (100_000, 1000.0, 64), (50_000, 20.0, 5),
             (10_000, 100.0, 1), (16_421, 20.0, 1), (12_000, 50.0, 1), (40_000, 100.0, 1), (100_003, 200.0, 1)]
    } else {
        // parts = 1: the digest that reaches finish() has never been merged, so it still carries
        // the uncompressed tail of the last adds
        vec![(500, 100.0, 1), (1000, 100.0, 3), (10_000, 100.0, 4), (20_000, 100.0, 16), (10_000, 100.0, 1),
             (16_421, 20.0, 1), (12_000, 50.0, 1)]
    };
    for (n, c, parts) in stat {
        // a coprime with n: an odd number not divisible by 5 (n is of the form 2^x 5^y 3^z...)
        let mut a = (rng.below(n) | 1).max(1);
        while gcd(a, n) != 1 {
            a += 2;
        }
        let b = rng.below(n);
        let mut grid = qs_grid(100);
        if parts % 2 == 1 {
            shuffle(&mut rng, &mut grid); // the request order must not matter
        }
        em.case("stat", json!([fj(c), n, a, b, parts, fjs(&grid)]), true,
                &["sampled-rank-error", if n <= 2000 { "model-agreement" } else { "property-only" }]);
    }

    // ---- 10. KMV: d versus k grid, duplication patterns, partitionings, merge shapes
    let ks: [usize; 5] = [0, 4, 5, 8, 16];
    for &k in &ks {
        let kk = k.max(4);
        for d in 0..=(3 * kk) {
            for dup in 0..3usize {
                // dup 0: each element once; 1: each twice, adjacent; 2: whole stream repeated + shuffled
                let base: Vec<u64> = (0..d as u64).map(|i| i * 7919 + (k as u64) * 1_000_003 + 11).collect();
                let mut elems = base.clone();
                if dup == 1 {
                    elems = base.iter().flat_map(|&e| [e, e]).collect();
                } else if dup == 2 {
                    elems.extend(base.iter());
                    elems.extend(base.iter().take(d / 2));
                    shuffle(&mut rng, &mut elems);
                }
                let parts = 1 + rng.below(4) as usize;
                let shape = rng.below(3);
                let mut pieces: Vec<Vec<u64>> = vec![Vec::new(); parts];
                for (i, &e) in elems.iter().enumerate() {
                    if dup == 2 { pieces[rng.below(parts as u64) as usize].push(e) } else { pieces[i * parts / elems.len().max(1)].push(e) }
                }
                let pj: Vec<Value> = pieces.iter().map(|p| json!([rng.below(2), p])).collect();
                em.case("kmv", json!([k, shape, pj]), d >= 2 && (dup > 0 || parts >= 2),
                        &["kmv", "d-vs-k-grid", ["dup-none", "dup-adjacent", "dup-shuffled"][dup]]);
            }
        }
    }
    let reps = if thorough { 1500 } else { 250 };
    for i in 0..reps {
        let k = *rng.pick(&[1usize, 4, 6, 10, 32, 64]);
        let kk = k.max(4) as u64;
        let d = rng.below(3 * kk + 1);
        let universe: Vec<u64> = (0..d).map(|_| rng.next_u64() >> 2).collect();
        let len = if d == 0 { 0 } else { d + rng.below(2 * d + 1) };
        let mut elems: Vec<u64> = universe.clone();
        while (elems.len() as u64) < len {
            elems.push(*rng.pick(&universe));
        }
        shuffle(&mut rng, &mut elems);
        match i % 4 {
            0 | 1 => {
                let parts = 1 + rng.below(6) as usize;
                let mut pieces: Vec<Vec<u64>> = vec![Vec::new(); parts];
                for &e in &elems {
                    pieces[rng.below(parts as u64) as usize].push(e);
                }
                let pj: Vec<Value> = pieces.iter().map(|p| json!([rng.below(2), p])).collect();
                em.case("kmv", json!([k, rng.below(3), pj]), d >= 2, &["kmv", "random"]);
            }
            2 => {
                let parts = if rng.chance(1, 4) { 0 } else { 1 + rng.below(7) };
                em.case("kmvp", json!([k, elems, parts]), d >= 2, &["kmv", "pipeline"]);
            }
            _ => {
                let parts = if rng.chance(1, 4) { 0 } else { 1 + rng.below(7) };
                let kvs: Vec<Value> = elems.iter().map(|&e| json!([rng.range(0, 2), e])).collect();
                em.case("kmvk", json!([k, kvs, parts]), d >= 2, &["kmv", "pipeline", "per-key"]);
            }
        }
    }
    // sampled error band (statistical claim; sampled, not proved)
    let kstat: Vec<(usize, u64, u64)> = if thorough {
        vec![(64, 10_000, 4), (256, 10_000, 1), (1024, 10_000, 8), (256, 100_000, 16), (1024, 100_000, 4),
             (4096, 30_000, 2)]
    } else {
        // quick: one case keeps the ranks-as-data path alive at this size; the error band for
        // larger k and d is sampled by the compact "kh" cases tagged sampled-error-band
        vec![(64, 3000, 4)]
    };
    for (k, d, parts) in kstat {
        let mut elems: Vec<u64> = (0..d).map(|_| rng.next_u64() >> 2).collect();
        let dups: Vec<u64> = (0..d / 4).map(|_| *rng.pick(&elems)).collect();
        elems.extend(dups);
        shuffle(&mut rng, &mut elems);
        let chunks: Vec<&[u64]> = elems.chunks(4000).collect();
        em.case("kmvs", json!([k, chunks, parts]), true, &["kmv", "sampled-error-band"]);
    }
}

fn gcd(a: u64, b: u64) -> u64 {
    if b == 0 { a } else { gcd(b, a % b) }
}

fn main() {
    drive(&generate, &run);
}
