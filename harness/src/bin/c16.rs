//! C16: metrics never lose concurrent updates and never influence results.
//!
//! Runs the REAL `ironbeam::metrics::MetricsCollector` under a COOPERATIVE SCHEDULER: the
//! `verif-hooks` yield hook (called immediately before every `inner.lock()` of metrics.rs) parks
//! the calling thread until the scheduler grants it the next turn; a granted thread runs one
//! critical section and on to its next yield point (or to the end of its operation list).  A
//! schedule is the sequence of thread ids that are granted; a grant to a finished thread is
//! skipped; when the schedule is used up the threads are drained in thread order.
//!
//! kinds
//!   sched        in = [init, threads, sched]      one forced schedule
//!   all          in = [init, threads, slots]      every interleaving, `slots` grants per call
//!   seq          in = [calls]                     single-threaded API script
//!   stress       in = [label, threads, per_thread, v, init]  free-running threads, no hook
//!   transparent  in = [pipe, mode, data, parts, regs, errmodes, poison, cfg]
//!   export       in = [metrics, stamps, via_all]     to_json / save_to_file / snapshot keys, and
//!                the duration of the stamped run (stamps = k >= 1: k-1 ms asleep between
//!                record_start and record_end) as elapsed() / to_json / the saved file report it
//!   (transparent, pipe 5: the closure sleeps data[i] ms per element; the same three views)
//!   busy         in = [driver, init, ops, ms]   thread A is inside a critical section for ms
//!                milliseconds (to_json / snapshot calling a slow Metric::value) while thread B
//!                performs ops; free-running, ordered by flags raised inside the section
//!   attach       in = [steps, mode, data, parts, cfg]   set_metrics / run / take_metrics /
//!                get_metrics sequences on one pipeline over several marked collectors
//!   hist         in = [via, samples]   HistogramMetric filled by record() / with_values(): stats()
//!                and value() on samples given in quarters (explicit, or a compact generator)
//!   saves        in = [ncoll, npaths, steps]   multi-step export sequences: calls on several
//!                collectors interleaved with save_to_file on shared paths (growing, shrinking,
//!                equal exports; files of other programs; removed files; paths that cannot be
//!                created); to_json / snapshot / print / every file observed after every step
//!
//! Metric names are integers: k >= 0 is the string "c<k>", -1 is "execution_time_ms".
//! A metric is [name, kind, val]: kind 0 = CounterMetric(val), kind 1 = some other metric
//! (GaugeMetric for even val, a custom Metric for odd val).
//!
//! Sensitivity self-test: the environment variable C16_MUTANT replaces the collector under
//! test by a copy of metrics.rs with one realistic defect (`split` = the pre-fix two-lock
//! increment_counter); the check must then report a violation.
use ibv::{Emitter, SplitMix64, Tier, drive};
use ironbeam::checkpoint::{CheckpointConfig, CheckpointPolicy};
use ironbeam::metrics::{CounterMetric, GaugeMetric, HistogramMetric, Metric, MetricsCollector};
use ironbeam::verif::{set_yield_hook, yield_point};
use ironbeam::{ExecMode, NodeId, PCollection, Pipeline, RFBound, Runner, Sum, from_vec};
use serde_json::{Value, json};
use std::any::Any;
use std::cell::Cell;
use std::collections::HashMap;
use std::panic::{AssertUnwindSafe, catch_unwind};
use std::cell::RefCell;
use std::sync::atomic::{AtomicBool, Ordering};
use std::sync::{Arc, Condvar, Mutex};
use std::time::{Duration, Instant};

// ------------------------------------------------------------------ names and metrics

/// negative names: the reserved key of to_json and awkward strings (empty, blank, the field
/// names of the export, non-ASCII, characters JSON has to escape)
const ODD_NAMES: [(i64, &str); 7] = [
    (-1, "execution_time_ms"),
    (-2, ""),
    (-3, " "),
    (-4, "value"),
    (-5, "m\u{e9}trique \u{2713}"),
    (-6, "a.b/c\"d\\e\nf"),
    (-7, "description"),
];
fn name_str(k: i64) -> String {
    match ODD_NAMES.iter().find(|(i, _)| *i == k) {
        Some((_, s)) => (*s).to_string(),
        None => format!("c{k}"),
    }
}
fn name_int(s: &str) -> i64 {
    match ODD_NAMES.iter().find(|(_, t)| *t == s) {
        Some((i, _)) => *i,
        None => s.strip_prefix('c').and_then(|r| r.parse().ok()).unwrap_or(-99),
    }
}

struct TagMetric {
    name: String,
    tag: i64,
}
impl Metric for TagMetric {
    fn name(&self) -> &str {
        &self.name
    }
    fn value(&self) -> Value {
        json!(["tag", self.tag])
    }
    fn as_any(&self) -> &dyn Any {
        self
    }
}

/// a user metric whose value() / description() are awkward JSON
struct OddMetric {
    name: String,
    which: i64,
}
impl Metric for OddMetric {
    fn name(&self) -> &str {
        &self.name
    }
    fn value(&self) -> Value {
        match self.which {
            0 => Value::Null,
            1 => json!(""),
            2 => json!({}),
            3 => json!([]),
            4 => json!(false),
            _ => json!({"value": null, "nested": [null, {"x": []}]}),
        }
    }
    fn description(&self) -> Option<&str> {
        if self.which % 2 == 0 { Some("") } else { None }
    }
    fn as_any(&self) -> &dyn Any {
        self
    }
}

/// a user metric whose FIRST value() call takes `ms` milliseconds; it runs inside the collector's
/// critical section (to_json / snapshot call value() under the lock) and raises `inside` on
/// entry and `left` on exit
struct SlowMetric {
    name: String,
    armed: AtomicBool,
    inside: Arc<AtomicBool>,
    left: Arc<AtomicBool>,
    ms: u64,
}
impl Metric for SlowMetric {
    fn name(&self) -> &str {
        &self.name
    }
    fn value(&self) -> Value {
        if self.armed.swap(false, Ordering::SeqCst) {
            self.inside.store(true, Ordering::SeqCst);
            std::thread::sleep(Duration::from_millis(self.ms));
            self.left.store(true, Ordering::SeqCst);
        }
        json!(["tag", 7])
    }
    fn as_any(&self) -> &dyn Any {
        self
    }
}

/// kind 0 counter(val) | 1 other (even val: gauge(val), odd: TagMetric) | 2 gauge with an
/// awkward float | 3 histogram of `val` samples (0 = empty, >= 100: contains NaN and inf) |
/// 4 OddMetric | 5 counter at a boundary (0 = CounterMetric::new, 1 = u64::MAX)
fn make_metric(name: i64, kind: i64, val: i64) -> Box<dyn Metric> {
    let n = name_str(name);
    match kind {
        0 => Box::new(CounterMetric::with_value(n, val as u64)),
        2 => {
            let f = [f64::NAN, f64::INFINITY, f64::NEG_INFINITY, 0.0, -0.0, f64::MAX, 1e-310]
                [(val.rem_euclid(7)) as usize];
            let g = GaugeMetric::new(n, f);
            if val % 2 == 0 { Box::new(g.with_description("a ratio")) } else { Box::new(g) }
        }
        3 => {
            // the two public ways to fill a histogram: record() one by one / with_values()
            let mut h = if val % 4 == 3 {
                HistogramMetric::with_values(n, (0..(val % 100)).map(|i| i as f64 * 1.5).collect())
            } else {
                let mut h = HistogramMetric::new(n);
                for i in 0..(val % 100) {
                    h.record(i as f64 * 1.5);
                }
                h
            };
            if val >= 100 {
                h.record(f64::NAN);
                h.record(f64::INFINITY);
            }
            if val % 2 == 0 { Box::new(h.with_description("latencies")) } else { Box::new(h) }
        }
        4 => Box::new(OddMetric { name: n, which: val }),
        5 => {
            if val == 0 {
                Box::new(CounterMetric::new(n))
            } else {
                Box::new(CounterMetric::with_value(n, u64::MAX))
            }
        }
        _ => {
            if val % 2 == 0 {
                Box::new(GaugeMetric::new(n, val as f64))
            } else {
                Box::new(TagMetric { name: n, tag: val })
            }
        }
    }
}

/// canonical form of one snapshot value: [name, kind, val]
fn canon_value(name: &str, v: &Value) -> Value {
    let k = name_int(name);
    if let Some(u) = v.as_u64() {
        json!([k, 0, u])
    } else if let Some(f) = v.as_f64() {
        json!([k, 1, f as i64])
    } else if let Some(a) = v.as_array() {
        json!([k, 1, a.get(1).and_then(Value::as_i64).unwrap_or(-99)])
    } else {
        json!([k, 2, 0])
    }
}
fn canon_snapshot(snap: &HashMap<String, Value>) -> Value {
    let mut rows: Vec<(i64, Value)> =
        snap.iter().map(|(n, v)| (name_int(n), canon_value(n, v))).collect();
    rows.sort_by_key(|r| r.0);
    Value::Array(rows.into_iter().map(|r| r.1).collect())
}
fn canon_keys(j: &Value) -> Value {
    let mut ks: Vec<i64> = j.as_object().map(|o| o.keys().map(|k| name_int(k)).collect()).unwrap_or_default();
    ks.sort_unstable();
    json!(ks)
}

// ------------------------------------------------------------------ the collector under test

trait Coll: Send + Sync {
    fn inc(&self, n: &str, v: u64);
    fn set(&self, n: &str, v: u64);
    fn reg(&self, m: Box<dyn Metric>);
    fn reg_all(&self, ms: Vec<Box<dyn Metric>>);
    fn start(&self);
    fn end(&self);
    fn elapsed(&self) -> Option<Duration>;
    fn snap(&self) -> HashMap<String, Value>;
    fn json(&self) -> Value;
    fn save(&self, path: &str) -> bool;
    fn print(&self);
}

struct Real(MetricsCollector);
impl Coll for Real {
    fn inc(&self, n: &str, v: u64) {
        self.0.increment_counter(n, v);
    }
    fn set(&self, n: &str, v: u64) {
        self.0.set_counter(n, v);
    }
    fn reg(&self, m: Box<dyn Metric>) {
        self.0.clone().register(m);
    }
    fn reg_all(&self, ms: Vec<Box<dyn Metric>>) {
        self.0.clone().register_all(ms);
    }
    fn start(&self) {
        self.0.record_start();
    }
    fn end(&self) {
        self.0.record_end();
    }
    fn elapsed(&self) -> Option<Duration> {
        self.0.elapsed()
    }
    fn snap(&self) -> HashMap<String, Value> {
        self.0.snapshot()
    }
    fn json(&self) -> Value {
        self.0.to_json()
    }
    fn save(&self, path: &str) -> bool {
        self.0.save_to_file(path).is_ok()
    }
    fn print(&self) {
        self.0.print();
    }
}

/// Copy of the relevant part of src/metrics.rs with ONE seeded defect (sensitivity self-test).
#[derive(Clone, Copy, PartialEq)]
enum Defect {
    Split,        // pre-fix increment_counter: read under one lock, write under another
    SplitNoYield, // the same, but the second acquisition has no yield point (stress only)
    NoCreate,     // increment of a missing name does nothing
    ReplaceOther, // increment of a non-counter metric replaces it by a counter
    SetAdds,      // set_counter adds instead of overwriting
    FirstWins,    // register keeps an existing metric
    SkipNull,     // to_json leaves out metrics whose value() is JSON null (NaN / inf gauges)
    SubsecMillis, // to_json exports subsec_millis() (the duration modulo one second)
    TryLockSet,   // set_counter gives up silently when the lock is held
    NoTruncSave,  // save_to_file opens the file without truncating it
    PrintNoTime,  // print() forgets the execution time lines
}
struct MutInner {
    metrics: HashMap<String, Box<dyn Metric>>,
    start_time: Option<Instant>,
    end_time: Option<Instant>,
}
struct Mutant {
    inner: Arc<Mutex<MutInner>>,
    defect: Defect,
}
impl Mutant {
    fn new(defect: Defect) -> Self {
        Self {
            inner: Arc::new(Mutex::new(MutInner {
                metrics: HashMap::new(),
                start_time: None,
                end_time: None,
            })),
            defect,
        }
    }
    fn count_of(m: &dyn Metric) -> Option<u64> {
        // CounterMetric's field is private; its value() is the count
        m.as_any().downcast_ref::<CounterMetric>().map(|c| c.value().as_u64().unwrap())
    }
}
impl Coll for Mutant {
    fn inc(&self, name: &str, value: u64) {
        yield_point("metrics");
        let mut inner = self.inner.lock().unwrap();
        if let Some(metric) = inner.metrics.get(name) {
            if let Some(count) = Self::count_of(metric.as_ref()) {
                let new_count = count + value;
                if self.defect == Defect::Split {
                    drop(inner);
                    self.set(name, new_count);
                } else if self.defect == Defect::SplitNoYield {
                    drop(inner);
                    self.inner
                        .lock()
                        .unwrap()
                        .metrics
                        .insert(name.to_string(), Box::new(CounterMetric::with_value(name, new_count)));
                } else {
                    inner
                        .metrics
                        .insert(name.to_string(), Box::new(CounterMetric::with_value(name, new_count)));
                }
            } else if self.defect == Defect::ReplaceOther {
                inner.metrics.insert(name.to_string(), Box::new(CounterMetric::with_value(name, value)));
            }
        } else if self.defect != Defect::NoCreate {
            inner.metrics.insert(name.to_string(), Box::new(CounterMetric::with_value(name, value)));
        }
    }
    fn set(&self, name: &str, value: u64) {
        yield_point("metrics");
        let mut inner = if self.defect == Defect::TryLockSet {
            match self.inner.try_lock() {
                Ok(g) => g,
                Err(_) => return,
            }
        } else {
            self.inner.lock().unwrap()
        };
        let mut v = value;
        if self.defect == Defect::SetAdds {
            if let Some(c) = inner.metrics.get(name).and_then(|m| Self::count_of(m.as_ref())) {
                v += c;
            }
        }
        inner.metrics.insert(name.to_string(), Box::new(CounterMetric::with_value(name, v)));
    }
    fn reg(&self, m: Box<dyn Metric>) {
        yield_point("metrics");
        let mut inner = self.inner.lock().unwrap();
        if self.defect == Defect::FirstWins && inner.metrics.contains_key(m.name()) {
            return;
        }
        inner.metrics.insert(m.name().to_string(), m);
    }
    fn reg_all(&self, ms: Vec<Box<dyn Metric>>) {
        for m in ms {
            self.reg(m);
        }
    }
    fn start(&self) {
        yield_point("metrics");
        self.inner.lock().unwrap().start_time = Some(Instant::now());
    }
    fn end(&self) {
        yield_point("metrics");
        self.inner.lock().unwrap().end_time = Some(Instant::now());
    }
    fn elapsed(&self) -> Option<Duration> {
        yield_point("metrics");
        let inner = self.inner.lock().unwrap();
        match (inner.start_time, inner.end_time) {
            (Some(s), Some(e)) => Some(e.duration_since(s)),
            _ => None,
        }
    }
    fn snap(&self) -> HashMap<String, Value> {
        yield_point("metrics");
        let inner = self.inner.lock().unwrap();
        inner.metrics.iter().map(|(n, m)| (n.clone(), m.value())).collect()
    }
    fn json(&self) -> Value {
        yield_point("metrics");
        let inner = self.inner.lock().unwrap();
        let mut o = serde_json::Map::new();
        for (n, m) in &inner.metrics {
            if self.defect == Defect::SkipNull && m.value().is_null() {
                continue;
            }
            let mut e = serde_json::Map::new();
            e.insert("value".into(), m.value());
            if let Some(d) = m.description() {
                e.insert("description".into(), json!(d));
            }
            o.insert(n.clone(), Value::Object(e));
        }
        if let (Some(s), Some(e)) = (inner.start_time, inner.end_time) {
            let d = e.duration_since(s);
            let ms = if self.defect == Defect::SubsecMillis { u64::from(d.subsec_millis()) } else { d.as_millis() as u64 };
            o.insert(
                "execution_time_ms".into(),
                json!({"value": ms, "description": "Total pipeline execution time in milliseconds"}),
            );
        }
        Value::Object(o)
    }
    fn save(&self, path: &str) -> bool {
        let text = serde_json::to_string_pretty(&self.json()).unwrap();
        if self.defect == Defect::NoTruncSave {
            use std::io::Write;
            return std::fs::OpenOptions::new()
                .write(true)
                .create(true)
                .open(path)
                .and_then(|mut f| f.write_all(text.as_bytes()))
                .is_ok();
        }
        std::fs::write(path, text).is_ok()
    }
    fn print(&self) {
        println!("\n========== Pipeline Metrics ==========");
        yield_point("metrics");
        let inner = self.inner.lock().unwrap();
        if let (Some(s), Some(e)) = (inner.start_time, inner.end_time) {
            if self.defect != Defect::PrintNoTime {
                let d = e.duration_since(s);
                println!("Execution Time: {:.3}s ({} ms)", d.as_secs_f64(), d.as_millis());
                println!("--------------------------------------");
            }
        }
        let mut sorted: Vec<_> = inner.metrics.iter().collect();
        sorted.sort_by_key(|(n, _)| *n);
        for (n, m) in sorted {
            match m.description() {
                Some(d) => println!("{}: {} ({})", n, m.value(), d),
                None => println!("{}: {}", n, m.value()),
            }
        }
        drop(inner);
        println!("======================================\n");
    }
}

fn new_collector() -> Arc<dyn Coll> {
    new_collector_via(0)
}
/// the three public constructors of an empty collector: new() / empty() / default()
fn new_collector_via(k: usize) -> Arc<dyn Coll> {
    match std::env::var("C16_MUTANT").ok().as_deref() {
        None | Some("") => Arc::new(Real(match k % 3 {
            0 => MetricsCollector::new(),
            1 => MetricsCollector::empty(),
            _ => MetricsCollector::default(),
        })),
        Some("split") => Arc::new(Mutant::new(Defect::Split)),
        Some("split_noyield") => Arc::new(Mutant::new(Defect::SplitNoYield)),
        Some("nocreate") => Arc::new(Mutant::new(Defect::NoCreate)),
        Some("replace_other") => Arc::new(Mutant::new(Defect::ReplaceOther)),
        Some("set_adds") => Arc::new(Mutant::new(Defect::SetAdds)),
        Some("first_wins") => Arc::new(Mutant::new(Defect::FirstWins)),
        Some("skip_null") => Arc::new(Mutant::new(Defect::SkipNull)),
        Some("subsec_millis") => Arc::new(Mutant::new(Defect::SubsecMillis)),
        Some("trylock_set") => Arc::new(Mutant::new(Defect::TryLockSet)),
        Some("notrunc_save") => Arc::new(Mutant::new(Defect::NoTruncSave)),
        Some("print_notime") => Arc::new(Mutant::new(Defect::PrintNoTime)),
        Some(other) => panic!("unknown C16_MUTANT {other}"),
    }
}

// ------------------------------------------------------------------ cooperative scheduler

thread_local! {
    static TID: Cell<Option<usize>> = const { Cell::new(None) };
    static YIELDS: Cell<u32> = const { Cell::new(0) };
}

#[derive(Clone, Copy, PartialEq, Debug)]
enum St {
    Running,
    Waiting,
    Done,
}
struct SchedState {
    turn: Option<usize>,
    st: Vec<St>,
    abort: bool,
}
struct Sched {
    m: Mutex<SchedState>,
    cv: Condvar,
}
/// wall-clock limit for one grant (a thread that does not reach its next yield point in time
/// is reported as a hang); C16_STEP_LIMIT_MS overrides it (scheduler self-test)
fn step_limit() -> Duration {
    static LIMIT: std::sync::OnceLock<Duration> = std::sync::OnceLock::new();
    *LIMIT.get_or_init(|| {
        let ms = std::env::var("C16_STEP_LIMIT_MS").ok().and_then(|v| v.parse().ok()).unwrap_or(60_000);
        Duration::from_millis(ms)
    })
}

impl Sched {
    fn new(n: usize) -> Arc<Self> {
        Arc::new(Self {
            m: Mutex::new(SchedState { turn: None, st: vec![St::Running; n], abort: false }),
            cv: Condvar::new(),
        })
    }
    /// hook body: a participating thread parks here until it is granted the next turn
    fn at_yield(&self) {
        let Some(t) = TID.with(Cell::get) else { return };
        YIELDS.with(|y| y.set(y.get() + 1));
        let mut g = self.m.lock().unwrap();
        if g.abort {
            return;
        }
        g.st[t] = St::Waiting;
        self.cv.notify_all();
        while g.turn != Some(t) && !g.abort {
            g = self.cv.wait(g).unwrap();
        }
        if g.turn == Some(t) {
            g.turn = None;
        }
    }
    fn finish(&self, t: usize) {
        let mut g = self.m.lock().unwrap();
        g.st[t] = St::Done;
        self.cv.notify_all();
    }
    fn give_up(&self) {
        let mut g = self.m.lock().unwrap();
        g.abort = true;
        self.cv.notify_all();
    }
    /// wait until no thread is running (all parked at a yield point or finished)
    fn quiesce(&self) -> bool {
        let deadline = Instant::now() + step_limit();
        let mut g = self.m.lock().unwrap();
        while g.st.iter().any(|s| *s == St::Running) {
            let now = Instant::now();
            if now >= deadline {
                return false;
            }
            g = self.cv.wait_timeout(g, deadline - now).unwrap().0;
        }
        true
    }
    /// grant one turn; Ok(false) = the thread had already finished (grant skipped)
    fn grant(&self, t: usize) -> Result<bool, ()> {
        let deadline = Instant::now() + step_limit();
        let mut g = self.m.lock().unwrap();
        if t >= g.st.len() || g.st[t] == St::Done {
            return Ok(false);
        }
        g.st[t] = St::Running;
        g.turn = Some(t);
        self.cv.notify_all();
        while g.st[t] == St::Running {
            let now = Instant::now();
            if now >= deadline {
                return Err(());
            }
            g = self.cv.wait_timeout(g, deadline - now).unwrap().0;
        }
        Ok(true)
    }
    fn done(&self, t: usize) -> bool {
        self.m.lock().unwrap().st[t] == St::Done
    }
}

#[derive(Clone)]
struct Op {
    code: i64,
    name: i64,
    val: i64,
}
fn parse_ops(v: &Value) -> Vec<Op> {
    v.as_array()
        .unwrap()
        .iter()
        .map(|o| Op {
            code: o[0].as_i64().unwrap(),
            name: o[1].as_i64().unwrap(),
            val: o[2].as_i64().unwrap(),
        })
        .collect()
}
fn apply(c: &dyn Coll, op: &Op) {
    match op.code {
        0 => c.inc(&name_str(op.name), op.val as u64),
        1 => c.set(&name_str(op.name), op.val as u64),
        2 => c.reg(make_metric(op.name, 0, op.val)),
        _ => c.reg(make_metric(op.name, 1, op.val)),
    }
}
fn init_collector(init: &Value) -> Arc<dyn Coll> {
    let c = new_collector();
    for m in init.as_array().unwrap() {
        c.reg(make_metric(m[0].as_i64().unwrap(), m[1].as_i64().unwrap(), m[2].as_i64().unwrap()));
    }
    c
}

/// Run the threads on a fresh collector under one forced schedule.
/// Result: [snapshot, yields per thread per call]  (or ["hang"] / ["panic"])
fn run_schedule(init: &Value, threads: &[Vec<Op>], sched: &[usize]) -> Value {
    // A grant that times out is retried on a fresh collector with fresh threads: on a heavily
    // loaded machine a thread can be stalled for a long time; a deadlock of the code under test
    // hangs every attempt and is reported.
    let mut r = json!(["hang"]);
    for _ in 0..3 {
        r = run_schedule_once(init, threads, sched);
        if r != json!(["hang"]) {
            break;
        }
    }
    r
}

fn run_schedule_once(init: &Value, threads: &[Vec<Op>], sched: &[usize]) -> Value {
    let coll = init_collector(init);
    let n = threads.len();
    let sc = Sched::new(n);
    let hook_sc = Arc::clone(&sc);
    set_yield_hook(Some(Arc::new(move |site: &'static str| {
        if site == "metrics" {
            hook_sc.at_yield();
        }
    })));
    let mut handles = Vec::new();
    for (t, ops) in threads.iter().enumerate() {
        let (ops, coll, sc) = (ops.clone(), Arc::clone(&coll), Arc::clone(&sc));
        handles.push(std::thread::spawn(move || {
            TID.with(|c| c.set(Some(t)));
            let mut counts = Vec::new();
            let mut panicked = false;
            for op in &ops {
                let y0 = YIELDS.with(Cell::get);
                if catch_unwind(AssertUnwindSafe(|| apply(coll.as_ref(), op))).is_err() {
                    panicked = true;
                }
                counts.push(YIELDS.with(Cell::get) - y0);
            }
            sc.finish(t);
            (counts, panicked)
        }));
    }
    let mut okay = sc.quiesce();
    if okay {
        for &t in sched {
            if sc.grant(t).is_err() {
                okay = false;
                break;
            }
        }
    }
    // drain: thread 0 to its end, then thread 1, ...
    if okay {
        'outer: for t in 0..n {
            while !sc.done(t) {
                if sc.grant(t).is_err() {
                    okay = false;
                    break 'outer;
                }
            }
        }
    }
    if !okay {
        // release the parked threads, give them a moment, and leave them behind (joining a
        // thread that is really stuck would hang the harness)
        sc.give_up();
        let until = Instant::now() + Duration::from_secs(2);
        while Instant::now() < until && !(0..n).all(|t| sc.done(t)) {
            std::thread::sleep(Duration::from_millis(10));
        }
        let all_done = (0..n).all(|t| sc.done(t));
        if all_done {
            for h in handles {
                let _ = h.join();
            }
        }
        set_yield_hook(None);
        return json!(["hang"]);
    }
    let mut yields = Vec::new();
    let mut any_panic = false;
    for h in handles {
        match h.join() {
            Ok((c, p)) => {
                yields.push(json!(c));
                any_panic |= p;
            }
            Err(_) => any_panic = true,
        }
    }
    set_yield_hook(None);
    if any_panic {
        return json!(["panic"]);
    }
    json!([canon_snapshot(&coll.snap()), yields])
}

/// all sequences in which thread t occurs counts[t] times, lexicographic order
fn interleavings(counts: &mut Vec<usize>, cur: &mut Vec<usize>, out: &mut Vec<Vec<usize>>) {
    if counts.iter().all(|c| *c == 0) {
        out.push(cur.clone());
        return;
    }
    for t in 0..counts.len() {
        if counts[t] > 0 {
            counts[t] -= 1;
            cur.push(t);
            interleavings(counts, cur, out);
            cur.pop();
            counts[t] += 1;
        }
    }
}
fn all_interleavings(lens: &[usize], slots: usize) -> Vec<Vec<usize>> {
    let mut counts: Vec<usize> = lens.iter().map(|l| l * slots).collect();
    let mut out = Vec::new();
    interleavings(&mut counts, &mut Vec::new(), &mut out);
    out
}

// ------------------------------------------------------------------ sequential API scripts

fn parse_metrics(v: &Value) -> Vec<Box<dyn Metric>> {
    v.as_array()
        .unwrap()
        .iter()
        .map(|m| make_metric(m[0].as_i64().unwrap(), m[1].as_i64().unwrap(), m[2].as_i64().unwrap()))
        .collect()
}

fn run_seq(calls: &Value) -> Value {
    set_yield_hook(None);
    let c = new_collector();
    let mut panics = Vec::new();
    for call in calls.as_array().unwrap() {
        let code = call[0].as_i64().unwrap();
        let r = catch_unwind(AssertUnwindSafe(|| match code {
            0 => c.inc(&name_str(call[1].as_i64().unwrap()), call[2].as_u64().unwrap()),
            1 => c.set(&name_str(call[1].as_i64().unwrap()), call[2].as_u64().unwrap()),
            2 => c.reg(make_metric(call[1].as_i64().unwrap(), 0, call[2].as_i64().unwrap())),
            3 => c.reg(make_metric(call[1].as_i64().unwrap(), 1, call[2].as_i64().unwrap())),
            4 => c.reg_all(parse_metrics(&call[1])),
            5 => c.start(),
            _ => c.end(),
        }));
        panics.push(r.is_err());
    }
    let obs = catch_unwind(AssertUnwindSafe(|| {
        let snap = canon_snapshot(&c.snap());
        let keys = canon_keys(&c.json());
        let el = c.elapsed().is_some();
        (snap, keys, el)
    }));
    match obs {
        Ok((snap, keys, el)) => json!(["ok", snap, keys, el, panics]),
        Err(_) => json!(["poisoned", panics]),
    }
}

// ------------------------------------------------------------------ free-running stress

fn run_stress(input: &Value) -> Value {
    set_yield_hook(None);
    let (nt, per, v, init) = (
        input[1].as_u64().unwrap(),
        input[2].as_u64().unwrap(),
        input[3].as_u64().unwrap(),
        input[4].as_i64().unwrap(),
    );
    let c = new_collector();
    if init >= 0 {
        c.reg(make_metric(0, 0, init));
    }
    let name = name_str(0);
    std::thread::scope(|s| {
        for _ in 0..nt {
            let (c, name) = (Arc::clone(&c), name.clone());
            s.spawn(move || {
                for _ in 0..per {
                    c.inc(&name, v);
                }
            });
        }
    });
    json!(["ok", canon_snapshot(&c.snap())])
}

// ------------------------------------------------------------------ pipelines with / without a collector

fn outcome<T>(r: std::thread::Result<anyhow::Result<Vec<T>>>, conv: &dyn Fn(T) -> Vec<i64>, sort: bool) -> Value {
    match r {
        Err(_) => json!(["panic"]),
        Ok(Err(_)) => json!(["err"]),
        Ok(Ok(v)) => {
            let mut rows: Vec<Vec<i64>> = v.into_iter().map(conv).collect();
            if sort {
                rows.sort();
            }
            json!(["ok", rows])
        }
    }
}

/// Runner configuration of a transparent case.
///   0 no checkpoint_config            1 Some(config) with enabled = false
///   2 AfterEveryBarrier               3 EveryNNodes(1)            4 EveryNNodes(2)
///   5 TimeInterval(0)                 6 TimeInterval(3600)
///   7 Hybrid{barriers, 0 s}           8 Hybrid{no barriers, 3600 s}
///   9 the collect_seq / collect_par helpers (successful runs; failing runs as cfg 0)
///   10 AfterEveryBarrier, auto_recover = false, keep all   11 EveryNNodes(1), keep 1
struct RunCfg {
    cfg: i64,
    dir: std::path::PathBuf,
    /// wall time of every run so far (harness Instants immediately around the run): both stamps
    /// of a run lie inside its window
    hi: RefCell<Vec<i64>>,
}
impl RunCfg {
    fn new(cfg: i64, dir: std::path::PathBuf) -> Self {
        Self { cfg, dir, hi: RefCell::new(Vec::new()) }
    }
}
fn checkpoint_config(rc: &RunCfg) -> Option<CheckpointConfig> {
    let policy = match rc.cfg {
        0 | 9 => return None,
        1 | 2 | 10 => CheckpointPolicy::AfterEveryBarrier,
        3 | 11 => CheckpointPolicy::EveryNNodes(1),
        4 => CheckpointPolicy::EveryNNodes(2),
        5 => CheckpointPolicy::TimeInterval(0),
        6 => CheckpointPolicy::TimeInterval(3600),
        7 => CheckpointPolicy::Hybrid { barriers: true, interval_secs: 0 },
        _ => CheckpointPolicy::Hybrid { barriers: false, interval_secs: 3600 },
    };
    Some(CheckpointConfig {
        enabled: rc.cfg != 1,
        directory: rc.dir.clone(),
        policy,
        auto_recover: rc.cfg != 10,
        max_checkpoints: match rc.cfg {
            10 => None,
            11 => Some(1),
            _ => Some(3),
        },
    })
}

fn collect_with<T: RFBound>(
    p: &Pipeline,
    c: &PCollection<T>,
    mode: i64,
    parts: usize,
    errmode: i64,
    rc: &RunCfg,
    conv: &dyn Fn(T) -> Vec<i64>,
    sort: bool,
) -> Value {
    let runner = Runner {
        mode: if mode == 0 {
            ExecMode::Sequential
        } else {
            ExecMode::Parallel { threads: None, partitions: Some(parts) }
        },
        checkpoint_config: checkpoint_config(rc),
        ..Default::default()
    };
    let t0 = Instant::now();
    let out = collect_run(&runner, p, c, mode, parts, errmode, rc, conv, sort);
    rc.hi.borrow_mut().push(ns(t0.elapsed()));
    out
}
#[allow(clippy::too_many_arguments)]
fn collect_run<T: RFBound>(
    runner: &Runner,
    p: &Pipeline,
    c: &PCollection<T>,
    mode: i64,
    parts: usize,
    errmode: i64,
    rc: &RunCfg,
    conv: &dyn Fn(T) -> Vec<i64>,
    sort: bool,
) -> Value {
    match errmode {
        // the terminal type does not match: the engine returns Err after running
        1 => {
            let r = catch_unwind(AssertUnwindSafe(|| runner.run_collect::<String>(p, c.node_id())));
            outcome(r, &|s: String| vec![s.len() as i64], sort)
        }
        // a terminal that is not in the graph: build_plan returns Err
        2 => {
            let r = catch_unwind(AssertUnwindSafe(|| runner.run_collect::<T>(p, NodeId::new(1_000_000))));
            outcome(r, conv, sort)
        }
        _ if rc.cfg == 9 => {
            let r = catch_unwind(AssertUnwindSafe(|| {
                if mode == 0 { c.clone().collect_seq() } else { c.clone().collect_par(None, Some(parts)) }
            }));
            outcome(r, conv, sort)
        }
        _ => {
            let r = catch_unwind(AssertUnwindSafe(|| runner.run_collect::<T>(p, c.node_id())));
            outcome(r, conv, sort)
        }
    }
}

/// build pipeline `pipe` on `p` and run it once per entry of `errmodes`
fn run_pipeline(
    p: &Pipeline,
    pipe: i64,
    mode: i64,
    data: &[i64],
    parts: usize,
    errmodes: &[i64],
    rc: &RunCfg,
) -> Value {
    let src = from_vec(p, data.to_vec());
    let mut outs = Vec::new();
    match pipe {
        0 => {
            let c = src.map(|x: &i64| x * 2 + 1).filter(|x: &i64| x % 3 != 0);
            for &e in errmodes {
                outs.push(collect_with(p, &c, mode, parts, e, rc, &|x: i64| vec![x], false));
            }
        }
        1 => {
            let c = src.key_by(|x: &i64| x.rem_euclid(3)).group_by_key();
            for &e in errmodes {
                outs.push(collect_with(
                    p,
                    &c,
                    mode,
                    parts,
                    e,
                    rc,
                    &|(k, mut vs): (i64, Vec<i64>)| {
                        // canonical row: key, then the group's values sorted
                        vs.sort_unstable();
                        let mut r = vec![k];
                        r.extend(vs);
                        r
                    },
                    true,
                ));
            }
        }
        2 => {
            let c = src.key_by(|x: &i64| x.rem_euclid(4)).combine_values(Sum::<i64>::default());
            for &e in errmodes {
                outs.push(collect_with(p, &c, mode, parts, e, rc, &|(k, s): (i64, i64)| vec![k, s], true));
            }
        }
        // every element x makes the closure sleep x ms (clamped to 0..=3000): a run that provably
        // lasts at least that long
        5 => {
            let c = src.map(|x: &i64| {
                std::thread::sleep(Duration::from_millis((*x).clamp(0, 3000) as u64));
                x + 1
            });
            for &e in errmodes {
                outs.push(collect_with(p, &c, mode, parts, e, rc, &|x: i64| vec![x], false));
            }
        }
        3 => {
            let c = src.combine_globally(Sum::<i64>::default(), Some(2));
            for &e in errmodes {
                outs.push(collect_with(p, &c, mode, parts, e, rc, &|s: i64| vec![s], false));
            }
        }
        _ => {
            let left = src.key_by(|x: &i64| x.rem_euclid(3));
            let right = from_vec(p, data.iter().map(|x| x + 1).collect::<Vec<i64>>())
                .key_by(|x: &i64| x.rem_euclid(3));
            let c = left.join_inner(&right);
            for &e in errmodes {
                outs.push(collect_with(
                    p,
                    &c,
                    mode,
                    parts,
                    e,
                    rc,
                    &|(k, (l, r)): (i64, (i64, i64))| vec![k, l, r],
                    true,
                ));
            }
        }
    }
    Value::Array(outs)
}

const BIG: u64 = (1 << 62) - 1;
const FREE: &str = "free-running threads, no scheduler";
const SCRATCH: &str = "/verif/run/C16/scratch";

// ------------------------------------------------------------------ JSON export of every metric kind

/// the "value" of the execution_time_ms entry of an export, -1 when it is missing / not a u64
fn time_entry(j: &Value) -> i64 {
    j.get("execution_time_ms")
        .and_then(|e| e.get("value"))
        .and_then(Value::as_u64)
        .and_then(|u| i64::try_from(u).ok())
        .unwrap_or(-1)
}
fn ns(d: Duration) -> i64 {
    i64::try_from(d.as_nanos()).unwrap()
}

/// in = [metrics, stamps, via_all]: register the metrics (one register_all, or register one by
/// one), optionally record start and end (stamps = 0: no stamps; k >= 1: record_start, sleep
/// k-1 ms, record_end), then export three ways.  The last output component relates the views of
/// the run's duration: [lo, hi, elapsed() in ns, to_json's execution_time_ms, the file's], where
/// lo..hi brackets (end - start) by the harness's own clock readings around the two calls.
fn run_export(input: &Value) -> Value {
    set_yield_hook(None);
    let c = new_collector();
    if input[2].as_i64().unwrap() != 0 {
        c.reg_all(parse_metrics(&input[0]));
    } else {
        for m in parse_metrics(&input[0]) {
            c.reg(m);
        }
    }
    let stamps = input[1].as_i64().unwrap();
    let mut bracket = (0i64, 0i64);
    if stamps != 0 {
        let t0 = Instant::now();
        c.start();
        let t1 = Instant::now();
        if stamps > 1 {
            std::thread::sleep(Duration::from_millis(stamps as u64 - 1));
        }
        let t2 = Instant::now();
        c.end();
        let t3 = Instant::now();
        bracket = (ns(t2.duration_since(t1)), ns(t3.duration_since(t0)));
    }
    let elapsed = c.elapsed();
    let snap = c.snap();
    let mut snap_keys: Vec<i64> = snap.keys().map(|k| name_int(k)).collect();
    snap_keys.sort_unstable();
    let mut counters: Vec<(i64, u64)> =
        snap.iter().filter_map(|(k, v)| v.as_u64().map(|u| (name_int(k), u))).collect();
    counters.sort_unstable();
    let j = c.json();
    let shaped = j.as_object().is_some_and(|o| o.values().all(|e| e.as_object().is_some_and(|e| e.contains_key("value"))));
    std::fs::create_dir_all(SCRATCH).unwrap();
    let dir = tempfile::Builder::new().prefix("export-").tempdir_in(SCRATCH).unwrap();
    let path = dir.path().join("metrics.json");
    let mut file_ms = -1i64;
    let file_keys = if c.save(path.to_str().unwrap()) {
        match std::fs::read_to_string(&path).ok().and_then(|t| serde_json::from_str::<Value>(&t).ok()) {
            Some(v) => {
                file_ms = time_entry(&v);
                canon_keys(&v)
            }
            None => json!("unreadable"),
        }
    } else {
        json!("not-saved")
    };
    let counters: Vec<Value> = counters.into_iter().map(|(k, u)| json!([k, u])).collect();
    let time = if stamps != 0 {
        json!([bracket.0, bracket.1, elapsed.map(ns), time_entry(&j), file_ms])
    } else {
        json!([0, 0, elapsed.map(ns), null, null])
    };
    json!(["ok", snap_keys, canon_keys(&j), shaped, file_keys, counters, time])
}

// ------------------------------------------------------------------ export sequences on shared paths

unsafe extern "C" {
    fn dup(fd: i32) -> i32;
    fn dup2(from: i32, to: i32) -> i32;
    fn close(fd: i32) -> i32;
}

/// while alive, file descriptor 1 points at `file`; the case lines of the emitter are written
/// between cases only, so nothing else reaches stdout meanwhile
struct StdoutRedirect {
    saved: i32,
}
impl StdoutRedirect {
    fn to(file: &std::fs::File) -> Self {
        use std::io::Write;
        use std::os::fd::AsRawFd;
        // a partial line of an earlier case still sitting in std's line buffer belongs to the real stdout
        std::io::stdout().flush().unwrap();
        let saved = unsafe { dup(1) };
        assert!(saved >= 0);
        assert!(unsafe { dup2(file.as_raw_fd(), 1) } >= 0);
        Self { saved }
    }
}
impl Drop for StdoutRedirect {
    fn drop(&mut self) {
        use std::io::Write;
        let _ = std::io::stdout().flush();
        unsafe {
            dup2(self.saved, 1);
            close(self.saved);
        }
    }
}

/// what print() writes to stdout
fn capture_print(c: &dyn Coll, tmp: &std::path::Path) -> Vec<u8> {
    let f = std::fs::File::create(tmp).unwrap();
    {
        let _g = StdoutRedirect::to(&f);
        c.print();
    }
    drop(f);
    std::fs::read(tmp).unwrap()
}

/// [length, polynomial hash (wrapping, low 40 bits)] of a byte string (Corr/C16.v computes the same of the model's text)
fn digest(b: &[u8]) -> Value {
    let mut h: u64 = 7;
    for &x in b {
        h = h.wrapping_mul(257).wrapping_add(u64::from(x) + 1);
    }
    json!([b.len(), h & ((1u64 << 40) - 1)])
}
/// a byte string as a plain ASCII string (one token for Coq's parser instead of a list of
/// numbers): letters, digits and harmless punctuation as they are, every other byte as ~XX
fn bytes_json(b: &[u8]) -> Value {
    let mut s = String::with_capacity(b.len() + 16);
    for &x in b {
        let c = x as char;
        if c.is_ascii_alphanumeric() || "_ .:/,;=+*<>()[]{}|!?@#$%^&'-".contains(c) {
            s.push(c);
        } else {
            s.push_str(&format!("~{x:02X}"));
        }
    }
    Value::String(s)
}
const FULL_TEXT_LIMIT: usize = 1500;

/// in = [ncoll, npaths, steps]: a script over `ncoll` collectors and the files m0.json ..
/// m<npaths-1>.json of one scratch directory (path -1: missing parent directory, -2: the
/// directory itself).  step =
///   [0,n,v] increment | [1,n,v] set_counter | [2,n,v] register counter | [3,n,v] register other |
///   [4,metrics] register_all | [5] record_start | [6] record_end | [7,p] save_to_file(p) |
///   [8,p] remove file p | [9,p,len,b] some other program writes len bytes to p |
///   [10,k] go on with collector k | [11,ms] sleep |
///   [12,base,count,v,mode] for i = count-1 down to 0 on c<base+i>: set_counter(v) (mode 0) / increment(v) (1) /
///                          one register_all of counters v (2)
/// After EVERY step: [result (0 ok, 1 err), elapsed ns | null, [lo,hi] | null (record_end with a
/// start before it: the harness's own bracket), digest of to_string_pretty(to_json()), digest of
/// the snapshot (as a sorted compact object), digest of what print() writes, digest | null of
/// every file, save info | null]; save info = [file parses as JSON, parsed == to_json(), file text
/// == to_string_pretty(to_json()), keys of the parsed file].  At the end the four texts
/// themselves (to_json, snapshot, print, files) when short.
fn run_saves(input: &Value) -> Value {
    set_yield_hook(None);
    let ncoll = input[0].as_u64().unwrap() as usize;
    let npaths = input[1].as_i64().unwrap();
    let colls: Vec<Arc<dyn Coll>> = (0..ncoll).map(|k| new_collector_via(k + input[2].as_array().map_or(0, Vec::len))).collect();
    let mut starts: Vec<Option<(Instant, Instant)>> = vec![None; ncoll];
    let mut cur = 0usize;
    std::fs::create_dir_all(SCRATCH).unwrap();
    let dir = tempfile::Builder::new().prefix("saves-").tempdir_in(SCRATCH).unwrap();
    let files_dir = dir.path().join("out");
    std::fs::create_dir_all(&files_dir).unwrap();
    let tmp = dir.path().join("stdout.txt");
    let path_of = |p: i64| -> std::path::PathBuf {
        match p {
            -1 => files_dir.join("missing").join("m.json"),
            -2 => files_dir.clone(),
            _ => files_dir.join(format!("m{p}.json")),
        }
    };
    let snapshot_text = |c: &dyn Coll| -> String {
        let m: serde_json::Map<String, Value> = c.snap().into_iter().collect();
        serde_json::to_string(&Value::Object(m)).unwrap()
    };
    let mut obs = Vec::new();
    for st in input[2].as_array().unwrap() {
        let c = Arc::clone(&colls[cur]);
        let arg = |i: usize| st[i].as_i64().unwrap();
        let mut res = 0;
        let mut lohi = Value::Null;
        let mut info = Value::Null;
        match arg(0) {
            0 => c.inc(&name_str(arg(1)), st[2].as_u64().unwrap()),
            1 => c.set(&name_str(arg(1)), st[2].as_u64().unwrap()),
            2 => c.reg(make_metric(arg(1), 0, arg(2))),
            3 => c.reg(make_metric(arg(1), 1, arg(2))),
            4 => c.reg_all(parse_metrics(&st[1])),
            5 => {
                let t0 = Instant::now();
                c.start();
                starts[cur] = Some((t0, Instant::now()));
            }
            6 => {
                let t0 = Instant::now();
                c.end();
                let t1 = Instant::now();
                if let Some((s0, s1)) = starts[cur] {
                    lohi = json!([ns(t0.saturating_duration_since(s1)), ns(t1.duration_since(s0))]);
                }
            }
            7 => {
                let path = path_of(arg(1));
                if c.save(path.to_str().unwrap()) {
                    let j = c.json();
                    let bytes = std::fs::read(&path).unwrap_or_default();
                    let parsed = serde_json::from_slice::<Value>(&bytes).ok();
                    info = json!([
                        parsed.is_some(),
                        parsed.as_ref() == Some(&j),
                        bytes == serde_json::to_string_pretty(&j).unwrap().as_bytes(),
                        parsed.as_ref().map_or(json!([]), canon_keys)
                    ]);
                } else {
                    res = 1;
                }
            }
            8 => {
                let _ = std::fs::remove_file(path_of(arg(1)));
            }
            9 => {
                let (len, b) = (arg(2), arg(3));
                let data: Vec<u8> = (0..len).map(|i| ((b + i) % 251) as u8).collect();
                std::fs::write(path_of(arg(1)), data).unwrap();
            }
            10 => cur = arg(1) as usize,
            11 => std::thread::sleep(Duration::from_millis(arg(1) as u64)),
            12 => {
                let (base, count, v, mode) = (arg(1), arg(2), st[3].as_u64().unwrap(), arg(4));
                // highest index first (the model's sorted insertion is linear that way)
                match mode {
                    0 => (0..count).rev().for_each(|i| c.set(&name_str(base + i), v)),
                    1 => (0..count).rev().for_each(|i| c.inc(&name_str(base + i), v)),
                    _ => c.reg_all((0..count).rev().map(|i| make_metric(base + i, 0, v as i64)).collect()),
                }
            }
            _ => return json!(["bad-step"]),
        }
        let c = Arc::clone(&colls[cur]);
        let files: Vec<Value> =
            (0..npaths).map(|p| std::fs::read(path_of(p)).map_or(Value::Null, |b| digest(&b))).collect();
        obs.push(json!([
            res,
            c.elapsed().map(ns),
            lohi,
            digest(serde_json::to_string_pretty(&c.json()).unwrap().as_bytes()),
            digest(snapshot_text(c.as_ref()).as_bytes()),
            digest(&capture_print(c.as_ref(), &tmp)),
            files,
            info
        ]));
    }
    let c = Arc::clone(&colls[cur]);
    let short = |b: Vec<u8>| if b.len() <= FULL_TEXT_LIMIT { bytes_json(&b) } else { Value::Null };
    let files: Vec<Value> =
        (0..npaths).map(|p| std::fs::read(path_of(p)).map_or(Value::Null, |b| short(b))).collect();
    let finals = json!([
        short(serde_json::to_string_pretty(&c.json()).unwrap().into_bytes()),
        short(snapshot_text(c.as_ref()).into_bytes()),
        short(capture_print(c.as_ref(), &tmp)),
        files
    ]);
    json!(["ok", obs, finals])
}

// ------------------------------------------------------------------ HistogramMetric::stats

/// exact hexadecimal rendering of an f64 (Coq reads hex float literals exactly)
fn hexf(x: f64) -> Value {
    let bits = x.to_bits();
    let neg = bits >> 63 == 1;
    let exp = ((bits >> 52) & 0x7ff) as i64;
    let man = bits & ((1u64 << 52) - 1);
    let body = if exp == 0x7ff {
        if man == 0 { "infinity".to_string() } else { "nan".to_string() }
    } else if exp == 0 {
        if man == 0 { "0x0p+0".to_string() } else { format!("0x0.{man:013x}p-1022") }
    } else {
        let e = exp - 1023;
        format!("0x1.{man:013x}p{}{}", if e < 0 { "-" } else { "+" }, e.abs())
    };
    json!({"f": if neg { format!("(-{body})") } else { body }})
}

/// samples in quarters: [0, list] | [1, n, a, b, m, off]: x_i = ((a i + b) mod m) - off
fn expand_samples(g: &Value) -> Vec<i64> {
    if g[0] == 0 {
        g[1].as_array().unwrap().iter().map(|x| x.as_i64().unwrap()).collect()
    } else {
        let a = |i: usize| g[i].as_i64().unwrap();
        (0..a(1)).map(|i| (a(2) * i + a(3)).rem_euclid(a(4)) - a(5)).collect()
    }
}

/// in = [via, samples]: via 0 = new() + record() one by one, 1 = with_values(), 2 = with_values() of
/// the first half + record() of the rest (+ with_description); out = the fields of stats() (times
/// four, as integers; the mean as a float) and whether value() carries the same numbers
fn run_hist(input: &Value) -> Value {
    let xs: Vec<f64> = expand_samples(&input[1]).into_iter().map(|q| q as f64 / 4.0).collect();
    let h = match input[0].as_i64().unwrap() {
        0 => {
            let mut h = HistogramMetric::new("h");
            xs.iter().for_each(|&x| h.record(x));
            h
        }
        1 => HistogramMetric::with_values("h", xs.clone()),
        _ => {
            let mut h = HistogramMetric::with_values("h", xs[..xs.len() / 2].to_vec()).with_description("d");
            xs[xs.len() / 2..].iter().for_each(|&x| h.record(x));
            h
        }
    };
    let st = h.stats();
    let q = |x: f64| -> Value {
        let y = x * 4.0;
        if y.fract() == 0.0 && y.abs() < 9.0e15 { json!(y as i64) } else { json!("inexact") }
    };
    let v = h.value();
    let same = |k: &str, x: f64| v.get(k).and_then(Value::as_f64).is_some_and(|y| y.to_bits() == x.to_bits());
    let twin = v.as_object().is_some_and(|o| o.len() == 8)
        && v.get("count").and_then(Value::as_u64) == Some(st.count as u64)
        && same("sum", st.sum)
        && same("mean", st.mean)
        && same("min", st.min)
        && same("max", st.max)
        && same("p50", st.p50)
        && same("p95", st.p95)
        && same("p99", st.p99)
        && h.name() == "h";
    json!(["ok", [st.count, q(st.sum), hexf(st.mean), q(st.min), q(st.max), q(st.p50), q(st.p95), q(st.p99)], twin])
}

fn run_transparent(input: &Value) -> Value {
    set_yield_hook(None);
    let pipe = input[0].as_i64().unwrap();
    let mode = input[1].as_i64().unwrap();
    let data: Vec<i64> = input[2].as_array().unwrap().iter().map(|x| x.as_i64().unwrap()).collect();
    let parts = input[3].as_u64().unwrap() as usize;
    let errmodes: Vec<i64> = input[5].as_array().unwrap().iter().map(|x| x.as_i64().unwrap()).collect();
    let poison = input[6].as_i64().unwrap() != 0;
    let cfg = input.get(7).and_then(Value::as_i64).unwrap_or(0);
    // scratch checkpoint directories (one per pipeline), removed when the case is done
    std::fs::create_dir_all(SCRATCH).unwrap();
    let d0 = tempfile::Builder::new().prefix("ckpt-a-").tempdir_in(SCRATCH).unwrap();
    let d1 = tempfile::Builder::new().prefix("ckpt-b-").tempdir_in(SCRATCH).unwrap();
    let rc0 = RunCfg::new(cfg, d0.path().join("ck"));
    let rc1 = RunCfg::new(cfg, d1.path().join("ck"));

    // without a collector
    let p0 = Pipeline::default();
    let without = run_pipeline(&p0, pipe, mode, &data, parts, &errmodes, &rc0);

    // with a collector (only the real one can be attached to a pipeline)
    let mut mc = MetricsCollector::new();
    mc.register_all(parse_metrics(&input[4]));
    if poison {
        // five increments of 2^62-1 overflow u64: the fifth panics inside the critical section
        for _ in 0..5 {
            let _ = catch_unwind(AssertUnwindSafe(|| mc.increment_counter("c900", BIG)));
        }
    }
    let p1 = Pipeline::default();
    p1.set_metrics(mc.clone());
    let t_before = Instant::now();
    let with = run_pipeline(&p1, pipe, mode, &data, parts, &errmodes, &rc1);
    let window = ns(t_before.elapsed());
    let rest = catch_unwind(AssertUnwindSafe(|| {
        let el = mc.elapsed();
        let got = p1.get_metrics().is_some();
        let taken = p1.take_metrics();
        let j = taken.as_ref().map(|m| m.to_json());
        let keys = j.as_ref().map_or(Value::Null, canon_keys);
        let gone = p1.get_metrics().is_none();
        let positive = el.is_some_and(|d| d > Duration::ZERO);
        // the views of the duration: [all runs took place within `window` ns, elapsed() in ns,
        // the execution_time_ms entry of to_json, the LAST run took place within this many ns]
        let json_ms = match (&el, &j) {
            (Some(_), Some(j)) => json!(time_entry(j)),
            _ => Value::Null,
        };
        let time = json!([window, el.map(ns), json_ms, rc1.hi.borrow().last().copied().unwrap_or(0)]);
        json!(["ok", el.is_some(), keys, got, taken.is_some(), gone, positive, time])
    }))
    .unwrap_or_else(|_| json!(["panic"]));
    json!(["ok", with, without, rest])
}

// ------------------------------------------------------------------ a long critical section

const SLOW_NAME: i64 = 50;

/// in = [driver, init, ops, ms]: thread A calls to_json (driver 0) / snapshot (driver 1), which
/// holds the lock for `ms` milliseconds inside SlowMetric::value; thread B waits until A is
/// inside, then performs `ops`.  out = [ok, final snapshot, B saw A inside before its first call,
/// A had left the section when B's first call returned]
fn run_busy(input: &Value) -> Value {
    // on a heavily loaded machine thread B can be stalled past the end of A's section before it
    // has made its first call: such an attempt did not overlap and is repeated
    let mut r = run_busy_once(input);
    for _ in 0..4 {
        if r[2] == json!(true) {
            break;
        }
        r = run_busy_once(input);
    }
    r
}
fn run_busy_once(input: &Value) -> Value {
    set_yield_hook(None);
    let driver = input[0].as_i64().unwrap();
    let ops = parse_ops(&input[2]);
    let ms = input[3].as_u64().unwrap();
    let c = init_collector(&input[1]);
    let inside = Arc::new(AtomicBool::new(false));
    let left = Arc::new(AtomicBool::new(false));
    c.reg(Box::new(SlowMetric {
        name: name_str(SLOW_NAME),
        armed: AtomicBool::new(true),
        inside: Arc::clone(&inside),
        left: Arc::clone(&left),
        ms,
    }));
    let (mut overlapped, mut blocked) = (false, true);
    std::thread::scope(|s| {
        let a = Arc::clone(&c);
        s.spawn(move || {
            if driver == 0 {
                let _ = a.json();
            } else {
                let _ = a.snap();
            }
        });
        let b = Arc::clone(&c);
        let (inside, left) = (Arc::clone(&inside), Arc::clone(&left));
        let (ov, bl) = s
            .spawn(move || {
                let deadline = Instant::now() + Duration::from_secs(20);
                while !inside.load(Ordering::SeqCst) && Instant::now() < deadline {
                    std::thread::sleep(Duration::from_micros(200));
                }
                let ov = inside.load(Ordering::SeqCst) && !left.load(Ordering::SeqCst);
                let mut bl = true;
                for (i, op) in ops.iter().enumerate() {
                    apply(b.as_ref(), op);
                    if i == 0 {
                        bl = left.load(Ordering::SeqCst);
                    }
                }
                (ov, bl)
            })
            .join()
            .unwrap();
        overlapped = ov;
        blocked = bl;
    });
    json!(["ok", canon_snapshot(&c.snap()), overlapped, blocked])
}

// ------------------------------------------------------------------ the pipeline's metrics slot

const MARK: i64 = 100;
const GETS: i64 = 200;

/// marker of a collector handed out by the pipeline: k for collector k, -1 for None, -2 unknown
fn marker_of(m: Option<&MetricsCollector>, n: i64) -> i64 {
    match m {
        None => -1,
        Some(m) => {
            let snap = m.snapshot();
            let ks: Vec<i64> = (0..n).filter(|k| snap.contains_key(&name_str(MARK + k))).collect();
            if ks.len() == 1 { ks[0] } else { -2 }
        }
    }
}

/// in = [steps, mode, data, parts, cfg]; step [0,k] set_metrics(collector k) | [1,e] run with
/// errmode e | [2] take_metrics | [3] get_metrics (and increment c200 through the clone).
/// Collector k carries the marker counter c<100+k> = k+1.  The pipeline is the sleeping map
/// (pipe 5).  out = [ok, per step [observation, elapsed() ns of every collector], per collector
/// [snapshot, to_json execution_time_ms, to_json keys]]; observation = 0 (set) | [tag, window ns]
/// (run; tag 0 ok 1 err 2 panic) | marker (take, get)
fn run_attach(input: &Value) -> Value {
    set_yield_hook(None);
    let steps = input[0].as_array().unwrap();
    let mode = input[1].as_i64().unwrap();
    let data: Vec<i64> = input[2].as_array().unwrap().iter().map(|x| x.as_i64().unwrap()).collect();
    let parts = input[3].as_u64().unwrap() as usize;
    let cfg = input[4].as_i64().unwrap();
    let n = steps.iter().filter(|s| s[0] == 0).map(|s| s[1].as_i64().unwrap() + 1).max().unwrap_or(0).max(1);
    std::fs::create_dir_all(SCRATCH).unwrap();
    let d = tempfile::Builder::new().prefix("ckpt-s-").tempdir_in(SCRATCH).unwrap();
    let rc = RunCfg::new(cfg, d.path().join("ck"));
    let colls: Vec<MetricsCollector> = (0..n)
        .map(|k| {
            let mut m = MetricsCollector::new();
            m.register(Box::new(CounterMetric::with_value(name_str(MARK + k), (k + 1) as u64)));
            m
        })
        .collect();
    let p = Pipeline::default();
    let c = from_vec(&p, data).map(|x: &i64| {
        std::thread::sleep(Duration::from_millis((*x).clamp(0, 3000) as u64));
        x + 1
    });
    let mut obs = Vec::new();
    for st in steps {
        let o = match st[0].as_i64().unwrap() {
            0 => {
                p.set_metrics(colls[st[1].as_u64().unwrap() as usize].clone());
                json!(0)
            }
            1 => {
                let r = collect_with(&p, &c, mode, parts, st[1].as_i64().unwrap(), &rc, &|x: i64| vec![x], false);
                let tag = match r[0].as_str() {
                    Some("ok") => 0,
                    Some("err") => 1,
                    _ => 2,
                };
                json!([tag, rc.hi.borrow().last().copied().unwrap()])
            }
            2 => json!(marker_of(p.take_metrics().as_ref(), n)),
            _ => {
                let g = p.get_metrics();
                if let Some(g) = &g {
                    g.increment_counter(&name_str(GETS), 1);
                }
                json!(marker_of(g.as_ref(), n))
            }
        };
        let els: Vec<Value> = colls.iter().map(|m| json!(m.elapsed().map(ns))).collect();
        obs.push(json!([o, els]));
    }
    let finals: Vec<Value> = colls
        .iter()
        .map(|m| {
            let j = m.to_json();
            let t = if m.elapsed().is_some() { json!(time_entry(&j)) } else { Value::Null };
            json!([canon_snapshot(&m.snapshot()), t, canon_keys(&j)])
        })
        .collect();
    json!(["ok", obs, finals])
}

// ------------------------------------------------------------------ run

fn run(kind: &str, input: &Value) -> Value {
    match kind {
        "sched" => {
            let threads: Vec<Vec<Op>> = input[1].as_array().unwrap().iter().map(parse_ops).collect();
            let sched: Vec<usize> =
                input[2].as_array().unwrap().iter().map(|t| t.as_u64().unwrap() as usize).collect();
            let r = run_schedule(&input[0], &threads, &sched);
            if r.as_array().is_some_and(|a| a.len() == 1) { r } else { json!(["ok", r[0], r[1]]) }
        }
        "all" => {
            let threads: Vec<Vec<Op>> = input[1].as_array().unwrap().iter().map(parse_ops).collect();
            let slots = input[2].as_u64().unwrap() as usize;
            let lens: Vec<usize> = threads.iter().map(Vec::len).collect();
            let total: usize = lens.iter().sum::<usize>() * slots;
            if threads.len() > 4 || total > 14 || slots == 0 || slots > 2 {
                return json!(["invalid"]);
            }
            let mut rows = Vec::new();
            for s in all_interleavings(&lens, slots) {
                rows.push(run_schedule(&input[0], &threads, &s));
            }
            json!(["ok", rows])
        }
        "seq" => run_seq(&input[0]),
        "stress" => run_stress(input),
        "transparent" => run_transparent(input),
        "export" => run_export(input),
        "saves" => run_saves(input),
        "hist" => run_hist(input),
        "busy" => run_busy(input),
        "attach" => run_attach(input),
        _ => json!(["bad-kind"]),
    }
}

// ------------------------------------------------------------------ generation

fn ops_json(ops: &[Op]) -> Value {
    Value::Array(ops.iter().map(|o| json!([o.code, o.name, o.val])).collect())
}
fn threads_json(ts: &[Vec<Op>]) -> Value {
    Value::Array(ts.iter().map(|t| ops_json(t)).collect())
}
/// at least two threads touch one common name and one of those operations is an increment
fn contended(ts: &[Vec<Op>]) -> bool {
    for name in 0..3 {
        let touching: Vec<&Vec<Op>> =
            ts.iter().filter(|t| t.iter().any(|o| o.name == name)).collect();
        if touching.len() >= 2 && touching.iter().any(|t| t.iter().any(|o| o.name == name && o.code == 0)) {
            return true;
        }
    }
    false
}
fn random_op(rng: &mut SplitMix64, names: i64, incr_bias: u64) -> Op {
    let code = if rng.chance(incr_bias, 10) { 0 } else { rng.range(0, 3) };
    Op { code, name: rng.range(0, names - 1), val: rng.range(0, 9) }
}
fn shapes(nthreads: usize, maxlen: usize) -> Vec<Vec<usize>> {
    let mut out: Vec<Vec<usize>> = vec![vec![]];
    for _ in 0..nthreads {
        let mut next = Vec::new();
        for s in &out {
            for l in 1..=maxlen {
                let mut t = s.clone();
                t.push(l);
                next.push(t);
            }
        }
        out = next;
    }
    out
}
fn multinomial(lens: &[usize], slots: usize) -> u64 {
    // number of interleavings
    let mut r: u64 = 1;
    let mut n: u64 = 0;
    for l in lens {
        for i in 1..=(l * slots) as u64 {
            n += 1;
            r = r * n / i;
        }
    }
    r
}

fn generate(seed: u64, tier: Tier, em: &mut Emitter) {
    let thorough = tier == Tier::Thorough;
    let mut rng = SplitMix64::new(seed ^ 0xC16);

    // 1. every interleaving (one grant per call) of 2..3 threads x 1..3 operations (thorough:
    //    also 4 threads x 1..2 operations):
    //    (a) all increments on one counter, distinct powers of a base so that any lost update
    //        shows in the sum; (b..) seeded mixes of increment / set / register on 1-2 names
    let mixes = if thorough { 5 } else { 2 };
    let max_threads = if thorough { 4usize } else { 3 };
    for nthreads in 2..=max_threads {
        for shape in shapes(nthreads, if nthreads == 4 { 2 } else { 3 }) {
            // (a)
            let mut k = 0;
            let ts: Vec<Vec<Op>> = shape
                .iter()
                .map(|l| {
                    (0..*l)
                        .map(|_| {
                            k += 1;
                            Op { code: 0, name: 0, val: 1 << (k - 1) }
                        })
                        .collect()
                })
                .collect();
            em.case("all", json!([[[0, 0, 1000]], threads_json(&ts), 1]), true, &["exhaustive", "incr-only"]);
            for m in 0..mixes {
                let names = 1 + (m % 2) as i64;
                let ts: Vec<Vec<Op>> = shape
                    .iter()
                    .map(|l| (0..*l).map(|_| random_op(&mut rng, names, 4)).collect())
                    .collect();
                let init = match rng.below(4) {
                    0 => json!([]),
                    1 => json!([[0, 0, rng.range(0, 50)]]),
                    2 => json!([[0, 0, rng.range(0, 50)], [1, 0, rng.range(0, 50)]]),
                    _ => json!([[0, 1, rng.range(0, 5)], [1, 0, rng.range(0, 50)]]),
                };
                let nt = contended(&ts);
                em.case("all", json!([init, threads_json(&ts), 1]), nt, &["exhaustive", "mix"]);
            }
        }
    }

    // 2. the same under the assumption of TWO critical sections per call (a thread that needs
    //    only one skips the surplus grant): drives a re-split read-modify-write through
    //    r1 r2 w1 w2
    let limit = if thorough { 5_000 } else { 1_000 };
    for nthreads in 2..=max_threads {
        for shape in shapes(nthreads, if nthreads == 4 { 2 } else { 3 }) {
            if multinomial(&shape, 2) > limit {
                continue;
            }
            let mut k = 0;
            let ts: Vec<Vec<Op>> = shape
                .iter()
                .map(|l| {
                    (0..*l)
                        .map(|_| {
                            k += 1;
                            Op { code: 0, name: 0, val: 1 << (k - 1) }
                        })
                        .collect()
                })
                .collect();
            em.case("all", json!([[[0, 0, 7]], threads_json(&ts), 2]), true, &["exhaustive", "two-slot", "incr-only"]);
            let ts: Vec<Vec<Op>> = shape
                .iter()
                .map(|l| (0..*l).map(|_| random_op(&mut rng, 2, 6)).collect())
                .collect();
            let init = json!([[0, 0, rng.range(0, 50)], [1, 0, rng.range(0, 50)]]);
            let nt = contended(&ts);
            em.case("all", json!([init, threads_json(&ts), 2]), nt, &["exhaustive", "two-slot", "mix"]);
        }
    }

    // 3. seeded random forced schedules of bigger pools (2..4 threads x 1..5 operations, 1..3
    //    names), schedule = random interleaving with 1 or 2 grants per call, sometimes truncated
    //    (the rest is drained in thread order)
    let n_sched = if thorough { 6000 } else { 500 };
    for _ in 0..n_sched {
        let nthreads = rng.range(2, 4) as usize;
        let names = rng.range(1, 3);
        let ts: Vec<Vec<Op>> = (0..nthreads)
            .map(|_| (0..rng.range(1, 5)).map(|_| random_op(&mut rng, names, 5)).collect())
            .collect();
        let slots = rng.range(1, 2) as usize;
        let mut sched: Vec<usize> = Vec::new();
        for (t, ops) in ts.iter().enumerate() {
            sched.extend(std::iter::repeat_n(t, ops.len() * slots));
        }
        for i in (1..sched.len()).rev() {
            let j = rng.below(i as u64 + 1) as usize;
            sched.swap(i, j);
        }
        if rng.chance(1, 5) {
            let keep = rng.below(sched.len() as u64 + 1) as usize;
            sched.truncate(keep);
        }
        let mut init: Vec<Value> = Vec::new();
        for n in 0..names {
            if rng.chance(2, 3) {
                if rng.chance(4, 5) {
                    init.push(json!([n, 0, rng.range(0, 99)]));
                } else {
                    init.push(json!([n, 1, rng.range(0, 5)]));
                }
            }
        }
        let nt = contended(&ts);
        em.case("sched", json!([init, threads_json(&ts), sched]), nt, &["random"]);
    }

    // 4. single-threaded API scripts: boundary scripts first, then seeded random
    let big = BIG;
    let fixed: Vec<Value> = vec![
        json!([]),
        json!([[0, 0, 5]]),                                   // increment of a missing name creates it
        json!([[0, 0, 0]]),
        json!([[3, 0, 2], [0, 0, 5]]),                        // increment of a gauge: nothing
        json!([[3, 0, 3], [0, 0, 5]]),                        // increment of a custom metric: nothing
        json!([[3, 0, 2], [1, 0, 5], [0, 0, 1]]),             // set_counter replaces any kind
        json!([[2, 0, 7], [2, 0, 9]]),                        // duplicate registration: replacement
        json!([[4, [[0, 0, 1], [1, 0, 2], [0, 1, 4], [1, 0, 3]]]]), // register_all with duplicates
        json!([[4, []]]),
        json!([[5], [6]]),
        json!([[6], [5]]),
        json!([[5]]),
        json!([[6]]),
        json!([[2, -1, 4], [5], [6]]),                        // a user metric called execution_time_ms
        json!([[2, -1, 4], [5]]),
        json!([[0, 0, big], [0, 0, big], [0, 0, big], [0, 0, big], [0, 0, 3]]), // 2^64-1 exactly
        json!([[0, 0, big], [0, 0, big], [0, 0, big], [0, 0, big], [0, 0, 4], [0, 1, 1], [1, 0, 1]]), // overflow
        json!([[0, 0, big], [0, 0, big], [0, 0, big], [0, 0, big], [0, 0, big], [5], [6]]),
        json!([[1, 0, big], [0, 0, big], [1, 0, 1], [0, 0, 1]]),
    ];
    for f in fixed {
        em.case("seq", json!([f]), true, &["boundary"]);
    }
    let n_seq = if thorough { 3000 } else { 300 };
    for _ in 0..n_seq {
        let len = rng.range(0, 8);
        let names = rng.range(1, 3);
        let calls: Vec<Value> = (0..len)
            .map(|_| match rng.below(10) {
                0..=3 => json!([0, rng.range(0, names - 1), rng.range(0, 9)]),
                4 => json!([1, rng.range(0, names - 1), rng.range(0, 9)]),
                5 => json!([2, rng.range(-1, names - 1), rng.range(0, 9)]),
                6 => json!([3, rng.range(0, names - 1), rng.range(0, 5)]),
                7 => {
                    let ms: Vec<Value> = (0..rng.range(0, 3))
                        .map(|_| json!([rng.range(0, names - 1), rng.range(0, 1), rng.range(0, 5)]))
                        .collect();
                    json!([4, ms])
                }
                8 => json!([5]),
                _ => json!([6]),
            })
            .collect();
        em.case("seq", json!([calls]), len >= 2, &["random"]);
    }

    // 5. free-running stress, no hook: 16 threads x 20000 increments
    let reps = if thorough { 10 } else { 2 };
    for r in 0..reps {
        em.case("stress", json!([FREE, 16, 20000, 1, -1]), true, &["stress"]);
        em.case("stress", json!([FREE, 16, 20000, 1 + r, 5]), true, &["stress"]);
    }
    em.case("stress", json!([FREE, 2, 50000, 3, 0]), true, &["stress"]);
    em.case("stress", json!([FREE, 4, 20000, 1, 1]), true, &["stress"]);

    // every metric kind with its awkward values: (kind, val) of make_metric
    let catalogue: Vec<(i64, i64)> = vec![
        (0, 0), (0, 1), (0, BIG as i64),
        (1, 2), (1, 3),
        (2, 0), (2, 1), (2, 2), (2, 3), (2, 4), (2, 5), (2, 6),
        (3, 0), (3, 1), (3, 6), (3, 7), (3, 43), (3, 100), (3, 103),
        (4, 0), (4, 1), (4, 2), (4, 3), (4, 4), (4, 5),
        (5, 0), (5, 1),
    ];

    // 6. pipelines with and without a collector, both engines
    let datas: Vec<Vec<i64>> = vec![
        vec![],
        vec![5],
        (0..10).collect(),
        vec![3, -1, 4, 1, -5, 9, 2, 6, 5, 3, 5],
    ];
    for pipe in 0..5 {
        for mode in 0..2 {
            for (di, data) in datas.iter().enumerate() {
                let parts = [1usize, 3, 4, 7][di];
                let regs = match (pipe + di as i64) % 3 {
                    0 => json!([]),
                    1 => json!([[0, 0, 3], [1, 1, 2]]),
                    _ => json!([[0, 0, 3], [0, 1, 5], [2, 0, 1], [-1, 0, 9]]),
                };
                em.case("transparent", json!([pipe, mode, data, parts, regs, [0], 0, 0]), !data.is_empty(), &["pipeline"]);
            }
        }
    }
    // failing runs and a collector that is reused over several runs
    for pipe in 0..5 {
        for mode in 0..2 {
            for errs in [vec![1], vec![2], vec![0, 2], vec![2, 0], vec![0, 1, 0], vec![2, 2]] {
                let data: Vec<i64> = (0..rng.range(1, 12)).map(|_| rng.range(-9, 9)).collect();
                let parts = rng.range(1, 5);
                em.case(
                    "transparent",
                    json!([pipe, mode, data, parts, [[0, 0, 1]], errs, 0, 0]),
                    true,
                    &["pipeline", "failing-run"],
                );
            }
        }
    }
    // every Runner configuration: checkpoint_config None / disabled / enabled with each policy,
    // and the collect_seq / collect_par helpers; successful runs on a fresh collector, then
    // failing and repeated runs under the checkpointing engines
    for pipe in 0..5 {
        for mode in 0..2 {
            for cfg in 1..=11 {
                let data: Vec<i64> = (0..rng.range(3, 12)).map(|_| rng.range(-9, 9)).collect();
                let parts = rng.range(1, 4);
                let regs = if cfg % 2 == 0 { json!([[0, 0, 1]]) } else { json!([[0, 2, 0], [1, 4, 0], [2, 3, 0]]) };
                em.case(
                    "transparent",
                    json!([pipe, mode, data, parts, regs, [0], 0, cfg]),
                    true,
                    &["pipeline", "runner-config"],
                );
            }
        }
    }
    for pipe in [0, 1, 3, 4] {
        for mode in 0..2 {
            for cfg in [2, 3, 5, 7, 9] {
                for errs in [vec![1], vec![2], vec![0, 2], vec![0, 0]] {
                    let data: Vec<i64> = (0..rng.range(2, 9)).map(|_| rng.range(-9, 9)).collect();
                    em.case(
                        "transparent",
                        json!([pipe, mode, data, rng.range(1, 3), [[0, 0, 1]], errs, 0, cfg]),
                        true,
                        &["pipeline", "runner-config", "failing-run"],
                    );
                }
            }
        }
    }
    // runs of a known minimal duration (the closure sleeps): sub-second and beyond one second,
    // so that the exported milliseconds cannot be the duration modulo one second
    let mut sleepy: Vec<(i64, Vec<i64>, i64, Vec<i64>, i64)> = vec![
        (0, vec![300], 1, vec![0], 0),
        (1, vec![400, 400], 2, vec![0], 0),
        (0, vec![1100], 1, vec![0], 2),
        // a collector reused by several runs: the time reported afterwards is the LAST run's
        (0, vec![60], 1, vec![0, 0], 0),
        (1, vec![40, 20], 2, vec![0, 0, 0], 2),
        (0, vec![50], 1, vec![0, 1], 3),
        (0, vec![50], 1, vec![1, 0], 0),
        (1, vec![50], 1, vec![0, 2, 0], 9),
    ];
    if thorough {
        sleepy.extend([
            (0, vec![1100], 1, vec![0], 0),
            (0, vec![600, 600], 1, vec![0], 3),
            (1, vec![1100], 2, vec![0], 3),
            (0, vec![1100], 1, vec![0, 0], 0),
            (0, vec![1050], 1, vec![0], 9),
            (1, vec![2050, 10], 2, vec![0], 9),
            (0, vec![999], 1, vec![2, 0], 5),
        ]);
    }
    for (mode, data, parts, errs, cfg) in sleepy {
        em.case(
            "transparent",
            json!([5, mode, data, parts, [[0, 0, 1], [-1, 0, 9]], errs, 0, cfg]),
            true,
            &["pipeline", "timed"],
        );
    }
    let n_tr = if thorough { 400 } else { 40 };
    for _ in 0..n_tr {
        let data: Vec<i64> = (0..rng.range(0, 30)).map(|_| rng.range(-20, 20)).collect();
        let regs: Vec<Value> = (0..rng.range(0, 4))
            .map(|_| {
                let (k, v) = *rng.pick(&catalogue);
                json!([rng.range(-3, 3), k, v])
            })
            .collect();
        let errs: Vec<i64> = (0..rng.range(1, 3)).map(|_| if rng.chance(3, 4) { 0 } else { rng.range(1, 2) }).collect();
        em.case(
            "transparent",
            json!([rng.range(0, 4), rng.range(0, 1), data, rng.range(1, 6), regs, errs, 0, rng.range(0, 11)]),
            true,
            &["pipeline", "random"],
        );
    }

    // 7. JSON export (to_json, save_to_file, snapshot) of every metric kind the crate ships and
    //    of user metrics, with awkward values and names: each alone, then seeded lists with
    //    repeated names
    for &(k, v) in &catalogue {
        for name in [0, -1, -2, -5] {
            for stamps in 0..2 {
                em.case("export", json!([[[name, k, v]], stamps, (k + v + name) & 1]), true, &["export", "single"]);
            }
        }
    }
    // 8. a long critical section (to_json / snapshot inside a slow Metric::value) on one thread
    //    while another thread writes: no update is dropped, the writer waits
    let busy_ms = if thorough { 300 } else { 120 };
    let scripts: Vec<Vec<[i64; 3]>> = vec![
        vec![[1, 0, 42]],
        vec![[0, 0, 5]],
        vec![[1, 1, 9]],
        vec![[0, 1, 3], [0, 1, 4]],
        vec![[1, 0, 7], [0, 0, 2], [0, 1, 1]],
        vec![[2, 0, 11], [0, 0, 1]],
        vec![[0, 0, 1], [1, 0, 100], [0, 0, 1]],
        vec![[3, 2, 4], [1, 2, 6]],
    ];
    for (i, ops) in scripts.iter().enumerate() {
        for driver in 0..2 {
            if !thorough && (i + driver) % 2 == 1 && i >= 2 {
                continue;
            }
            let ops: Vec<Value> = ops.iter().map(|o| json!(o)).collect();
            em.case("busy", json!([driver, [[0, 0, 10], [3, 1, 2]], ops, busy_ms]), true, &["busy"]);
        }
    }

    // 9. the pipeline's metrics slot: set_metrics replaces, take_metrics empties, get_metrics
    //    clones; a run stamps the attached collector only
    let (s0, s1, s2) = (json!([0, 0]), json!([0, 1]), json!([0, 2]));
    let (r, re, rp, t, g) = (json!([1, 0]), json!([1, 1]), json!([1, 2]), json!([2]), json!([3]));
    let slot_scripts: Vec<Vec<&Value>> = vec![
        vec![&s0, &r, &s1, &r, &g, &t],
        vec![&s0, &s1, &r, &t],
        vec![&s0, &r, &t, &s1, &r, &t],
        vec![&s0, &g, &g, &r, &g, &t],
        vec![&s0, &r, &s1, &g, &t, &t],
        vec![&r, &s0, &r, &t, &r, &g],
        vec![&s0, &r, &s1, &r, &s0, &r, &t],
        vec![&s0, &s0, &r, &t],
        vec![&s0, &rp, &s1, &re, &t],
        vec![&s0, &r, &s1, &rp, &g, &t],
        vec![&t, &g, &s0, &t, &g],
        vec![&s0, &r, &s1, &t, &r, &g],
        vec![&s0, &s1, &s2, &r, &t, &s1, &r, &g],
        vec![&s1, &r, &s0, &re, &s2, &r, &t, &t],
        vec![&s0, &s1, &t, &r],
        vec![&s0, &r, &s1, &r],
    ];
    for (i, sc) in slot_scripts.iter().enumerate() {
        for mode in 0..2 {
            let cfg = if thorough { [0, 2, 3, 9][(i + mode) % 4] } else { [0, 0, 2][(i + mode) % 3] };
            let data = if mode == 0 { json!([2, 1]) } else { json!([3]) };
            em.case("attach", json!([sc, mode, data, 1 + mode, cfg]), true, &["attach", "script"]);
        }
    }
    let n_slot = if thorough { 600 } else { 60 };
    for _ in 0..n_slot {
        let steps: Vec<Value> = (0..rng.range(2, 9))
            .map(|_| match rng.range(0, 9) {
                0..=2 => json!([0, rng.range(0, 2)]),
                3..=5 => json!([1, if rng.chance(3, 4) { 0 } else { rng.range(1, 2) }]),
                6 | 7 => json!([2]),
                _ => json!([3]),
            })
            .collect();
        let mode = rng.range(0, 1);
        em.case(
            "attach",
            json!([steps, mode, [rng.range(0, 3)], rng.range(1, 2), *rng.pick(&[0, 0, 1, 2, 3, 5, 9])]),
            true,
            &["attach", "random"],
        );
    }

    // 10. export SEQUENCES: several save_to_file calls on the same path(s) - growing, shrinking and
    //     equal exports, from one or several collectors, next to files of other programs, removed
    //     files and paths that cannot be created - with to_json / snapshot / print / every file
    //     observed after EVERY step
    let resaved = |steps: &[Value]| -> bool {
        // honest non-triviality: some path is saved to at least twice
        let ps: Vec<i64> = steps
            .iter()
            .filter(|s| s[0] == 7 && s[1].as_i64().unwrap() >= 0)
            .map(|s| s[1].as_i64().unwrap())
            .collect();
        ps.iter().enumerate().any(|(i, p)| ps[..i].contains(p))
    };
    let pow10 = |d: u32| -> i64 { 10i64.pow(d - 1) };
    // (a) one counter whose decimal length goes from d1 to d2 digits (20 digits = u64::MAX)
    let lens = [1u32, 2, 3, 5, 10, 19, 20];
    let set_len = |d: u32| -> Value { if d == 20 { json!([4, [[0, 5, 1]]]) } else { json!([1, 0, pow10(d)]) } };
    for (i, &d1) in lens.iter().enumerate() {
        for (j, &d2) in lens.iter().enumerate() {
            let mut steps = vec![set_len(d1)];
            if (i + j) % 2 == 0 {
                steps.extend([json!([5]), json!([6])]);
            }
            steps.push(json!([7, 0]));
            if (i + 2 * j) % 3 == 0 {
                steps.push(json!([7, 1]));
            }
            steps.extend([set_len(d2), json!([7, 0])]);
            if (i + 2 * j) % 3 == 0 {
                steps.extend([json!([0, 1, 1]), json!([7, 1]), json!([7, 0])]);
            }
            em.case("saves", json!([1, 2, steps]), true, &["saves", "digits"]);
        }
    }
    // (b) the execution time of a second, faster (slower, equal) run in the same file
    let mut naps: Vec<(i64, i64)> = vec![(12, 0), (0, 12), (2, 2), (101, 1)];
    if thorough {
        naps.extend([(1001, 0), (0, 101), (10, 9), (100, 99)]);
    }
    for &(a, b) in &naps {
        let steps = json!([[2, 3, 41], [5], [11, a], [6], [7, 0], [5], [11, b], [6], [7, 0], [5], [7, 0], [6], [7, 0]]);
        em.case("saves", json!([1, 1, steps]), true, &["saves", "time"]);
    }
    // (c) two collectors of k and k/2 metrics taking turns on one path, then every value shrinks
    //     from 19 digits to one: k across the powers of two
    //     (names c1000.. : equal width, so that byte order = numeric order)
    let mut sizes: Vec<i64> = vec![1, 2, 4, 8, 16, 20, 32, 64, 128, 256, 512];
    if thorough {
        sizes.extend([1024, 2048, 4096]);
    }
    // (emitted between the seeded scripts below, so that the big ones end up in different shards)
    let mut heavy: Vec<Value> = Vec::new();
    for &k in &sizes {
        let half = (k / 2).max(1);
        let steps = json!([
            [12, 1000, k, pow10(19), 2], [7, 0], [10, 1], [12, 1000, half, 5, 0], [7, 0], [10, 0], [7, 0],
            [12, 1000, k, 1, 0], [7, 0], [12, 1000, k, pow10(10), 1], [7, 0], [7, 1]
        ]);
        heavy.push(json!([2, 2, steps]));
    }
    // (d) every metric kind replaced by a one-digit counter under the same name and back
    let exact: Vec<(i64, i64)> = catalogue.iter().copied().filter(|&(k, v)| !(k == 3 && v >= 100)).collect();
    for (i, &(k, v)) in exact.iter().enumerate() {
        let name = [0, -1, -2, -5, -6, 7][i % 6];
        let steps = json!([[4, [[name, k, v]]], [7, 0], [1, name, 3], [7, 0], [4, [[name, k, v], [1, k, v]]], [7, 0]]);
        em.case("saves", json!([1, 1, steps]), true, &["saves", "kinds"]);
    }
    // (e) files of other programs, removed files, paths that cannot be created, three paths
    let path_scripts: Vec<Value> = vec![
        json!([[1, 0, 5], [9, 0, 300, 65], [7, 0], [9, 0, 3, 65], [7, 0], [9, 0, 0, 0], [7, 0]]),
        json!([[1, 0, 1000000], [7, 0], [8, 0], [1, 0, 7], [7, 0], [8, 0], [8, 0], [7, 0]]),
        json!([[1, 0, 1000000], [7, 0], [1, 0, 7], [7, -1], [7, -2], [7, 0], [7, -1]]),
        json!([[7, 0], [7, 0], [1, 0, 1], [7, 0], [10, 1], [7, 0], [7, 1], [10, 0], [7, 1]]),
        json!([[12, 0, 6, 123456, 0], [7, 0], [7, 1], [7, 2], [12, 2, 3, 1, 0], [7, 1], [12, 0, 6, 2, 0], [7, 2], [7, 0]]),
        json!([[4, [[0, 3, 6], [1, 4, 5]]], [5], [6], [7, 0], [10, 1], [2, 0, 1], [7, 0], [10, 2], [7, 0], [10, 0], [7, 0]]),
        json!([[3, -1, 3], [7, 0], [5], [6], [7, 0], [10, 1], [3, -1, 3], [7, 0]]),
        json!([[9, 1, 5000, 1], [12, 0, 40, 77, 2], [7, 1], [10, 1], [7, 1], [9, 1, 5000, 2], [7, 1]]),
    ];
    for sc in &path_scripts {
        em.case("saves", json!([3, 3, sc]), true, &["saves", "paths"]);
    }
    // (f) seeded scripts
    let n_saves = if thorough { 1500 } else { 150 };
    let snames = [0, 1, 2, 3, 10, -1, -2, -3, -4, -5, -6, -7];
    // (no u64::MAX counter here: a later increment would overflow and poison the collector)
    let exact: Vec<(i64, i64)> = exact.iter().copied().filter(|&kv| kv != (5, 1)).collect();
    for r in 0..n_saves {
        if r % 12 == 11 {
            if let Some(h) = heavy.pop() {
                em.case("saves", h, true, &["saves", "sizes"]);
            }
        }
        let ncoll = rng.range(1, 3);
        let npaths = rng.range(1, 3);
        let mut steps: Vec<Value> = Vec::new();
        for _ in 0..rng.range(4, 12) {
            let name = *rng.pick(&snames);
            steps.push(match rng.range(0, 24) {
                0..=3 => json!([1, name, pow10(rng.range(1, 19) as u32) + rng.range(0, 9)]),
                4 | 5 => json!([0, name, pow10(rng.range(1, 18) as u32)]),
                6 | 7 => {
                    let (k, v) = *rng.pick(&exact);
                    json!([4, [[name, k, v]]])
                }
                8 => {
                    let ms: Vec<Value> = (0..rng.range(0, 4))
                        .map(|_| {
                            let (k, v) = *rng.pick(&exact);
                            json!([*rng.pick(&snames), k, v])
                        })
                        .collect();
                    json!([4, ms])
                }
                9 => json!([5]),
                10 => json!([6]),
                11 | 12 => json!([10, rng.range(0, ncoll - 1)]),
                13 => json!([8, rng.range(0, npaths - 1)]),
                14 => json!([9, rng.range(0, npaths - 1), *rng.pick(&[0, 1, 30, 300, 3000]), rng.range(0, 250)]),
                15 => json!([7, rng.range(-2, -1)]),
                16 => json!([11, 1]),
                17 => json!([12, rng.range(0, 3), rng.range(0, 9), pow10(rng.range(1, 19) as u32), rng.range(0, 2)]),
                _ => json!([7, rng.range(0, npaths - 1)]),
            });
        }
        let nt = resaved(&steps);
        em.case("saves", json!([ncoll, npaths, steps]), nt, &["saves", "random"]);
    }
    for h in heavy {
        em.case("saves", h, true, &["saves", "sizes"]);
    }

    // 11. HistogramMetric::stats: every size 0..130 (the percentile indices count/2, count*95/100,
    //     count*99/100 move at different sizes), then every power of two and its neighbours;
    //     ascending, descending, constant, few distinct values, negative samples; filled by
    //     record(), with_values() or both
    let mut hsizes: Vec<i64> = (0..=130).collect();
    for e in 8..=(if thorough { 13 } else { 11 }) {
        let p = 1i64 << e;
        hsizes.extend([p - 1, p, p + 1]);
    }
    hsizes.extend([199, 200, 201, 999, 1000, 1001]);
    for (i, &n) in hsizes.iter().enumerate() {
        let i = i as i64;
        let sg = match i % 6 {
            0 => json!([1, n, 6, 0, 1i64 << 40, 0]),             // 0, 1.5, 3.0, ..
            1 => json!([1, n, -3, 0, 1i64 << 40, 1i64 << 39]),    // descending, negative
            2 => json!([1, n, 7919, 13, 10007, 5000]),            // scattered
            3 => json!([1, n, 1, 0, 3, 1]),                       // three distinct values
            4 => json!([1, n, 0, 5, 7, 0]),                       // constant
            _ => json!([1, n, 104729, 1, 1i64 << 36, 1i64 << 35]), // large magnitudes
        };
        em.case("hist", json!([i % 3, sg]), n > 0, &["hist", "sizes"]);
    }
    for _ in 0..(if thorough { 2000 } else { 200 }) {
        let n = rng.range(1, 40);
        let span = *rng.pick(&[1i64, 3, 10, 1000, 1 << 30]);
        let xs: Vec<i64> = (0..n).map(|_| rng.range(-span, span)).collect();
        em.case("hist", json!([rng.range(0, 2), [0, xs]]), true, &["hist", "random"]);
    }

    // the three views of one run's duration, below and beyond one second
    let mut timed: Vec<i64> = vec![2, 6, 251, 1001, 1101];
    if thorough {
        timed.extend([501, 1000, 1206, 2051, 3001]);
    }
    for (i, &st) in timed.iter().enumerate() {
        let ms = if i % 2 == 0 { json!([[0, 0, 5]]) } else { json!([[-1, 0, 77], [1, 2, 0]]) };
        em.case("export", json!([ms, st, i % 2]), true, &["export", "timed"]);
    }
    em.case("export", json!([[], 0, 0]), false, &["export", "single"]);
    em.case("export", json!([[], 1, 1]), false, &["export", "single"]);
    let n_ex = if thorough { 2500 } else { 250 };
    let names = [0, 1, 2, -1, -2, -3, -4, -5, -6, -7];
    for _ in 0..n_ex {
        let ms: Vec<Value> = (0..rng.range(1, 7))
            .map(|_| {
                let (k, v) = *rng.pick(&catalogue);
                json!([*rng.pick(&names), k, v])
            })
            .collect();
        em.case("export", json!([ms, rng.range(0, 1), rng.range(0, 1)]), true, &["export", "random"]);
    }
}

fn main() {
    drive(&generate, &run);
}
