//! C09: file I/O round-trips; sharded, streamed and parallel paths equal the plain ones.
//! Runs the REAL ironbeam readers / writers on real files under /verif/run/C09/io-<pid>/ (removed
//! at the end). Every record carries an integer id; a case reports the ids read back (ORDER and
//! COUNT are what the model predicts) and one boolean "every payload field came back bit-exact".
//!
//! kinds (inputs are arrays; `null` = None):
//!   jl  [items, per, t, p]           items = [[text, eol]..] written verbatim (eol 0 "\n", 1 "\r\n", 2 "")
//!   js  [n, pseed, per, t, p, via]   write_jsonl_vec (via=1: PCollection::write_jsonl), stream back
//!   jw  [n, pseed, shards, via]      write_jsonl_par (via=1: PCollection::write_jsonl_par) vs write_jsonl_vec
//!   cs  [n, pseed, h, per, t, p, via]
//!   cw  [n, pseed, h, shards, via]
//!   ps  [n, pseed, rg, per, t, p]    rg = 0: ironbeam's writer; rg > 0: parquet writer with that max row-group size
//!   gl  [fmt, h, pat, files, pseed]  files = [[[component..], count]..]; count -1 = a directory
//!   jf  [k]                          the float k as f64 (|k| < 2^53, exact) through JSONL, CSV, Parquet
//!   jz  [n, pseed, ext, shards, via, per, t, p]      JSONL to `*.jsonl.<ext>` (codec by extension): write_jsonl_vec and
//!                                    write_jsonl_par, each file read back whole and streamed in both modes
//!   cz  [n, pseed, ext, h, shards, via, per, t, p]   the same for CSV
//!   ow  [fmt, ext, h, w1, w2, n1, n2, pseed, shards]  overwrite: n1 records (ids 1000..) written with writer w1, then n2
//!                                    records (ids 0..) written to the SAME path with writer w2; the file must hold
//!                                    exactly the second data set. fmt 0 jsonl / 1 csv / 2 parquet; ext "" or a codec;
//!                                    writers: 0 write_*_vec, 1 PCollection::write_*, 2 write_*_par, 3 PCollection::write_*_par
//!   big [fmt, n, rg, per, t, p]     n tiny records (an id only); fmt 0 jsonl / 1 csv / 2 parquet (rg as in ps); only
//!                                    summaries (count, first, last, sum, consecutive) of whole / seq / par come back
//!   gen [fmt, h, n, rg, per, order, t, p, ps1, ps2]  ONE streaming source handle, collected (order 0: par then seq,
//!                                    1: seq then par), the file rewritten in place with the same shape but other
//!                                    records (ids 1000..), collected again
//!   jb  [hi, lo]                     the finite f64 with bit pattern hi * 2^32 + lo through JSONL, CSV, Parquet
//!   rx  [fmt, h, n, rg, per, pseed, t, p, pol, rec]  ONE streaming source over a written file, run through EVERY
//!                                    execution configuration (see `engine_run`): collect_seq, collect_par, collect,
//!                                    Runner { Sequential | Parallel, checkpoint_config None | Some(disabled) |
//!                                    Some(enabled, policy pol, auto_recover rec) }, with a trailing identity filter, and
//!                                    as the LEFT and as the RIGHT side of an inner join with an in-memory collection
//!                                    (run_subplan_seq / run_subplan_par); 18 outcomes in a fixed order
//!   vo  [fmt, h, na, nb, rg, tot, ranges, pseed]  the public adapters JsonlVecOps / CsvVecOps / ParquetVecOps called
//!                                    directly: ONE adapter instance, hand-built shard structs (arbitrary ranges and
//!                                    total) over two files A (ids 0..) and B (ids 1000..): len / split / clone_any on
//!                                    A, B, A again, plus payloads of a foreign type (must give None)
//!   g2  [fmt, h, n1, n2, rg1, rg2, per, order, t, p, ps1, ps2]  as gen, but the second generation has n2 records (and
//!                                    row-group size rg2) and every generation is collected by all four engines
//!                                    (seq, par, seq+checkpoint, par+checkpoint), in the rotation given by order
use ibv::{Emitter, SplitMix64, Tier, drive, ok};
use ironbeam::checkpoint::{CheckpointConfig, CheckpointPolicy};
use ironbeam::io::csv::{CsvShards, CsvVecOps, build_csv_shards};
use ironbeam::io::jsonl::{JsonlShards, JsonlVecOps, build_jsonl_shards};
use ironbeam::io::parquet::{ParquetShards, ParquetVecOps, build_parquet_shards};
use ironbeam::runner::ExecMode;
use ironbeam::{
    PCollection, Partition, Pipeline, Runner, VecOps, from_vec, read_csv, read_csv_streaming, read_csv_vec, read_jsonl,
    read_jsonl_streaming, read_jsonl_vec, read_parquet_streaming, read_parquet_vec, write_csv_par,
    write_csv_vec, write_jsonl_par, write_parquet_vec,
};
use serde::{Deserialize, Serialize};
use serde_json::{Value, json};
use std::panic::{AssertUnwindSafe, catch_unwind};
use std::path::{Path, PathBuf};
use std::sync::atomic::{AtomicU64, Ordering};

#[derive(Serialize, Deserialize, Clone, Debug)]
struct Small {
    id: u64,
    s: String,
}

#[derive(Serialize, Deserialize, Clone, Debug)]
struct Rec {
    id: u64,
    s: String,
    i: i64,
    u: u64,
    f: f64,
    t: String,
}

fn same(a: &Rec, b: &Rec) -> bool {
    a.id == b.id && a.s == b.s && a.i == b.i && a.u == b.u && a.f.to_bits() == b.f.to_bits() && a.t == b.t
}

const STRS: &[&str] = &[
    "", " ", "  lead", "trail  ", "a,b", "a;b", "\"q\"", "'", "line1\nline2", "\r\n", "\r", "\n",
    "\t", "tab\there", "\u{fc}n\u{ef}c\u{f6}d\u{e9}", "\u{65e5}\u{672c}\u{8a9e}", "\u{1F600}",
    "e\u{301}", "\u{2028}", "\u{85}", "\u{a0}", "\u{feff}", "\\", "\\n", "{\"id\":1}", "null",
    "true", "123", "-1.5e3", "NaN", "#c", " , ", ",,,,", "\"\"", "\"", "a\"b,c\nd", "\u{0}",
    "\u{1}\u{7f}", "id", "s", "\u{3000}", "x\r\ny", " \" ", "\",\"", "\n\n", "end\\",
];
const I64S: &[i64] = &[i64::MIN, i64::MIN + 1, -1, 0, 1, i64::MAX, i64::MAX - 1, -4_294_967_296, 4_294_967_295];
const U64S: &[u64] = &[0, 1, u64::MAX, u64::MAX - 1, 9_007_199_254_740_993, 1 << 63, (1 << 63) - 1, 4_294_967_296];
const F64S: &[f64] = &[
    0.0, -0.0, 1.0, -1.0, 1.5, -2.25, 0.5, 0.125, 1024.0, 9_007_199_254_740_992.0,
    -4_503_599_627_370_496.0, -9_007_199_254_740_991.0, 1_801_439_850_948_199.0, f64::MAX, f64::MIN, f64::MIN_POSITIVE, 5e-324, 0.1, 1e-7, 2.5e-308, 1e15, 3.0e10, 6.103_515_625e-5, -0.0078125, 4_294_967_296.5,
];

fn mk_rec(pseed: u64, id: u64) -> Rec {
    let mut r = SplitMix64::new(pseed.wrapping_mul(0x1_0000_01B3) ^ id.wrapping_mul(0x9E37) ^ 0xC09);
    let pick_s = |r: &mut SplitMix64| {
        let k = r.below(4);
        let mut s = String::new();
        for _ in 0..k {
            let piece: &str = *r.pick(STRS);
            s.push_str(piece);
        }
        if r.chance(1, 40) {
            s.push_str(&"long,\"\n ".repeat(40));
        }
        s
    };
    let s = pick_s(&mut r);
    let t = pick_s(&mut r);
    let i = if r.chance(2, 3) { *r.pick(I64S) } else { r.next_u64() as i64 };
    let u = if r.chance(2, 3) { *r.pick(U64S) } else { r.next_u64() };
    let f = if r.chance(3, 4) {
        *r.pick(F64S)
    } else if r.chance(1, 2) {
        // k / 2^j with |k| < 2^20: exactly representable, short decimal expansion
        (r.range(-(1 << 20), 1 << 20) as f64) / f64::from(1u32 << r.below(11))
    } else {
        // any finite double (random sign, exponent, mantissa)
        f64::from_bits((r.next_u64() & 0x800F_FFFF_FFFF_FFFF) | (r.below(0x7FF) << 52))
    };
    Rec { id, s, i, u, f, t }
}

fn recs(pseed: u64, base: u64, n: u64) -> Vec<Rec> {
    (base..base + n).map(|id| mk_rec(pseed, id)).collect()
}

/// ids of what came back + "payload identical to mk_rec(pseed, id)"
fn ids_of(v: &[Rec], pseed: u64, all_ok: &mut bool) -> Value {
    for r in v {
        if !same(r, &mk_rec(pseed, r.id)) {
            *all_ok = false;
        }
    }
    Value::Array(v.iter().map(|r| json!(r.id)).collect())
}

static CASE_NO: AtomicU64 = AtomicU64::new(0);

fn root() -> PathBuf {
    PathBuf::from(format!("/verif/run/C09/io-{}", std::process::id()))
}

struct Scratch(PathBuf);
impl Scratch {
    fn new() -> Self {
        let d = root().join(format!("c{}", CASE_NO.fetch_add(1, Ordering::SeqCst)));
        let _ = std::fs::remove_dir_all(&d);
        std::fs::create_dir_all(&d).expect("scratch dir");
        Scratch(d)
    }
    fn p(&self, name: &str) -> PathBuf {
        self.0.join(name)
    }
}
impl Drop for Scratch {
    fn drop(&mut self) {
        let _ = std::fs::remove_dir_all(&self.0);
    }
}

fn opt_usize(v: &Value) -> Option<usize> {
    if v.is_null() { None } else { Some(v.as_u64().expect("usize or null") as usize) }
}
fn us(v: &Value) -> usize {
    v.as_u64().expect("usize") as usize
}

/// outcome of one read path: ["ok", x] | ["err"] | ["panic"]
fn path_outcome<T>(f: impl FnOnce() -> anyhow::Result<T>, show: impl FnOnce(T) -> Value) -> Value {
    match catch_unwind(AssertUnwindSafe(f)) {
        Ok(Ok(v)) => json!(["ok", show(v)]),
        Ok(Err(_)) => json!(["err"]),
        Err(_) => json!(["panic"]),
    }
}

fn ranges_json(r: &[(u64, u64)]) -> Value {
    Value::Array(r.iter().map(|(a, b)| json!([a, b])).collect())
}

fn ncpu2() -> usize {
    // Runner::default().default_partitions = 2 * num_cpus::get().max(2)
    Runner::default().default_partitions / 2
}

fn checksum(b: &[u8]) -> u64 {
    b.iter().fold(0xcbf2_9ce4_8422_2325u64, |h, x| (h ^ u64::from(*x)).wrapping_mul(0x100_0000_01b3)) >> 3
}

/// Shape of a well-formed input per kind: u = unsigned int, i = signed int, o = unsigned int or
/// null, b = bool, s = string, a = array. Anything else (e.g. a candidate of check.py's shrinker)
/// is answered with ["invalid"] instead of a harness panic.
fn valid(kind: &str, input: &Value) -> bool {
    let sig = match kind {
        "jl" => "auuu",
        "js" => "uuuuuu",
        "jw" => "uuou",
        "cs" => "uubuuuu",
        "cw" => "uubou",
        "ps" => "uuuuuu",
        "gl" => "ubuau",
        "jf" => "i",
        "jb" => "uu",
        "jz" => "uusouuuu",
        "cz" => "uusbouuuu",
        "ow" => "usbuuuuuo",
        "big" => "uuuuuu",
        "gen" => "ubuuuuuuuu",
        "rx" => "ubuuuuuuub",
        "vo" => "ubuuuuau",
        "g2" => "ubuuuuuuuuuu",
        _ => return false,
    };
    let Some(arr) = input.as_array() else { return false };
    if arr.len() != sig.len() {
        return false;
    }
    let shape_ok = arr.iter().zip(sig.chars()).all(|(v, c)| match c {
        'u' => v.is_u64(),
        'i' => v.is_i64(),
        'o' => v.is_u64() || v.is_null(),
        'b' => v.is_boolean(),
        's' => v.is_string(),
        _ => v.is_array(),
    });
    if !shape_ok {
        return false;
    }
    match kind {
        "jl" => arr[0].as_array().unwrap().iter().all(|it| {
            it.as_array().is_some_and(|p| p.len() == 2 && p[0].is_string() && p[1].as_u64().is_some_and(|e| e <= 2))
        }),
        "gl" => {
            // no entry may be a (non-strict) prefix of another one: a file cannot also be a directory
            let paths: Vec<Vec<&str>> = arr[3]
                .as_array()
                .unwrap()
                .iter()
                .filter_map(|f| f.get(0)?.as_array().map(|cs| cs.iter().filter_map(Value::as_str).collect()))
                .collect();
            let clash = paths
                .iter()
                .enumerate()
                .any(|(i, a)| paths.iter().enumerate().any(|(j, b)| i != j && b.starts_with(a)));
            !clash
                && arr[0].as_u64().unwrap() <= 2
                && arr[2].as_u64().unwrap() <= 2
                && arr[3].as_array().unwrap().iter().all(|f| {
                    f.as_array().is_some_and(|p| {
                        p.len() == 2
                            && p[1].as_i64().is_some_and(|c| (-1..=1000).contains(&c))
                            && p[0].as_array().is_some_and(|cs| {
                                !cs.is_empty()
                                    && cs.iter().all(|c| {
                                        c.as_str().is_some_and(|c| {
                                            !c.is_empty() && c != "." && c != ".." && !c.contains(['/', '*', '?', '[', '\0'])
                                        })
                                    })
                            })
                    })
                })
        }
        "ow" => {
            let (fmt, w1, w2) = (arr[0].as_u64().unwrap(), arr[3].as_u64().unwrap(), arr[4].as_u64().unwrap());
            let ext = arr[1].as_str().unwrap();
            fmt <= 2
                && w1 <= 3
                && w2 <= 3
                && (fmt < 2 || (w1 <= 1 && w2 <= 1 && ext.is_empty()))
                && ext.bytes().all(|b| b.is_ascii_alphanumeric())
                && arr[5].as_u64().unwrap() <= 10_000
                && arr[6].as_u64().unwrap() <= 10_000
        }
        "big" => arr[0].as_u64().unwrap() <= 2 && arr[1].as_u64().unwrap() <= 1_100_000,
        "gen" => arr[0].as_u64().unwrap() <= 2 && arr[2].as_u64().unwrap() <= 10_000 && arr[5].as_u64().unwrap() <= 1,
        "rx" => arr[0].as_u64().unwrap() <= 2 && arr[2].as_u64().unwrap() <= 10_000,
        "g2" => arr[0].as_u64().unwrap() <= 2 && arr[2].as_u64().unwrap() <= 10_000 && arr[3].as_u64().unwrap() <= 10_000,
        "vo" => {
            // hand-built Parquet ranges are materialised as Vec<usize> by the reader: keep them small
            let lim = if arr[0].as_u64().unwrap() == 2 { 64 } else { 1 << 40 };
            arr[0].as_u64().unwrap() <= 2
                && arr[2].as_u64().unwrap() <= 1000
                && arr[3].as_u64().unwrap() <= 1000
                && arr[5].as_u64().unwrap() <= lim
                && arr[6].as_array().unwrap().iter().all(|r| {
                    r.as_array().is_some_and(|p| p.len() == 2 && p.iter().all(|x| x.as_u64().is_some_and(|x| x <= lim)))
                })
        }
        "jf" => arr[0].as_i64().unwrap().abs() < (1 << 53),
        "jb" => arr.iter().all(|v| v.as_u64().unwrap() < (1 << 32)),
        _ => arr[0].as_u64().unwrap() <= 100_000,
    }
}

#[derive(Serialize, Deserialize, Clone, Debug)]
struct Tiny {
    id: u64,
}

/// [count, first, last, sum, consecutive] of a big read (first/last = -1 when empty)
fn summary(v: Vec<Tiny>) -> Value {
    let cons = v.windows(2).all(|w| w[1].id == w[0].id + 1);
    let sum: u64 = v.iter().map(|r| r.id).sum();
    json!([v.len(), v.first().map_or(-1, |r| r.id as i64), v.last().map_or(-1, |r| r.id as i64), sum, cons])
}

fn write_parquet_any<T: Serialize + for<'a> Deserialize<'a>>(path: &Path, data: &Vec<T>, rg: usize) -> anyhow::Result<()> {
    use arrow::datatypes::FieldRef;
    use parquet::arrow::arrow_writer::ArrowWriter;
    use parquet::file::properties::WriterProperties;
    use serde_arrow::schema::{SchemaLike, TracingOptions};
    let fields: Vec<FieldRef> = Vec::<FieldRef>::from_type::<T>(TracingOptions::default())?;
    let batch = serde_arrow::to_record_batch(&fields, data)?;
    let props = WriterProperties::builder().set_max_row_group_size(rg).build();
    let mut w = ArrowWriter::try_new(std::fs::File::create(path)?, batch.schema(), Some(props))?;
    w.write(&batch)?;
    w.close()?;
    Ok(())
}


// ------------------------------------------------------------------ formats and execution configurations

const FILE_NAMES: [&str; 3] = ["d.jsonl", "d.csv", "d.parquet"];

/// write `data` in format fmt (0 jsonl / 1 csv / 2 parquet; rg = 0: ironbeam's own Parquet writer,
/// rg > 0: the parquet crate's writer with that max row-group size)
fn write_fmt<T: Serialize + for<'a> Deserialize<'a>>(fmt: usize, path: &Path, h: bool, rg: usize, data: &Vec<T>) {
    match fmt {
        0 => {
            ironbeam::helpers::jsonl::write_jsonl_vec(path, data).unwrap();
        }
        1 => {
            write_csv_vec(path, h, data).unwrap();
        }
        _ => {
            if rg == 0 {
                write_parquet_vec(path, data).unwrap();
            } else {
                write_parquet_any(path, data, rg).unwrap();
            }
        }
    }
}

fn whole_fmt<T: serde::de::DeserializeOwned>(fmt: usize, path: &Path, h: bool) -> anyhow::Result<Vec<T>> {
    match fmt {
        0 => read_jsonl_vec::<T>(path),
        1 => read_csv_vec::<T>(path, h),
        _ => read_parquet_vec::<T>(path),
    }
}

fn source_fmt<T: ironbeam::RFBound + serde::de::DeserializeOwned>(
    fmt: usize,
    pl: &Pipeline,
    path: &Path,
    h: bool,
    per: usize,
) -> anyhow::Result<PCollection<T>> {
    match fmt {
        0 => read_jsonl_streaming::<T>(pl, path, per),
        1 => read_csv_streaming::<T>(pl, path, h, per),
        _ => read_parquet_streaming::<T>(pl, path, per),
    }
}

/// policy index for the case families that do not carry one: 3 of 4 cases get a policy that never
/// fires on a source-only chain (every saved checkpoint is an fsync), the rest the eager ones
fn spread_pol(x: u64) -> u64 {
    [0, 5, 6, 0, 5, 6, 0, 5, 1, 3, 6, 0, 5, 6, 2, 4][(x % 16) as usize]
}

/// checkpoint settings of a case: directory inside the scratch dir, policy index, auto_recover
struct Ck {
    dir: PathBuf,
    pol: u64,
    rec: bool,
}
impl Ck {
    fn cfg(&self, enabled: bool) -> CheckpointConfig {
        let policy = match self.pol {
            0 => CheckpointPolicy::AfterEveryBarrier,
            1 => CheckpointPolicy::EveryNNodes(1),
            2 => CheckpointPolicy::EveryNNodes(2),
            3 => CheckpointPolicy::TimeInterval(0),
            4 => CheckpointPolicy::Hybrid { barriers: true, interval_secs: 0 },
            5 => CheckpointPolicy::EveryNNodes(0),
            _ => CheckpointPolicy::Hybrid { barriers: false, interval_secs: 3600 },
        };
        CheckpointConfig {
            enabled,
            directory: self.dir.clone(),
            policy,
            auto_recover: self.rec,
            max_checkpoints: if self.pol % 2 == 0 { Some(2) } else { None },
        }
    }
}

/// The execution configurations a collection can be run under (class S = a sequential engine,
/// P = a parallel engine):
///   0 S collect_seq                               1 P collect_par(Some t, Some p)
///   2 S Runner{Sequential, checkpoint enabled}    3 P Runner{Parallel{Some t, Some p}, checkpoint enabled}
///   4 S collect()                                 5 S Runner{Sequential, Some(disabled config)}
///   6 P Runner{Parallel{None, None}, default_partitions 1, checkpoint enabled}
///   7 P Runner{Parallel{None, Some p}, Some(disabled config)}
const N_ENGINES: usize = 8;
fn engine_run<T: ironbeam::RFBound>(
    e: usize,
    pl: &Pipeline,
    c: &PCollection<T>,
    t: usize,
    p: usize,
    ck: &Ck,
) -> anyhow::Result<Vec<T>> {
    let par = |threads, partitions| ExecMode::Parallel { threads, partitions };
    let runner = |mode, default_partitions, cfg| Runner { mode, default_partitions, checkpoint_config: cfg };
    match e {
        0 => c.clone().collect_seq(),
        1 => c.clone().collect_par(Some(t), Some(p)),
        2 => runner(ExecMode::Sequential, 4, Some(ck.cfg(true))).run_collect::<T>(pl, c.node_id()),
        3 => runner(par(Some(t), Some(p)), 4, Some(ck.cfg(true))).run_collect::<T>(pl, c.node_id()),
        4 => c.clone().collect(),
        5 => runner(ExecMode::Sequential, 4, Some(ck.cfg(false))).run_collect::<T>(pl, c.node_id()),
        6 => runner(par(None, None), 1, Some(ck.cfg(true))).run_collect::<T>(pl, c.node_id()),
        _ => runner(par(None, Some(p)), 4, Some(ck.cfg(false))).run_collect::<T>(pl, c.node_id()),
    }
}

/// outcome of a direct adapter call: ["ok", null] for None, ["ok", x] for Some, ["panic"]
fn opt_outcome<T>(f: impl FnOnce() -> Option<T>, show: impl FnOnce(T) -> Value) -> Value {
    match catch_unwind(AssertUnwindSafe(f)) {
        Ok(Some(v)) => json!(["ok", show(v)]),
        Ok(None) => json!(["ok", null]),
        Err(_) => json!(["panic"]),
    }
}

fn run(kind: &str, input: &Value) -> Value {
    if !valid(kind, input) {
        return json!(["invalid"]);
    }
    let sc = Scratch::new();
    match kind {
        "jl" => {
            let mut bytes = Vec::<u8>::new();
            for it in input[0].as_array().unwrap() {
                bytes.extend_from_slice(it[0].as_str().unwrap().as_bytes());
                match it[1].as_u64().unwrap() {
                    0 => bytes.push(b'\n'),
                    1 => bytes.extend_from_slice(b"\r\n"),
                    _ => {}
                }
            }
            let (per, t, p) = (us(&input[1]), us(&input[2]), us(&input[3]));
            let path = sc.p("in.jsonl");
            std::fs::write(&path, &bytes).unwrap();
            let show = |v: Vec<Small>| Value::Array(v.iter().map(|r| json!([r.id, r.s])).collect());
            let sh = build_jsonl_shards(&path, per).expect("build_jsonl_shards");
            let whole = path_outcome(|| read_jsonl_vec::<Small>(&path), show);
            let seq = path_outcome(
                || read_jsonl_streaming::<Small>(&Pipeline::default(), &path, per)?.collect_seq(),
                show,
            );
            let par = path_outcome(
                || read_jsonl_streaming::<Small>(&Pipeline::default(), &path, per)?.collect_par(Some(t), Some(p)),
                show,
            );
            // the checkpointing twins of the two engines (a junk line fails them like the plain ones)
            let ck = Ck { dir: sc.p("ck"), pol: spread_pol((per + 3 * p) as u64), rec: t % 2 == 0 };
            let with_ck = |e: usize| {
                path_outcome(
                    || {
                        let pl = Pipeline::default();
                        let src = read_jsonl_streaming::<Small>(&pl, &path, per)?;
                        engine_run(e, &pl, &src, t, p, &ck)
                    },
                    show,
                )
            };
            let (seqck, parck) = (with_ck(2), with_ck(3));
            ok(json!([sh.total_lines, ranges_json(&sh.ranges), whole, seq, par, seqck, parck]))
        }
        "js" => {
            let (n, pseed) = (input[0].as_u64().unwrap(), input[1].as_u64().unwrap());
            let (per, t, p, via) = (us(&input[2]), us(&input[3]), us(&input[4]), us(&input[5]));
            let data = recs(pseed, 0, n);
            let path = sc.p("d.jsonl");
            let count = if via == 1 {
                from_vec(&Pipeline::default(), data.clone()).write_jsonl(&path).unwrap()
            } else {
                ironbeam::helpers::jsonl::write_jsonl_vec(&path, &data).unwrap()
            };
            let mut pay = true;
            let sh = build_jsonl_shards(&path, per).unwrap();
            let whole = read_jsonl_vec::<Rec>(&path).unwrap();
            let seq = read_jsonl_streaming::<Rec>(&Pipeline::default(), &path, per).unwrap().collect_seq().unwrap();
            let par = read_jsonl_streaming::<Rec>(&Pipeline::default(), &path, per)
                .unwrap()
                .collect_par(Some(t), Some(p))
                .unwrap();
            let (w, s, q) = (ids_of(&whole, pseed, &mut pay), ids_of(&seq, pseed, &mut pay), ids_of(&par, pseed, &mut pay));
            ok(json!([count, sh.total_lines, ranges_json(&sh.ranges), w, s, q, pay]))
        }
        "jw" => {
            let (n, pseed) = (input[0].as_u64().unwrap(), input[1].as_u64().unwrap());
            let (shards, via) = (opt_usize(&input[2]), us(&input[3]));
            let data = recs(pseed, 0, n);
            let (pa, pb) = (sc.p("seq.jsonl"), sc.p("par.jsonl"));
            ironbeam::helpers::jsonl::write_jsonl_vec(&pa, &data).unwrap();
            let count = if via == 1 {
                from_vec(&Pipeline::default(), data.clone()).write_jsonl_par(&pb, shards).unwrap()
            } else {
                write_jsonl_par(&pb, &data, shards).unwrap()
            };
            let (ba, bb) = (std::fs::read(&pa).unwrap(), std::fs::read(&pb).unwrap());
            let leftover = std::fs::read_dir(&sc.0).unwrap().count() as u64 - 2;
            let mut pay = true;
            let ra = read_jsonl_vec::<Rec>(&pa).unwrap();
            let rb = read_jsonl_vec::<Rec>(&pb).unwrap();
            let (ia, ib) = (ids_of(&ra, pseed, &mut pay), ids_of(&rb, pseed, &mut pay));
            ok(json!([ncpu2(), count, ba == bb, ba.len(), bb.len(), checksum(&ba), checksum(&bb), leftover, ia, ib, pay]))
        }
        "cs" => {
            let (n, pseed, h) = (input[0].as_u64().unwrap(), input[1].as_u64().unwrap(), input[2].as_bool().unwrap());
            let (per, t, p, via) = (us(&input[3]), us(&input[4]), us(&input[5]), us(&input[6]));
            let data = recs(pseed, 0, n);
            let path = sc.p("d.csv");
            let count = if via == 1 {
                from_vec(&Pipeline::default(), data.clone()).write_csv(&path, h).unwrap()
            } else {
                write_csv_vec(&path, h, &data).unwrap()
            };
            let mut pay = true;
            let sh = build_csv_shards(&path, h, per).unwrap();
            let whole = read_csv_vec::<Rec>(&path, h).unwrap();
            let seq = read_csv_streaming::<Rec>(&Pipeline::default(), &path, h, per).unwrap().collect_seq().unwrap();
            let par = read_csv_streaming::<Rec>(&Pipeline::default(), &path, h, per)
                .unwrap()
                .collect_par(Some(t), Some(p))
                .unwrap();
            let (w, s, q) = (ids_of(&whole, pseed, &mut pay), ids_of(&seq, pseed, &mut pay), ids_of(&par, pseed, &mut pay));
            ok(json!([count, sh.total_rows, ranges_json(&sh.ranges), w, s, q, pay]))
        }
        "cw" => {
            let (n, pseed, h) = (input[0].as_u64().unwrap(), input[1].as_u64().unwrap(), input[2].as_bool().unwrap());
            let (shards, via) = (opt_usize(&input[3]), us(&input[4]));
            let data = recs(pseed, 0, n);
            let (pa, pb) = (sc.p("seq.csv"), sc.p("par.csv"));
            write_csv_vec(&pa, h, &data).unwrap();
            let count = if via == 1 {
                from_vec(&Pipeline::default(), data.clone()).write_csv_par(&pb, shards, h).unwrap()
            } else {
                write_csv_par(&pb, &data, shards, h).unwrap()
            };
            let (ba, bb) = (std::fs::read(&pa).unwrap(), std::fs::read(&pb).unwrap());
            let leftover = std::fs::read_dir(&sc.0).unwrap().count() as u64 - 2;
            let mut pay = true;
            let ra = read_csv_vec::<Rec>(&pa, h).unwrap();
            let rb = read_csv_vec::<Rec>(&pb, h).unwrap();
            let (ia, ib) = (ids_of(&ra, pseed, &mut pay), ids_of(&rb, pseed, &mut pay));
            ok(json!([ncpu2(), count, ba == bb, ba.len(), bb.len(), checksum(&ba), checksum(&bb), leftover, ia, ib, pay]))
        }
        "ps" => {
            let (n, pseed, rg) = (input[0].as_u64().unwrap(), input[1].as_u64().unwrap(), us(&input[2]));
            let (per, t, p) = (us(&input[3]), us(&input[4]), us(&input[5]));
            let data = recs(pseed, 0, n);
            let path = sc.p("d.parquet");
            if rg == 0 {
                write_parquet_vec(&path, &data).unwrap();
            } else {
                write_parquet_any(&path, &data, rg).unwrap();
            }
            let mut pay = true;
            let sh = build_parquet_shards(&path, per).unwrap();
            let gr: Vec<(u64, u64)> = sh.group_ranges.iter().map(|(a, b)| (*a as u64, *b as u64)).collect();
            let whole = read_parquet_vec::<Rec>(&path).unwrap();
            let seq = read_parquet_streaming::<Rec>(&Pipeline::default(), &path, per).unwrap().collect_seq().unwrap();
            let par = read_parquet_streaming::<Rec>(&Pipeline::default(), &path, per)
                .unwrap()
                .collect_par(Some(t), Some(p))
                .unwrap();
            let (w, s, q) = (ids_of(&whole, pseed, &mut pay), ids_of(&seq, pseed, &mut pay), ids_of(&par, pseed, &mut pay));
            ok(json!([sh.total_rows, ranges_json(&gr), w, s, q, pay]))
        }
        "gl" => {
            let (fmt, h, pat) = (us(&input[0]), input[1].as_bool().unwrap(), us(&input[2]));
            let pseed = input[4].as_u64().unwrap();
            let ext = ["jsonl", "csv", "parquet"][fmt];
            let base = sc.p("g");
            std::fs::create_dir_all(&base).unwrap();
            let mut next_id = 0u64;
            for f in input[3].as_array().unwrap() {
                let mut path = base.clone();
                for c in f[0].as_array().unwrap() {
                    path.push(c.as_str().unwrap());
                }
                let cnt = f[1].as_i64().unwrap();
                if cnt < 0 {
                    std::fs::create_dir_all(&path).unwrap();
                    continue;
                }
                std::fs::create_dir_all(path.parent().unwrap()).unwrap();
                let data = recs(pseed, next_id, cnt as u64);
                next_id += cnt as u64;
                let is_ext = path.extension().is_some_and(|e| e == ext);
                if !is_ext {
                    // a file the pattern must not pick up
                    std::fs::write(&path, b"not a data file\n").unwrap();
                    continue;
                }
                match fmt {
                    0 => {
                        ironbeam::helpers::jsonl::write_jsonl_vec(&path, &data).unwrap();
                    }
                    1 => {
                        write_csv_vec(&path, h, &data).unwrap();
                    }
                    _ => {
                        write_parquet_vec(&path, &data).unwrap();
                    }
                }
            }
            let pattern = format!("{}/{}", base.display(), [format!("*.{ext}"), format!("*/*.{ext}"), format!("**/*.{ext}")][pat]);
            let pl = Pipeline::default();
            let mut pay = true;
            let ck = Ck { dir: sc.p("ck"), pol: spread_pol(pseed), rec: pat == 1 };
            // the glob readers load eagerly: the collection is an in-memory source; besides collect_seq
            // it is run by the three other engines (par, seq+checkpoint, par+checkpoint)
            let r = catch_unwind(AssertUnwindSafe(|| -> anyhow::Result<(Vec<Rec>, Vec<anyhow::Result<Vec<Rec>>>)> {
                let src = match fmt {
                    0 => read_jsonl::<Rec>(&pl, &pattern)?,
                    1 => read_csv::<Rec>(&pl, &pattern, h)?,
                    _ => read_parquet_streaming::<Rec>(&pl, &pattern, 1)?,
                };
                let v = src.clone().collect_seq()?;
                Ok((v, (1..4).map(|e| engine_run(e, &pl, &src, 2, 3, &ck)).collect()))
            }));
            match r {
                Ok(Ok((v, others))) => {
                    let ids = ids_of(&v, pseed, &mut pay);
                    let others: Vec<Value> = others
                        .into_iter()
                        .map(|o| match o {
                            Ok(w) => json!(["ok", ids_of(&w, pseed, &mut pay)]),
                            Err(_) => json!(["err"]),
                        })
                        .collect();
                    ok(json!([ids, pay, others]))
                }
                Ok(Err(_)) => json!(["err", "read"]),
                Err(_) => json!(["panic"]),
            }
        }
        "jf" | "jb" => {
            let f = if kind == "jf" {
                input[0].as_i64().unwrap() as f64
            } else {
                f64::from_bits((input[0].as_u64().unwrap() << 32) | (input[1].as_u64().unwrap() & 0xFFFF_FFFF))
            };
            if !f.is_finite() {
                return json!(["invalid"]);
            }
            let data = vec![Rec { id: 0, s: String::new(), i: 0, u: 0, f, t: String::new() }];
            let (pj, pc, pp) = (sc.p("f.jsonl"), sc.p("f.csv"), sc.p("f.parquet"));
            ironbeam::helpers::jsonl::write_jsonl_vec(&pj, &data).unwrap();
            write_csv_vec(&pc, true, &data).unwrap();
            write_parquet_vec(&pp, &data).unwrap();
            let exact = |v: Vec<Rec>| v.len() == 1 && v[0].f.to_bits() == f.to_bits();
            ok(json!([
                exact(read_jsonl_vec::<Rec>(&pj).unwrap()),
                exact(read_csv_vec::<Rec>(&pc, true).unwrap()),
                exact(read_parquet_vec::<Rec>(&pp).unwrap())
            ]))
        }
        "jz" | "cz" => {
            let csv = kind == "cz";
            let (n, pseed) = (input[0].as_u64().unwrap(), input[1].as_u64().unwrap());
            let ext = input[2].as_str().unwrap();
            if ext.is_empty() || !ext.bytes().all(|b| b.is_ascii_alphanumeric() || b == b'.') {
                return json!(["invalid"]);
            }
            let o = usize::from(csv);
            let h = csv && input[3].as_bool().unwrap();
            let (shards, via) = (opt_usize(&input[3 + o]), us(&input[4 + o]));
            let (per, t, p) = (us(&input[5 + o]), us(&input[6 + o]), us(&input[7 + o]));
            let data = recs(pseed, 0, n);
            let stem = if csv { "csv" } else { "jsonl" };
            let (pa, pb) = (sc.p(&format!("seq.{stem}.{ext}")), sc.p(&format!("par.{stem}.{ext}")));
            let (ca, cb) = if csv {
                let ca = write_csv_vec(&pa, h, &data).unwrap();
                let cb = if via == 1 {
                    from_vec(&Pipeline::default(), data.clone()).write_csv_par(&pb, shards, h).unwrap()
                } else {
                    write_csv_par(&pb, &data, shards, h).unwrap()
                };
                (ca, cb)
            } else {
                let ca = ironbeam::helpers::jsonl::write_jsonl_vec(&pa, &data).unwrap();
                let cb = if via == 1 {
                    from_vec(&Pipeline::default(), data.clone()).write_jsonl_par(&pb, shards).unwrap()
                } else {
                    write_jsonl_par(&pb, &data, shards).unwrap()
                };
                (ca, cb)
            };
            let leftover = std::fs::read_dir(&sc.0).unwrap().count() as u64 - 2;
            let pay = std::cell::Cell::new(true);
            let show = |v: Vec<Rec>| {
                let mut ok = true;
                let ids = ids_of(&v, pseed, &mut ok);
                if !ok {
                    pay.set(false);
                }
                ids
            };
            let mut outs = Vec::new();
            for path in [&pa, &pb] {
                let pl = Pipeline::default();
                if csv {
                    outs.push(path_outcome(|| read_csv_vec::<Rec>(path, h), &show));
                    outs.push(path_outcome(|| read_csv_streaming::<Rec>(&pl, path, h, per)?.collect_seq(), &show));
                    outs.push(path_outcome(|| read_csv_streaming::<Rec>(&pl, path, h, per)?.collect_par(Some(t), Some(p)), &show));
                } else {
                    outs.push(path_outcome(|| read_jsonl_vec::<Rec>(path), &show));
                    outs.push(path_outcome(|| read_jsonl_streaming::<Rec>(&pl, path, per)?.collect_seq(), &show));
                    outs.push(path_outcome(|| read_jsonl_streaming::<Rec>(&pl, path, per)?.collect_par(Some(t), Some(p)), &show));
                }
            }
            // the parallel-written file also under the two checkpointing engines
            let ck = Ck { dir: sc.p("ck"), pol: spread_pol(pseed), rec: via == 1 };
            for e in [2, 3] {
                outs.push(path_outcome(
                    || {
                        let pl = Pipeline::default();
                        let src = source_fmt::<Rec>(usize::from(csv), &pl, &pb, h, per)?;
                        engine_run(e, &pl, &src, t, p, &ck)
                    },
                    &show,
                ));
            }
            // the checkpoint directory is not a leftover part file
            let _ = std::fs::remove_dir_all(sc.p("ck"));
            ok(json!([ca, cb, outs, pay.get(), leftover]))
        }
        "ow" => {
            let (fmt, ext, h) = (us(&input[0]), input[1].as_str().unwrap(), input[2].as_bool().unwrap());
            let (w1, w2) = (us(&input[3]), us(&input[4]));
            let (n1, n2, pseed) = (input[5].as_u64().unwrap(), input[6].as_u64().unwrap(), input[7].as_u64().unwrap());
            let shards = opt_usize(&input[8]);
            let stem = ["jsonl", "csv", "parquet"][fmt];
            let path = if ext.is_empty() { sc.p(&format!("out.{stem}")) } else { sc.p(&format!("out.{stem}.{ext}")) };
            let write = |w: usize, data: Vec<Rec>| -> usize {
                let pc = || from_vec(&Pipeline::default(), data.clone());
                match (fmt, w) {
                    (0, 0) => ironbeam::helpers::jsonl::write_jsonl_vec(&path, &data).unwrap(),
                    (0, 1) => pc().write_jsonl(&path).unwrap(),
                    (0, 2) => write_jsonl_par(&path, &data, shards).unwrap(),
                    (0, _) => pc().write_jsonl_par(&path, shards).unwrap(),
                    (1, 0) => write_csv_vec(&path, h, &data).unwrap(),
                    (1, 1) => pc().write_csv(&path, h).unwrap(),
                    (1, 2) => write_csv_par(&path, &data, shards, h).unwrap(),
                    (1, _) => pc().write_csv_par(&path, shards, h).unwrap(),
                    (_, 0) => write_parquet_vec(&path, &data).unwrap(),
                    (_, _) => pc().write_parquet(&path).unwrap(),
                }
            };
            let c1 = write(w1, recs(pseed, 1000, n1));
            let c2 = write(w2, recs(pseed, 0, n2));
            let leftover = std::fs::read_dir(&sc.0).unwrap().count() as u64 - 1;
            let pay = std::cell::Cell::new(true);
            let show = |v: Vec<Rec>| {
                let mut ok = true;
                let ids = ids_of(&v, pseed, &mut ok);
                if !ok {
                    pay.set(false);
                }
                ids
            };
            let pl = Pipeline::default();
            let outs = match fmt {
                0 => vec![
                    path_outcome(|| read_jsonl_vec::<Rec>(&path), &show),
                    path_outcome(|| read_jsonl_streaming::<Rec>(&pl, &path, 2)?.collect_seq(), &show),
                    path_outcome(|| read_jsonl_streaming::<Rec>(&pl, &path, 2)?.collect_par(Some(2), Some(3)), &show),
                ],
                1 => vec![
                    path_outcome(|| read_csv_vec::<Rec>(&path, h), &show),
                    path_outcome(|| read_csv_streaming::<Rec>(&pl, &path, h, 2)?.collect_seq(), &show),
                    path_outcome(|| read_csv_streaming::<Rec>(&pl, &path, h, 2)?.collect_par(Some(2), Some(3)), &show),
                ],
                _ => vec![
                    path_outcome(|| read_parquet_vec::<Rec>(&path), &show),
                    path_outcome(|| read_parquet_streaming::<Rec>(&pl, &path, 1)?.collect_seq(), &show),
                    path_outcome(|| read_parquet_streaming::<Rec>(&pl, &path, 1)?.collect_par(Some(2), Some(3)), &show),
                ],
            };
            ok(json!([c1, c2, outs, pay.get(), leftover]))
        }
        "big" => {
            let (fmt, n, rg) = (us(&input[0]), input[1].as_u64().unwrap(), us(&input[2]));
            let (per, t, p) = (us(&input[3]), us(&input[4]), us(&input[5]));
            let data: Vec<Tiny> = (0..n).map(|id| Tiny { id }).collect();
            let pl = Pipeline::default();
            let path = sc.p(["big.jsonl", "big.csv", "big.parquet"][fmt]);
            write_fmt(fmt, &path, true, rg, &data);
            let (total, ranges) = match fmt {
                0 => {
                    let sh = build_jsonl_shards(&path, per).unwrap();
                    (sh.total_lines, ranges_json(&sh.ranges))
                }
                1 => {
                    let sh = build_csv_shards(&path, true, per).unwrap();
                    (sh.total_rows, ranges_json(&sh.ranges))
                }
                _ => {
                    let sh = build_parquet_shards(&path, per).unwrap();
                    let gr: Vec<(u64, u64)> = sh.group_ranges.iter().map(|(a, b)| (*a as u64, *b as u64)).collect();
                    (sh.total_rows, ranges_json(&gr))
                }
            };
            let ck = Ck { dir: sc.p("ck"), pol: spread_pol(n + per as u64), rec: per % 2 == 0 };
            let whole = path_outcome(|| whole_fmt::<Tiny>(fmt, &path, true), summary);
            // ONE source handle, the four engines one after the other
            let src = source_fmt::<Tiny>(fmt, &pl, &path, true, per).unwrap();
            let outs: Vec<Value> = (0..4).map(|e| path_outcome(|| engine_run(e, &pl, &src, t, p, &ck), summary)).collect();
            ok(json!([total, ranges, whole, outs[0], outs[1], outs[2], outs[3]]))
        }
        "gen" => {
            let (fmt, h, n, rg) = (us(&input[0]), input[1].as_bool().unwrap(), input[2].as_u64().unwrap(), us(&input[3]));
            let (per, order, t, p) = (us(&input[4]), us(&input[5]), us(&input[6]), us(&input[7]));
            let seeds = [input[8].as_u64().unwrap(), input[9].as_u64().unwrap()];
            let path = sc.p(["g.jsonl", "g.csv", "g.parquet"][fmt]);
            let write = |g: usize| {
                let data = recs(seeds[g], 1000 * g as u64, n);
                match fmt {
                    0 => {
                        ironbeam::helpers::jsonl::write_jsonl_vec(&path, &data).unwrap();
                    }
                    1 => {
                        write_csv_vec(&path, h, &data).unwrap();
                    }
                    _ => {
                        if rg == 0 {
                            write_parquet_vec(&path, &data).unwrap();
                        } else {
                            write_parquet_any(&path, &data, rg).unwrap();
                        }
                    }
                }
            };
            write(0);
            let pl = Pipeline::default();
            // the source is built ONCE
            let src = match fmt {
                0 => read_jsonl_streaming::<Rec>(&pl, &path, per).unwrap(),
                1 => read_csv_streaming::<Rec>(&pl, &path, h, per).unwrap(),
                _ => read_parquet_streaming::<Rec>(&pl, &path, per).unwrap(),
            };
            let mut gens = Vec::new();
            for g in 0..2 {
                if g == 1 {
                    write(1);
                }
                let pay = std::cell::Cell::new(true);
                let show = |v: Vec<Rec>| {
                    let mut ok = true;
                    let ids = ids_of(&v, seeds[g], &mut ok);
                    if !ok {
                        pay.set(false);
                    }
                    ids
                };
                let whole = path_outcome(
                    || match fmt {
                        0 => read_jsonl_vec::<Rec>(&path),
                        1 => read_csv_vec::<Rec>(&path, h),
                        _ => read_parquet_vec::<Rec>(&path),
                    },
                    &show,
                );
                let par = |s: &ironbeam::PCollection<Rec>| path_outcome(|| s.clone().collect_par(Some(t), Some(p)), &show);
                let seq = |s: &ironbeam::PCollection<Rec>| path_outcome(|| s.clone().collect_seq(), &show);
                let (o_par, o_seq) = if order == 0 {
                    let a = par(&src);
                    (a, seq(&src))
                } else {
                    let b = seq(&src);
                    (par(&src), b)
                };
                gens.push(json!([whole, o_par, o_seq, pay.get()]));
            }
            ok(Value::Array(gens))
        }
        "rx" => {
            let (fmt, h, n, rg) = (us(&input[0]), input[1].as_bool().unwrap(), input[2].as_u64().unwrap(), us(&input[3]));
            let (per, pseed, t, p) = (us(&input[4]), input[5].as_u64().unwrap(), us(&input[6]), us(&input[7]));
            let ck = Ck { dir: sc.p("ck"), pol: input[8].as_u64().unwrap(), rec: input[9].as_bool().unwrap() };
            let path = sc.p(FILE_NAMES[fmt]);
            write_fmt(fmt, &path, h, rg, &recs(pseed, 0, n));
            let pay = std::cell::Cell::new(true);
            let show = |v: Vec<Rec>| {
                let mut ok = true;
                let ids = ids_of(&v, pseed, &mut ok);
                if !ok {
                    pay.set(false);
                }
                ids
            };
            let pl = Pipeline::default();
            let whole = path_outcome(|| whole_fmt::<Rec>(fmt, &path, h), &show);
            // ONE source handle for everything below
            let src = source_fmt::<Rec>(fmt, &pl, &path, h, per).unwrap();
            let mut outs = Vec::new();
            for e in 0..N_ENGINES {
                outs.push(path_outcome(|| engine_run(e, &pl, &src, t, p, &ck), &show));
            }
            // a longer chain (so that node-count policies fire): the source followed by an identity filter
            let filt = src.clone().filter(|_r: &Rec| true);
            for e in [2, 3] {
                outs.push(path_outcome(|| engine_run(e, &pl, &filt, t, p, &ck), &show));
            }
            // the source as a join side: key k occurs k % 3 times on the in-memory side
            let other: Vec<(u64, u64)> =
                (0..n + 2).flat_map(|k| std::iter::repeat_n((k, 7 * k + 1), (k % 3) as usize)).collect();
            let oc = from_vec(&pl, other);
            let keyed = src.clone().key_by(|r: &Rec| r.id);
            let jl = keyed.join_inner(&oc);
            let jr = oc.join_inner(&keyed);
            let show_l = |mut v: Vec<(u64, (Rec, u64))>| {
                v.sort_by_key(|x| x.0);
                if !v.iter().all(|(k, (r, w))| *k == r.id && *w == 7 * k + 1 && same(r, &mk_rec(pseed, r.id))) {
                    pay.set(false);
                }
                Value::Array(v.iter().map(|x| json!(x.0)).collect())
            };
            let show_r = |mut v: Vec<(u64, (u64, Rec))>| {
                v.sort_by_key(|x| x.0);
                if !v.iter().all(|(k, (w, r))| *k == r.id && *w == 7 * k + 1 && same(r, &mk_rec(pseed, r.id))) {
                    pay.set(false);
                }
                Value::Array(v.iter().map(|x| json!(x.0)).collect())
            };
            for e in 0..4 {
                outs.push(path_outcome(|| engine_run(e, &pl, &jl, t, p, &ck), &show_l));
            }
            for e in 0..4 {
                outs.push(path_outcome(|| engine_run(e, &pl, &jr, t, p, &ck), &show_r));
            }
            ok(json!([whole, outs, pay.get()]))
        }
        "vo" => {
            let (fmt, h, na, nb, rg) =
                (us(&input[0]), input[1].as_bool().unwrap(), input[2].as_u64().unwrap(), input[3].as_u64().unwrap(), us(&input[4]));
            let tot = input[5].as_u64().unwrap();
            let ranges: Vec<(u64, u64)> =
                input[6].as_array().unwrap().iter().map(|r| (r[0].as_u64().unwrap(), r[1].as_u64().unwrap())).collect();
            let pseed = input[7].as_u64().unwrap();
            let ext = ["jsonl", "csv", "parquet"][fmt];
            let (pa, pb) = (sc.p(&format!("a.{ext}")), sc.p(&format!("b.{ext}")));
            write_fmt(fmt, &pa, h, rg, &recs(pseed, 0, na));
            write_fmt(fmt, &pb, h, rg, &recs(pseed, 1000, nb));
            // hand-built shard structs (all fields are public)
            let payload = |f: usize, path: &Path| -> Box<dyn std::any::Any> {
                match f {
                    0 => Box::new(JsonlShards { path: path.to_path_buf(), ranges: ranges.clone(), total_lines: tot }),
                    1 => Box::new(CsvShards { path: path.to_path_buf(), ranges: ranges.clone(), total_rows: tot, has_headers: h }),
                    _ => Box::new(ParquetShards {
                        path: path.to_path_buf(),
                        group_ranges: ranges.iter().map(|(a, b)| (*a as usize, *b as usize)).collect(),
                        total_rows: tot,
                    }),
                }
            };
            // ONE adapter instance for every call
            let ops: std::sync::Arc<dyn VecOps> = match fmt {
                0 => JsonlVecOps::<Rec>::new(),
                1 => CsvVecOps::<Rec>::new(),
                _ => ParquetVecOps::<Rec>::new(),
            };
            let pay = std::cell::Cell::new(true);
            let part_ids = |part: Partition| -> Value {
                match part.downcast::<Vec<Rec>>() {
                    Ok(v) => {
                        let mut ok = true;
                        let ids = ids_of(&v, pseed, &mut ok);
                        if !ok {
                            pay.set(false);
                        }
                        ids
                    }
                    Err(_) => json!("wrong-type"),
                }
            };
            let mut rounds = Vec::new();
            for (i, path) in [&pa, &pb, &pa].into_iter().enumerate() {
                let pl = payload(fmt, path);
                let len = opt_outcome(|| ops.len(pl.as_ref()), |l| json!(l));
                let split = opt_outcome(
                    || ops.split(pl.as_ref(), [1usize, 3, 0][i]),
                    |parts| Value::Array(parts.into_iter().map(&part_ids).collect()),
                );
                let clone = opt_outcome(|| ops.clone_any(pl.as_ref()), &part_ids);
                rounds.push(json!([len, split, clone]));
            }
            // payloads of a foreign type: every method answers None
            let foreign: Vec<Box<dyn std::any::Any>> =
                vec![Box::new(vec![0u8]), payload((fmt + 1) % 3, &pa), payload((fmt + 2) % 3, &pa), Box::new(recs(pseed, 0, na))];
            let mut all_none = true;
            for f in &foreign {
                all_none &= ops.len(f.as_ref()).is_none() && ops.split(f.as_ref(), 2).is_none() && ops.clone_any(f.as_ref()).is_none();
            }
            ok(json!([rounds, all_none, pay.get()]))
        }
        "g2" => {
            let (fmt, h) = (us(&input[0]), input[1].as_bool().unwrap());
            let ns = [input[2].as_u64().unwrap(), input[3].as_u64().unwrap()];
            let rgs = [us(&input[4]), us(&input[5])];
            let (per, order, t, p) = (us(&input[6]), us(&input[7]), us(&input[8]), us(&input[9]));
            let seeds = [input[10].as_u64().unwrap(), input[11].as_u64().unwrap()];
            let path = sc.p(FILE_NAMES[fmt]);
            let ck = Ck { dir: sc.p("ck"), pol: spread_pol((order + 4 * per) as u64 + ns[1]), rec: per % 2 == 1 };
            write_fmt(fmt, &path, h, rgs[0], &recs(seeds[0], 0, ns[0]));
            let pl = Pipeline::default();
            // the source is built ONCE, over generation 0
            let src = source_fmt::<Rec>(fmt, &pl, &path, h, per).unwrap();
            let mut gens = Vec::new();
            for g in 0..2 {
                if g == 1 {
                    write_fmt(fmt, &path, h, rgs[1], &recs(seeds[1], 1000, ns[1]));
                }
                let pay = std::cell::Cell::new(true);
                let show = |v: Vec<Rec>| {
                    let mut ok = true;
                    let ids = ids_of(&v, seeds[g], &mut ok);
                    if !ok {
                        pay.set(false);
                    }
                    ids
                };
                let whole = path_outcome(|| whole_fmt::<Rec>(fmt, &path, h), &show);
                // engines 0..4 (seq, par, seq+checkpoint, par+checkpoint), run in the rotation `order`
                let mut outs = vec![Value::Null; 4];
                for k in 0..4 {
                    let e = (k + order) % 4;
                    outs[e] = path_outcome(|| engine_run(e, &pl, &src, t, p, &ck), &show);
                }
                gens.push(json!([whole, outs, pay.get()]));
            }
            ok(Value::Array(gens))
        }
        _ => json!(["bad-kind"]),
    }
}

// ------------------------------------------------------------------ generator

const HUGE: u64 = 1 << 61;

/// shard sizes / counts worth trying for n items
fn sizes(n: u64) -> Vec<u64> {
    let mut v = vec![0, 1, 2, 3, 4, 5, 7, n.saturating_sub(2), n.saturating_sub(1), n, n + 1, n + 2, 2 * n + 1, 1000, 1_000_000, HUGE];
    v.sort_unstable();
    v.dedup();
    v
}

const ALNUM: &[u8] = b"abcXYZ019";
const WS: &[&str] = &["", " ", "\t", "  \t ", "\r", "\u{a0}", "\u{3000} ", "\u{c}", "\u{b}\u{85}", "\u{2003}\u{2028}"];
const JUNK: &[&str] = &["{oops", "[1]", "nul", "{\"id\":}", "{\"id\":1}", "x", "{\"id\":1,\"s\":\"a\"}}", "\u{a0}{\"id\":1,\"s\":\"a\"}", "\u{c}{\"id\":2,\"s\":\"b\"}", "{\"id\":-1,\"s\":\"a\"}"];

fn small_line(rng: &mut SplitMix64, id: u64) -> String {
    let k = rng.below(4);
    let s: String = (0..k).map(|_| *rng.pick(ALNUM) as char).collect();
    let pre = *rng.pick(&["", "", "", " ", "\t "]);
    let post = *rng.pick(&["", "", "", " ", " \t"]);
    format!("{pre}{{\"id\":{id},\"s\":\"{s}\"}}{post}")
}

/// a JSONL layout: records with blank lines (and, rarely, junk) sprinkled in
fn layout(rng: &mut SplitMix64, nrec: u64, blanks: u64, junk: bool, crlf: u64, final_nl: bool) -> Value {
    let mut items: Vec<(String, u64)> = Vec::new();
    let total = nrec + blanks;
    let mut left_r = nrec;
    let mut left_b = blanks;
    let mut id = 0;
    for _ in 0..total {
        let take_rec = left_b == 0 || (left_r > 0 && rng.below(left_r + left_b) < left_r);
        let eol = if rng.below(100) < crlf { 1 } else { 0 };
        if take_rec {
            items.push((small_line(rng, id), eol));
            id += 1;
            left_r -= 1;
        } else {
            items.push(((*rng.pick(WS)).to_string(), eol));
            left_b -= 1;
        }
    }
    if junk && !items.is_empty() {
        let k = rng.below(items.len() as u64) as usize;
        items[k].0 = (*rng.pick(JUNK)).to_string();
    }
    if !final_nl && let Some(l) = items.last_mut() {
        l.1 = 2;
    }
    Value::Array(items.into_iter().map(|(t, e)| json!([t, e])).collect())
}

fn count_lines(items: &Value) -> u64 {
    items.as_array().unwrap().len() as u64
}

fn generate(seed: u64, tier: Tier, em: &mut Emitter) {
    let thorough = tier == Tier::Thorough;
    let mut rng = SplitMix64::new(seed ^ 0xC09);
    let tp = |rng: &mut SplitMix64, n: u64| -> (u64, u64) {
        (*rng.pick(&[1, 2, 4]), *rng.pick(&[1, 2, 3, n.max(1), n + 1, 64]))
    };

    // 1. parallel JSONL writer: every (n, shards) with n <= nmax, shards in sizes(n) + None
    let nmax = if thorough { 40 } else { 18 };
    for n in 0..=nmax {
        let mut shs: Vec<Value> = sizes(n).into_iter().map(|s| json!(s)).collect();
        shs.push(Value::Null);
        if thorough {
            shs.extend((6..n).map(|s| json!(s)));
        }
        for sh in shs {
            let via = rng.below(2);
            let nt = n >= 2 && sh.as_u64().is_none_or(|s| s >= 2);
            em.case("jw", json!([n, rng.below(1 << 20), sh, via]), nt, &["sweep", "jsonl-par-write"]);
        }
    }
    // all (n, shards) pairs up to 33 x 33 through the free function (the defect region of the old code)
    let full = if thorough { 48 } else { 33 };
    for n in 1..=full {
        for sh in 1..=full {
            let chunk = (n + sh.min(n) - 1) / sh.min(n);
            // keep the pairs where some shard starts at or beyond n (old code: start > end) and a thin sample of the rest
            let interesting = (sh.min(n) - 1) * chunk >= n;
            if interesting || rng.chance(1, 12) {
                em.case("jw", json!([n, rng.below(1 << 20), sh, 0]), n >= 2 && sh >= 2, &["grid", "jsonl-par-write"]);
            }
        }
    }
    for (n, sh) in [(100u64, json!(16)), (100, Value::Null), (257, json!(16)), (1000, json!(8)), (1000, json!(999)), (64, json!(63)), (50, json!(4))] {
        em.case("jw", json!([n, rng.below(1 << 20), sh, 0]), true, &["large", "jsonl-par-write"]);
    }

    // 2. parallel CSV writer
    let cmax = if thorough { 40 } else { 14 };
    for n in 0..=cmax {
        let mut shs: Vec<Value> = sizes(n).into_iter().map(|s| json!(s)).collect();
        shs.push(Value::Null);
        for sh in shs {
            for h in [false, true] {
                // the PCollection method passes `shards` on as a THREAD count: keep it small there
                let via = if sh.as_u64().is_some_and(|s| s <= 8) { rng.below(2) } else { 0 };
                let nt = n >= 2 && sh.as_u64().is_none_or(|s| s >= 2);
                em.case("cw", json!([n, rng.below(1 << 20), h, sh, via]), nt, &["sweep", "csv-par-write"]);
            }
        }
    }
    for (n, sh) in [(100u64, json!(16)), (100, Value::Null), (65, json!(32)), (33, json!(32)), (1000, json!(7))] {
        em.case("cw", json!([n, rng.below(1 << 20), true, sh, 0]), true, &["large", "csv-par-write"]);
    }

    // 3. streamed reads of written files: JSONL, CSV (header on/off), Parquet
    let smax = if thorough { 30 } else { 12 };
    for n in 0..=smax {
        for per in sizes(n) {
            let (t, p) = tp(&mut rng, n);
            let nt = n >= 2 && per >= 1 && per < n;
            em.case("js", json!([n, rng.below(1 << 20), per, t, p, rng.below(2)]), nt, &["sweep", "jsonl-stream"]);
            let (t, p) = tp(&mut rng, n);
            let h = rng.chance(1, 2);
            em.case("cs", json!([n, rng.below(1 << 20), h, per, t, p, rng.below(2)]), nt, &["sweep", "csv-stream"]);
            em.case("cs", json!([n, rng.below(1 << 20), !h, per, t, p, 0]), nt, &["sweep", "csv-stream"]);
        }
    }
    // parquet: row groups of size rg => ceil(n / rg) groups; per = groups per shard
    let pmax = if thorough { 24 } else { 10 };
    for n in 0..=pmax {
        for rg in [0u64, 1, 2, 3, 5] {
            if rg > n + 1 {
                continue;
            }
            let ng = if n == 0 { 0 } else if rg == 0 { 1 } else { n.div_ceil(rg) };
            for per in sizes(ng) {
                if per > ng + 2 && per != HUGE && per != 1000 {
                    continue;
                }
                let (t, p) = tp(&mut rng, n);
                let nt = ng >= 2 && per >= 1 && per < ng;
                em.case("ps", json!([n, rng.below(1 << 20), rg, per, t, p]), nt, &["sweep", "parquet-stream"]);
            }
        }
    }

    // 4. JSONL layouts with blank / whitespace-only lines, CRLF, missing final newline, junk
    let nl = if thorough { 6000 } else { 700 };
    for k in 0..nl {
        let nrec = rng.below(9);
        let blanks = if k % 5 == 0 { 0 } else { rng.below(6) };
        let junk = rng.chance(1, 8);
        let crlf = *rng.pick(&[0, 0, 30, 100]);
        let final_nl = rng.chance(2, 3);
        let items = layout(&mut rng, nrec, blanks, junk, crlf, final_nl);
        let total = count_lines(&items);
        let per = *rng.pick(&sizes(total));
        let (t, p) = tp(&mut rng, total);
        let nt = total >= 2 && per >= 1 && per < total && blanks > 0;
        em.case("jl", json!([items, per, t, p]), nt, &["random", "jsonl-layout"]);
    }
    // exhaustive small layouts: every arrangement of R(ecord)/B(lank) of length <= 5 x every per 0..=6
    let lmax = if thorough { 6 } else { 5 };
    for len in 0..=lmax {
        for mask in 0u64..(1 << len) {
            let mut id = 0;
            let items: Vec<Value> = (0..len)
                .map(|i| {
                    if mask >> i & 1 == 1 {
                        id += 1;
                        json!([format!("{{\"id\":{},\"s\":\"r\"}}", id - 1), 0])
                    } else {
                        json!([if i % 2 == 0 { "" } else { "  " }, 0])
                    }
                })
                .collect();
            for per in 0..=(len + 1) {
                let nt = len >= 2 && per >= 1 && per < len && mask != (1 << len) - 1;
                em.case("jl", json!([items, per, 2, 3]), nt, &["exhaustive", "jsonl-layout"]);
            }
        }
    }

    // 5. glob over several files
    let ng = if thorough { 1500 } else { 240 };
    const NAMES: &[&str] = &["a", "b", "a.b", "a-b", "a0", "A", "part-0", "part-1", "part-10", "part-2", "z", "\u{e9}", "aa", "a b"];
    for _ in 0..ng {
        let fmt = rng.below(3);
        let ext = ["jsonl", "csv", "parquet"][fmt as usize];
        let pat = rng.below(3);
        let nfiles = rng.below(6);
        let mut files: Vec<Value> = Vec::new();
        let mut seen = std::collections::BTreeSet::<Vec<String>>::new();
        for _ in 0..nfiles {
            let depth = match pat {
                0 => *rng.pick(&[1u64, 1, 1, 2]),
                1 => *rng.pick(&[2u64, 2, 2, 1, 3]),
                _ => *rng.pick(&[1u64, 2, 2, 3]),
            };
            let mut comps: Vec<String> = (1..depth).map(|_| (*rng.pick(NAMES)).to_string()).collect();
            let other = rng.chance(1, 7);
            let fname = format!("{}.{}", rng.pick(NAMES), if other { "txt" } else { ext });
            comps.push(fname);
            // no path may be a prefix of another one (a file cannot also be a directory)
            if seen.iter().any(|s| s.starts_with(&comps) || comps.starts_with(s)) {
                continue;
            }
            seen.insert(comps.clone());
            let cnt: i64 = if rng.chance(1, 12) { -1 } else { rng.below(4) as i64 };
            files.push(json!([comps, cnt]));
        }
        let nt = files.len() >= 2;
        em.case("gl", json!([fmt, rng.chance(1, 2), pat, files, rng.below(1 << 20)]), nt, &["random", "glob"]);
    }
    // 6. floats through every format. Integer-valued ones first: before commit dbceed9 serde_json's
    //    default parser (two roundings) lost e.g. 9007199254740991.0 and 1801439850948199.0
    let p53: i64 = 1 << 53;
    let mut ks: Vec<i64> = vec![0, 1, -1, p53 - 1, -(p53 - 1), p53 - 2, p53 - 3, 1 << 52, (1 << 52) + 1,
        1_801_439_850_948_199, 1_801_439_850_948_197, 1_801_439_850_948_198, 1_801_439_850_948_201,
        1_000_000_000_000_000, 999_999_999_999_999, 1_000_000_000_000_001, 900_719_925_474_099, 900_719_925_474_101,
        3_602_879_701_896_397, 3_602_879_701_896_399, 7_205_759_403_792_793, 7_205_759_403_792_795];
    let nf = if thorough { 3000 } else { 250 };
    for i in 0..nf {
        let k = match i % 4 {
            0 => rng.range(0, 1 << 50),
            1 => rng.range(1 << 50, p53 - 1),
            2 => rng.range(1_801_439_850_948_000, p53 - 1) | 1,
            _ => -rng.range(0, p53 - 1),
        };
        ks.push(k);
    }
    for k in ks {
        em.case("jf", json!([k]), k.abs() > 1, &["float", "jsonl-float"]);
    }
    // every finite f64 must come back bit-exact: extremes, subnormals, powers of two and ten and
    // their neighbours, then random bit patterns (uniform over sign / exponent / mantissa)
    let mut bits: Vec<u64> = vec![
        0, 1 << 63, 1, 2, (1 << 63) | 1, 0x000F_FFFF_FFFF_FFFF, 0x0010_0000_0000_0000, 0x0010_0000_0000_0001,
        0x7FEF_FFFF_FFFF_FFFF, 0xFFEF_FFFF_FFFF_FFFF, 0x7FEF_FFFF_FFFF_FFFE, 0x7FE0_0000_0000_0000,
        0x3FF0_0000_0000_0000, 0x3FF0_0000_0000_0001, 0x3FEF_FFFF_FFFF_FFFF, 0x3FB9_9999_9999_999A,
        0x3FD5_5555_5555_5555, 0x4340_0000_0000_0000, 0x433F_FFFF_FFFF_FFFF, 0x4340_0000_0000_0001,
        0x4009_21FB_5444_2D18, 0x0000_0000_0000_0FFF, 0x8000_0000_0010_0000, 0x0008_0000_0000_0000,
    ];
    for e in [-323i32, -308, -307, -100, -22, -5, 0, 15, 16, 17, 22, 23, 100, 300, 308] {
        let f = format!("1e{e}").parse::<f64>().unwrap();
        bits.extend([f.to_bits() - 1, f.to_bits(), f.to_bits() + 1]);
        let g = format!("9.007199254740993e{e}").parse::<f64>().unwrap();
        if g.is_finite() {
            bits.push(g.to_bits());
        }
    }
    let nb = if thorough { 6000 } else { 600 };
    for i in 0..nb {
        let mut b = rng.next_u64();
        match i % 4 {
            0 => b &= 0x800F_FFFF_FFFF_FFFF,                               // subnormal
            1 => b = (b & 0x800F_FFFF_FFFF_FFFF) | (rng.below(0x7FF) << 52), // any finite exponent
            2 => b = (b & 0x800F_FFFF_FFFF_FFFF) | ((0x3FF - 70 + rng.below(140)) << 52), // human scale
            _ => {}
        }
        bits.push(b);
    }
    for b in bits {
        if f64::from_bits(b).is_finite() {
            em.case("jb", json!([b >> 32, b & 0xFFFF_FFFF]), true, &["float", "float-bits"]);
        }
    }
    // 7. codec dimension: compressed targets (codec chosen by extension) written sequentially and
    //    in parallel, read back whole and streamed; the decoded records must be the written ones
    const EXTS: &[&str] = &["gz", "gzip", "zst", "zstd", "bz2", "bzip2", "xz", "GZ", "Gz", "ZST", "Bz2", "XZ", "BZIP2", "gZiP"];
    let zn: &[u64] = if thorough { &[0, 1, 2, 3, 4, 5, 8, 13, 40] } else { &[0, 1, 2, 3, 5, 9] };
    for &n in zn {
        let mut shs = vec![Value::Null, json!(1), json!(2), json!(3), json!(n), json!(n + 1)];
        if thorough {
            shs.extend([json!(0), json!(5), json!(1000)]);
        }
        for sh in &shs {
            for ext in EXTS {
                // quick tier: the four rarest spellings only in the thorough tier
                if !thorough && ["Gz", "ZST", "XZ", "BZIP2"].contains(ext) {
                    continue;
                }
                let small = sh.as_u64().is_some_and(|s| s <= 8);
                let vias: Vec<u64> = if thorough { vec![0, 1] } else { vec![rng.below(2)] };
                for via in vias {
                    let nt = n >= 2 && sh.as_u64().is_none_or(|s| s >= 2);
                    let per = *rng.pick(&sizes(n));
                    let (t, p) = tp(&mut rng, n);
                    em.case("jz", json!([n, rng.below(1 << 20), ext, sh, via, per, t, p]), nt, &["codec", "jsonl-codec"]);
                    let h = rng.chance(1, 2);
                    let cvia = if small { via } else { 0 };
                    em.case("cz", json!([n, rng.below(1 << 20), ext, h, sh, cvia, per, t, p]), nt, &["codec", "csv-codec"]);
                    if thorough {
                        em.case("cz", json!([n, rng.below(1 << 20), ext, !h, sh, cvia, per, t, p]), nt, &["codec", "csv-codec"]);
                    }
                }
            }
        }
    }
    // 8. overwrite: the path already holds n1 records, then n2 records (n2 < n1 and n2 = 0 included)
    //    are written to the SAME path with every writer; the file must hold exactly the second set
    let oexts: &[&str] = if thorough { &["", "gz", "gzip", "zst", "bz2", "xz", "GZ"] } else { &["", "gz", "zst", "bz2", "xz"] };
    for fmt in 0..3u64 {
        for ext in oexts {
            if fmt == 2 && !ext.is_empty() {
                continue;
            }
            for w2 in 0..4u64 {
                if fmt == 2 && w2 > 1 {
                    continue;
                }
                for n1 in [0u64, 1, 5] {
                    for n2 in [0u64, 1, 3, 7] {
                        // quick tier: every codec for the zero-record branch, plain + gz otherwise
                        if !thorough && n2 > 0 && !["", "gz"].contains(ext) {
                            continue;
                        }
                        let mut shs: Vec<Value> = if w2 < 2 {
                            vec![Value::Null]
                        } else if n2 == 0 || thorough {
                            vec![Value::Null, json!(0), json!(1), json!(2), json!(3), json!(n2), json!(n2 + 1), json!(1000)]
                        } else {
                            vec![Value::Null, json!(1), json!(2), json!(n2), json!(n2 + 1)]
                        };
                        shs.dedup();
                        for sh in shs {
                            // the CSV method passes `shards` on as a thread count: keep it small there
                            if fmt == 1 && w2 == 3 && sh.as_u64().is_some_and(|s| s > 8) {
                                continue;
                            }
                            let w1s: Vec<u64> = if fmt == 2 { vec![rng.below(2)] } else if thorough { vec![0, 2] } else { vec![*rng.pick(&[0, 2])] };
                            for w1 in w1s {
                                let h = rng.chance(1, 2);
                                let nt = n1 > 0;
                                em.case("ow", json!([fmt, ext, h, w1, w2, n1, n2, rng.below(1 << 20), sh]), nt, &["overwrite"]);
                            }
                        }
                    }
                }
            }
        }
    }
    // 9. shards with more than 65 536 rows / lines (summaries only)
    let bigs: Vec<(u64, u64, u64, u64)> = if thorough {
        let mut v = Vec::new();
        for n in [65_536u64, 65_537, 70_001, 131_073] {
            for rg in [0u64, 20_000, 65_537, 70_000] {
                for per in [1u64, 2, 1000] {
                    v.push((2, n, rg, per));
                }
            }
            for per in [65_536u64, 65_537, 1000, 100_000] {
                v.push((0, n, 0, per));
                v.push((1, n, 0, per));
            }
        }
        // ironbeam's Parquet writer past the parquet crate's default max row-group size (1048576 rows):
        // the file gets a second row group
        v.push((2, 1_048_577, 0, 1));
        v.push((2, 1_048_577, 0, 2));
        v
    } else {
        vec![(2, 1_048_577, 0, 1), (2, 65_537, 0, 1), (2, 70_001, 20_000, 1000), (2, 65_536, 0, 1), (2, 70_001, 20_000, 2), (0, 70_001, 0, 65_536), (0, 70_001, 0, 1000), (1, 70_001, 0, 65_536), (1, 70_001, 0, 10_000)]
    };
    for (fmt, n, rg, per) in bigs {
        let (t, p) = tp(&mut rng, 3);
        em.case("big", json!([fmt, n, rg, per, t, p]), true, &["big"]);
    }

    // 10. one source handle, two generations of the file (same shape, other records)
    let gmax = if thorough { 12 } else { 6 };
    for fmt in 0..3u64 {
        for n in 0..=gmax {
            for per in [0u64, 1, 2, 3, n, n + 1] {
                for order in 0..2u64 {
                    let rgs: Vec<u64> = if fmt == 2 { vec![0, 1, 2] } else { vec![0] };
                    for rg in rgs {
                        if !thorough && rng.chance(1, 2) {
                            continue;
                        }
                        let (t, p) = tp(&mut rng, n);
                        let h = rng.chance(1, 2);
                        em.case("gen", json!([fmt, h, n, rg, per, order, t, p, rng.below(1 << 20), rng.below(1 << 20)]), n >= 1, &["two-generations"]);
                    }
                }
            }
        }
    }

    // 11. every streaming reader x every execution configuration x shard sizes: one source handle run
    //     by collect_seq / collect_par / collect / Runner { Sequential | Parallel, checkpointing
    //     off | disabled | enabled with each policy }, behind a filter, and as either side of a join
    let rxn: Vec<u64> = if thorough { (0..=20).chain([31, 32, 33, 64, 65]).collect() } else { vec![0, 1, 2, 3, 4, 5, 6, 7, 8, 9, 16, 17, 33] };
    for &n in &rxn {
        for fmt in 0..3u64 {
            // Parquet reads are slow in a debug build: the quick tier keeps the files small there
            let rgs: Vec<u64> = if fmt < 2 {
                vec![0]
            } else if thorough {
                vec![0, 1, 2, 3, 5]
            } else if n <= 6 {
                vec![0, 1, 2, 3]
            } else if n <= 17 {
                vec![*rng.pick(&[2u64, 3, 5])]
            } else {
                vec![]
            };
            for rg in rgs {
                if rg > n + 1 {
                    continue;
                }
                let units = if fmt < 2 { n } else if n == 0 { 0 } else if rg == 0 { 1 } else { n.div_ceil(rg) };
                let mut pers = vec![0, 1, 2, 3, units.saturating_sub(1), units, units + 1, 1000, HUGE];
                if thorough {
                    pers.extend([4, 5, 7, 8, 16, units / 2, 2 * units + 1]);
                }
                pers.sort_unstable();
                pers.dedup();
                for per in pers {
                    if !thorough && fmt == 2 && rg != 1 && rng.chance(1, 2) {
                        continue;
                    }
                    let (t, p) = tp(&mut rng, n);
                    let nt = units >= 2 && per >= 1 && per < units;
                    let (pol, rec) = (spread_pol(rng.below(16)), rng.chance(1, 2));
                    em.case(
                        "rx",
                        json!([fmt, rng.chance(1, 2), n, rg, per, rng.below(1 << 20), t, p, pol, rec]),
                        nt,
                        &["exec-configs"],
                    );
                }
            }
        }
    }

    // 12. the adapters called directly with hand-built shard structs: exact tilings, tilings with a wrong
    //     total, shuffled / overlapping / inverted / out-of-file ranges; ONE adapter instance over two files
    let nvo = if thorough { 2500 } else { 330 };
    for k in 0..nvo {
        let fmt = k % 3;
        let (na, nb) = (rng.below(9), rng.below(9));
        let rg = if fmt == 2 { *rng.pick(&[0u64, 1, 1, 2, 3]) } else { 0 };
        let units = |n: u64| if fmt < 2 { n } else if n == 0 { 0 } else if rg == 0 { 1 } else { n.div_ceil(rg) };
        let ua = units(na);
        let per = 1 + rng.below(4);
        let tiling = |total: u64| -> Vec<(u64, u64)> {
            (0..total.div_ceil(per)).map(|i| (i * per, ((i + 1) * per).min(total))).collect()
        };
        let far = if fmt == 2 { 12 } else { *rng.pick(&[12u64, 1000, 1 << 33]) };
        let style = rng.below(8);
        let (tot, mut ranges): (u64, Vec<(u64, u64)>) = match style {
            // the exact tiling of file A (the property instance applies to A, and to B when it has as many units)
            0 | 1 => (ua, tiling(ua)),
            // a tiling of more / fewer units than the file has
            2 => {
                let t = ua + 1 + rng.below(3);
                (t, tiling(t))
            }
            3 => {
                let t = ua.saturating_sub(1 + rng.below(2));
                (t, tiling(t))
            }
            // the exact tiling, but the total is off
            4 => (*rng.pick(&[0, ua.saturating_sub(1), ua + 1, far]), tiling(ua)),
            // arbitrary ranges
            _ => {
                let m = rng.below(5);
                let hi = ua + 3;
                let rs = (0..m)
                    .map(|_| {
                        if rng.chance(1, 8) {
                            (rng.below(hi), far)
                        } else {
                            (rng.below(hi), rng.below(hi))
                        }
                    })
                    .collect();
                let other = rng.below(hi);
                (*rng.pick(&[ua, other, far]), rs)
            }
        };
        if style == 1 && ranges.len() >= 2 {
            // the same ranges in another order, or one of them twice
            if rng.chance(1, 2) {
                ranges.reverse();
            } else {
                let d = ranges[rng.below(ranges.len() as u64) as usize];
                ranges.push(d);
            }
        }
        let rj: Vec<Value> = ranges.iter().map(|(a, b)| json!([a, b])).collect();
        let nt = ranges.len() >= 2 && na >= 2;
        em.case("vo", json!([fmt, rng.chance(1, 2), na, nb, rg, tot, rj, rng.below(1 << 20)]), nt, &["adapters-direct"]);
    }

    // 13. one source handle, second generation of ANOTHER size, all four engines in every rotation
    let g2max: u64 = if thorough { 9 } else { 6 };
    for fmt in 0..3u64 {
        for n1 in 0..=g2max {
            let mut n2s = vec![0, n1.saturating_sub(1), n1, n1 + 1, 2 * n1 + 1];
            n2s.dedup();
            for n2 in n2s {
                for per in [0u64, 1, 2, 3, n1, n1 + 1] {
                    let rgp: Vec<(u64, u64)> = if fmt == 2 { vec![(0, 0), (1, 1), (2, 2), (1, 2), (2, 1), (0, 1), (3, 1)] } else { vec![(0, 0)] };
                    for (rg1, rg2) in rgp {
                        if !thorough && (rng.chance(if fmt == 2 { 5 } else { 1 }, if fmt == 2 { 6 } else { 3 }) || (fmt == 2 && n1 > 5)) {
                            continue;
                        }
                        let (t, p) = tp(&mut rng, n1);
                        let order = rng.below(4);
                        em.case(
                            "g2",
                            json!([fmt, rng.chance(1, 2), n1, n2, rg1, rg2, per, order, t, p, rng.below(1 << 20), rng.below(1 << 20)]),
                            n1 >= 1 && n2 >= 1,
                            &["two-generations", "resized"],
                        );
                    }
                }
            }
        }
    }

    // 14. sizes around every power of two (summaries only): lines / rows / row groups x shard sizes,
    //     whole + the four engines
    let pows: &[u64] = if thorough { &[16, 20, 32, 64, 128, 256, 512, 1024, 2048, 4096, 8192, 16384, 32768] } else { &[16, 20, 32, 64, 128, 256, 512, 1024, 4096] };
    for &base in pows {
        for n in [base, base + 1] {
            let mut pers = vec![n / 2, n - 1, (n / 16).max(2)];
            if n <= 129 || (thorough && n <= 1025) {
                pers.push(1);
            }
            if thorough {
                pers.extend([n / 2 + 1, n, n + 1]);
                // every range read re-scans the file from the top: small shards only for moderate n
                if n <= 4097 {
                    pers.extend([16, 64]);
                }
            }
            pers.sort_unstable();
            pers.dedup();
            for &per in &pers {
                for fmt in 0..2u64 {
                    let (t, p) = tp(&mut rng, n);
                    em.case("big", json!([fmt, n, 0, per, t, p]), true, &["pow2"]);
                }
            }
            // parquet: n row groups of 1 row (up to 257 groups), or of 3 rows (the last one short)
            if n <= 257 || (thorough && n <= 1025) {
                for (rows, rg) in [(n, 1u64), (3 * n - 1, 3)] {
                    let mut gps = vec![1, 2, n / 2, n - 1, n];
                    if thorough {
                        gps.extend([3, n / 2 + 1, n + 1, 16]);
                    }
                    gps.sort_unstable();
                    gps.dedup();
                    for per in gps {
                        if !thorough && rng.chance(1, 3) {
                            continue;
                        }
                        let (t, p) = tp(&mut rng, n);
                        em.case("big", json!([2, rows, rg, per, t, p]), true, &["pow2"]);
                    }
                }
            }
        }
    }
}

fn main() {
    // first builder wins: keep later `collect_par(Some(t), ..)` calls from resizing the pool
    let _ = rayon::ThreadPoolBuilder::new().num_threads(4).build_global();
    let _ = std::fs::create_dir_all(root());
    drive(&generate, &run);
    let _ = std::fs::remove_dir_all(root());
}
