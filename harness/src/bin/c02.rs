//! C02: element-wise pipelines compute the steps as written, in order.
//! Builds the REAL typed pipeline for every generated program (public API only) and collects it
//! sequentially or in parallel; the judge is Corr/C02.v.
use ibv::engine::*;
use ibv::{Emitter, Tier, drive};
use serde_json::Value;

const DIR: &str = "/verif/run/C02";

fn e_modmul(c: i64, m: i64) -> EFun {
    EFun::Comp(Box::new(EFun::Mul(c)), Box::new(EFun::Mod(m)))
}

/// representative element-wise programs for the boundary sweep: (source shape, steps)
fn sweep_programs() -> Vec<(Shape, Vec<Step>)> {
    vec![
        (Shape::U, vec![
            Step::Map(EFun::Add(1)),
            Step::Filter(PFun::Not(Box::new(PFun::ModEq(3, 0)))),
            Step::FlatMap(GFun::UpTo(3)),
            Step::MapBatches(3, BFun::Each(e_modmul(5, 97))),
            Step::MapBatches(2, BFun::Dup),
        ]),
        (Shape::KV, vec![
            Step::MapValues(EFun::Add(1)),
            Step::Filter(PFun::Lt(3)),
            Step::MapValuesBatches(2, BFun::Each(EFun::Dup)),
            Step::Unkey,
            Step::Map(EFun::Snd),
            Step::MapBatches(0, BFun::Each(EFun::Fst)),
        ]),
        (Shape::U, vec![
            Step::KeyBy(EFun::Mod(3)),
            Step::MapValuesW(EFun::Wrap),
            Step::FilterValuesW(PFun::Lt(2)),
            Step::MapValuesBack(EFun::Len),
            Step::FlatMap(GFun::Repeat(2)),
        ]),
        (Shape::KG, vec![
            Step::Filter(PFun::Not(Box::new(PFun::ModEq(2, 1)))),
            Step::FlatMap(GFun::Elems),
            Step::FilterValues(PFun::Lt(25)),
            Step::MapValues(EFun::Add(-3)),
            Step::Unkey,
        ]),
        (Shape::KV, vec![]),
        // expanding, chunk-sensitive batch function: sequential grid points only
        (Shape::U, vec![
            Step::MapBatches(4, BFun::Header),
            Step::Map(EFun::Add(1)),
            Step::MapBatches(0, BFun::Dup),
            Step::MapBatches(3, BFun::Header),
        ]),
    ]
}

fn emit(em: &mut Emitter, src: &Src, steps: &[Step], mode: Mode, extra: &[&str]) {
    emit_prog(em, src, steps, mode, false, extra);
}

/// programs of the open known-finding class on purpose: a KV source followed only by value-only
/// operators (one fused all-value-only block) in random order
fn gen_value_only_block(rng: &mut ibv::SplitMix64) -> Vec<Step> {
    let mut steps = vec![];
    let mut wrapped = false;
    for _ in 0..rng.range(2, 4) {
        steps.push(match (wrapped, rng.below(4)) {
            (false, 0) => Step::MapValues(EFun::Add(rng.range(-3, 3))),
            (false, 1) => Step::FilterValues(PFun::ModEq(2, rng.range(0, 1))),
            (false, 2) => Step::MapValuesBatches(rng.below(4) as usize, BFun::Each(EFun::Add(1))),
            (false, _) => {
                wrapped = true;
                Step::MapValuesW(EFun::Id)
            }
            (true, 0 | 1) => Step::FilterValuesW(PFun::Lt(rng.range(0, 20))),
            (true, _) => {
                wrapped = false;
                Step::MapValuesBack(EFun::Add(1))
            }
        });
    }
    steps
}

fn generate(seed: u64, tier: Tier, em: &mut Emitter) {
    let progs = sweep_programs();
    // boundary sweep: length 0..24 x (sequential, partitions 0..len+2)
    let mut rng = ibv::SplitMix64::new(seed ^ 0xC02);
    for n in 0..=24usize {
        for pi in 0..=(n + 3) {
            let mode = if pi == 0 { Mode::Seq } else { Mode::Par(pi - 1) };
            for (j, (shape, steps)) in progs.iter().enumerate() {
                let seq_only = steps.iter().any(|s| matches!(s, Step::MapBatches(_, BFun::Header)));
                if seq_only {
                    // not part of the rotation: every sequential grid point gets it
                    if mode != Mode::Seq {
                        continue;
                    }
                } else if tier == Tier::Quick && (n + pi) % (progs.len() - 1) != j.min(progs.len() - 2) {
                    continue;
                }
                let src = sweep_src(*shape, n, n, &mut rng);
                emit(em, &src, steps, mode, &["sweep"]);
            }
        }
    }
    // value-only blocks (mostly inside the known-finding class; the rest must agree exactly)
    let mut rng = seed_mix(seed, 0xC02_0001);
    for _ in 0..(if tier == Tier::Quick { 80 } else { 400 }) {
        let n = gen_len(&mut rng);
        let src = Src::Vec(Shape::KV, pattern_kv(*rng.pick(&PATTERNS), n, &mut rng));
        let steps = gen_value_only_block(&mut rng);
        let parts = gen_parts(&mut rng, n);
        let mode = if rng.chance(1, 3) { Mode::Seq } else { Mode::Par(parts) };
        emit(em, &src, &steps, mode, &["value_only_block"]);
    }
    // seeded random well-typed element-wise programs
    let mut rng = seed_mix(seed, 0xC02_0002);
    let count = if tier == Tier::Quick { 1000 } else { 10000 };
    for _ in 0..count {
        let n = if rng.chance(1, 3) { rng.below(4) as usize } else { rng.below(25) as usize };
        let src = gen_src(&mut rng, n, true, true);
        let parts = rng.below(src.len() as u64 + 3) as usize;
        let mode = if rng.chance(1, 4) { Mode::Seq } else { Mode::Par(parts) };
        let mut o = GenOpts::elementwise();
        o.reorder_class = rng.chance(1, 7);
        o.header = mode == Mode::Seq;
        let nsteps = rng.below(13) as usize;
        let (steps, _) = gen_program(&mut rng, &src, &o, nsteps, parts);
        emit(em, &src, &steps, mode, &["random"]);
    }
}

fn run(kind: &str, input: &Value) -> Value {
    match kind {
        "prog" => run_prog_case(input, DIR),
        _ => serde_json::json!(["invalid"]),
    }
}

fn main() {
    drive(&generate, &run);
}
