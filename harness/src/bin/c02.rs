//! C02: element-wise pipelines compute the steps as written, in order.
//! Builds the REAL typed pipeline for every generated program (public API only) and collects it
//! sequentially or in parallel; the judge is Corr/C02.v.
use ibv::engine::*;
use ibv::{Emitter, Tier, drive};
use serde_json::Value;

const DIR: &str = "/verif/run/C02";

fn e_modmul(c: i64, m: i64) -> EFun {
    EFun::Comp(Box::new(EFun::Mul(c)), Box::new(EFun::Mod(m)))
}

/// representative element-wise programs for the boundary sweep: (source shape, steps)
fn sweep_programs() -> Vec<(Shape, Vec<Step>)> {
    vec![
        (Shape::U, vec![
            Step::Map(EFun::Add(1)),
            Step::Filter(PFun::Not(Box::new(PFun::ModEq(3, 0)))),
            Step::FlatMap(GFun::UpTo(3)),
            Step::MapBatches(3, BFun::Each(e_modmul(5, 97))),
            Step::MapBatches(2, BFun::Dup),
        ]),
        (Shape::KV, vec![
            Step::MapValues(EFun::Add(1)),
            Step::Filter(PFun::Lt(3)),
            Step::MapValuesBatches(2, BFun::Each(EFun::Dup)),
            Step::Unkey,
            Step::Map(EFun::Snd),
            Step::MapBatches(0, BFun::Each(EFun::Fst)),
        ]),
        (Shape::U, vec![
            Step::KeyBy(EFun::Mod(3)),
            Step::MapValuesW(EFun::Wrap),
            Step::FilterValuesW(PFun::Lt(2)),
            Step::MapValuesBack(EFun::Len),
            Step::FlatMap(GFun::Repeat(2)),
        ]),
        (Shape::KG, vec![
            Step::Filter(PFun::Not(Box::new(PFun::ModEq(2, 1)))),
            Step::FlatMap(GFun::Elems),
            Step::FilterValues(PFun::Lt(25)),
            Step::MapValues(EFun::Add(-3)),
            Step::Unkey,
        ]),
        (Shape::KV, vec![]),
        // side inputs: allow-list, lookup table with a repeated key, |side| added
        (Shape::U, vec![
            Step::MapWithSide(vec![Val::Int(1), Val::Int(1), Val::Int(5)], SFun::AddLen),
            Step::FilterWithSide(vec![Val::Int(3), Val::Int(4), Val::Int(4), Val::Int(20), Val::Int(-7)], SPred::NotIn),
            Step::MapWithSideMap(vec![pair(Val::Int(5), Val::Int(50)), pair(Val::Int(6), Val::Int(60)),
                                      pair(Val::Int(5), Val::Int(55))], -1),
            Step::FilterWithSide(vec![Val::Int(50), Val::Int(55), Val::Int(-1)], SPred::In),
            Step::MapWithSide(vec![Val::Int(2), Val::Int(3)], SFun::AddSum),
        ]),
        // EMPTY side inputs: a block-list / length test on an empty side, a lookup in an empty map
        (Shape::U, vec![
            Step::FilterWithSide(vec![], SPred::NotIn),
            Step::MapWithSide(vec![], SFun::AddSum),
            Step::MapWithSideMap(vec![], 7),
            Step::FilterWithSide(vec![], SPred::LenGt(0)),
        ]),
        (Shape::KV, vec![
            Step::FilterWithSide(vec![], SPred::NotIn),
            Step::FilterWithSide(vec![pair(Val::Int(0), Val::Int(3))], SPred::NotIn),
            Step::MapValues(EFun::Add(1)),
        ]),
        (Shape::U, vec![Step::FilterWithSide(vec![], SPred::In)]),
        (Shape::U, vec![Step::Map(EFun::Add(1)), Step::TryMap(EFun::Mod(5), PFun::Not(Box::new(PFun::ModEq(4, 0))))]),
        // "the whole partition in one call": batch size usize::MAX and usize::MAX / 2
        (Shape::KV, vec![
            Step::MapValuesBatches(BATCH_MAX, BFun::Each(EFun::Add(1))),
            Step::MapValuesBatches(BATCH_MAX - 1, BFun::Each(EFun::Mul(2))),
        ]),
        (Shape::U, vec![
            Step::MapBatches(BATCH_MAX, BFun::Each(EFun::Add(1))),
            Step::MapBatches(BATCH_MAX - 1, BFun::Dup),
        ]),
        // expanding, chunk-sensitive batch function: sequential grid points only
        (Shape::U, vec![
            Step::MapBatches(4, BFun::Header),
            Step::Map(EFun::Add(1)),
            Step::MapBatches(0, BFun::Dup),
            Step::MapBatches(3, BFun::Header),
        ]),
    ]
}

fn emit(em: &mut Emitter, src: &Src, steps: &[Step], mode: Mode, extra: &[&str]) {
    emit_prog(em, src, steps, mode, false, extra);
}

/// programs of the open known-finding class on purpose: a KV source followed only by value-only
/// operators (one fused all-value-only block) in random order
fn gen_value_only_block(rng: &mut ibv::SplitMix64) -> Vec<Step> {
    let mut steps = vec![];
    let mut wrapped = false;
    for _ in 0..rng.range(2, 4) {
        steps.push(match (wrapped, rng.below(4)) {
            (false, 0) => Step::MapValues(EFun::Add(rng.range(-3, 3))),
            (false, 1) => Step::FilterValues(PFun::ModEq(2, rng.range(0, 1))),
            (false, 2) => Step::MapValuesBatches(rng.below(4) as usize, BFun::Each(EFun::Add(1))),
            (false, _) => {
                wrapped = true;
                Step::MapValuesW(EFun::Id)
            }
            (true, 0 | 1) => Step::FilterValuesW(PFun::Lt(rng.range(0, 20))),
            (true, _) => {
                wrapped = false;
                Step::MapValuesBack(EFun::Add(1))
            }
        });
    }
    steps
}

/// the program through a sorting collector (kind "sorted"): which = 0 collect_seq_sorted,
/// 1 collect_par_sorted, 2 collect_par_sorted_by_key
fn emit_sorted(em: &mut Emitter, src: &Src, steps: &[Step], mode: Mode, which: usize, extra: &[&str]) {
    let mut tags = case_tags(src, steps, mode, extra);
    tags.push(["collect_seq_sorted", "collect_par_sorted", "collect_par_sorted_by_key"][which].into());
    let tr: Vec<&str> = tags.iter().map(String::as_str).collect();
    let mut input = case_input(src, steps, mode);
    input.as_array_mut().unwrap().push(serde_json::json!(which));
    em.case("sorted", input, src.len() >= 2, &tr);
}

fn emit_try(em: &mut Emitter, src: &Src, steps: &[Step], extra: &[&str]) {
    // a program ending in try_map is also run through collect_fail_fast (sequential)
    if matches!(steps.last(), Some(Step::TryMap(..))) {
        let tags = case_tags(src, steps, Mode::Seq, extra);
        let tr: Vec<&str> = tags.iter().map(String::as_str).collect();
        em.case("failfast", case_input(src, steps, Mode::Seq), src.len() >= 2, &tr);
    }
}
fn emit_branch(em: &mut Emitter, src: &Src, pre: &[Step], a: &[Step], b: &[Step], mode: Mode, extra: &[&str]) {
    let all = [pre, a, b].concat();
    let mut tags = case_tags(src, &all, mode, extra);
    tags.push("branch".into());
    let tr: Vec<&str> = tags.iter().map(String::as_str).collect();
    em.case("branch", branch_input(src, pre, a, b, mode), nontrivial(src, &all, mode, false), &tr);
}

/// targeted branching programs: a reused base whose LAST operator is a (value) filter / map, and
/// two branches that each add one operator; the sibling and the base must not see it
fn targeted_branches() -> Vec<(Shape, Vec<Step>, Vec<Step>, Vec<Step>)> {
    let even = PFun::ModEq(2, 0);
    let mut v = vec![];
    let kv_pre: Vec<Vec<Step>> = vec![
        vec![Step::FilterValues(PFun::Lt(20))],
        vec![Step::Filter(PFun::Lt(2))],
        vec![Step::FilterValues(PFun::Lt(25)), Step::FilterValues(PFun::Not(Box::new(PFun::Lt(-5))))],
        vec![],
    ];
    let kv_a: Vec<Vec<Step>> = vec![
        vec![Step::FilterValues(even.clone())],
        vec![Step::Filter(PFun::ModEq(2, 1))],
        vec![Step::FilterValues(PFun::False)],
        vec![Step::MapValues(EFun::Mul(0))],
    ];
    let kv_b: Vec<Vec<Step>> = vec![
        vec![Step::MapValues(EFun::Add(100))],
        vec![Step::FilterValues(PFun::Not(Box::new(even.clone())))],
        vec![Step::Unkey],
    ];
    for p in &kv_pre {
        for a in &kv_a {
            for b in &kv_b {
                v.push((Shape::KV, p.clone(), a.clone(), b.clone()));
            }
        }
    }
    for p in [vec![Step::Filter(PFun::Lt(30))], vec![Step::Map(EFun::Add(1))], vec![]] {
        for a in [vec![Step::Filter(even.clone())], vec![Step::Map(EFun::Mul(0))]] {
            for b in [vec![Step::Map(EFun::Add(100))], vec![Step::Filter(PFun::Not(Box::new(even.clone())))],
                      vec![Step::KeyBy(EFun::Mod(2)), Step::FilterValues(PFun::Lt(10))]] {
                v.push((Shape::U, p.clone(), a.clone(), b.clone()));
            }
        }
    }
    v
}

fn generate(seed: u64, tier: Tier, em: &mut Emitter) {
    let progs = sweep_programs();
    // boundary sweep: length 0..24 x (sequential, partitions 0..len+2)
    let mut rng = ibv::SplitMix64::new(seed ^ 0xC02);
    for n in 0..=24usize {
        for pi in 0..=(n + 3) {
            let mode = if pi == 0 { Mode::Seq } else { Mode::Par(pi - 1) };
            for (j, (shape, steps)) in progs.iter().enumerate() {
                let seq_only = steps.iter().any(|s| matches!(s, Step::MapBatches(_, BFun::Header)));
                if seq_only {
                    // not part of the rotation: every sequential grid point gets it
                    if mode != Mode::Seq {
                        continue;
                    }
                } else if tier == Tier::Quick && (n + pi) % (progs.len() - 1) != j.min(progs.len() - 2) {
                    continue;
                }
                let src = sweep_src(*shape, n, n, &mut rng);
                emit(em, &src, steps, mode, &["sweep"]);
                if mode == Mode::Seq {
                    emit_try(em, &src, steps, &["sweep"]);
                }
            }
        }
    }
    // custom sources whose VecOps::len answers None ("size unknown"): every program of the sweep,
    // zero steps included, sequentially and with several requested partition counts
    for n in [0usize, 1, 2, 9, 24] {
        for (j, (shape, steps)) in progs.iter().enumerate() {
            for mode in [Mode::Seq, Mode::Par(0), Mode::Par(1), Mode::Par(3), Mode::Par(n + 2)] {
                if steps.iter().any(|s| matches!(s, Step::MapBatches(_, BFun::Header))) && mode != Mode::Seq {
                    continue;
                }
                if tier == Tier::Quick && (n + j) % 2 == 1 && mode != Mode::Par(3) {
                    continue;
                }
                let src = match sweep_src(*shape, n, n + j, &mut rng) {
                    Src::Vec(sh, d) => Src::NoLen(sh, d),
                    other => other,
                };
                emit(em, &src, steps, mode, &["sweep", "nolen_source"]);
            }
        }
    }
    // value-only blocks (mostly inside the known-finding class; the rest must agree exactly)
    let mut rng = seed_mix(seed, 0xC02_0001);
    for _ in 0..(if tier == Tier::Quick { 80 } else { 400 }) {
        let n = gen_len(&mut rng);
        let src = Src::Vec(Shape::KV, pattern_kv(*rng.pick(&PATTERNS), n, &mut rng));
        let steps = gen_value_only_block(&mut rng);
        let parts = gen_parts(&mut rng, n);
        let mode = if rng.chance(1, 3) { Mode::Seq } else { Mode::Par(parts) };
        emit(em, &src, &steps, mode, &["value_only_block"]);
    }
    // debug taps on partitions holding MORE THAN 10 elements, debug_sample sizes 0,1,10,11,>len;
    // the user-written custom operator
    let full = tier != Tier::Quick;
    let mut t = 0usize;
    for n in [11usize, 25, 40] {
        for k in [0usize, 1, 2, 3, 4, 13, 14, 3 + n + 5] {
            for (mi, mode) in [Mode::Seq, Mode::Par(1), Mode::Par(2), Mode::Par(3)].into_iter().enumerate() {
                t += 1;
                if !full && (t + mi) % 2 == 0 {
                    continue;
                }
                let u = Src::Vec(Shape::U, ints(n, &mut rng));
                emit(em, &u, &[Step::Map(EFun::Add(1)), Step::Debug(k), Step::CustomMap(EFun::Add(1))], mode,
                     &["sweep", "debug_tap"]);
                if full || t % 2 == 0 {
                    let kv = Src::Vec(Shape::KV, pattern_kv(PATTERNS[t % PATTERNS.len()], n, &mut rng));
                    emit(em, &kv, &[Step::Debug(k), Step::MapValues(EFun::Add(1)), Step::Debug((k + 1) % 4)], mode,
                         &["sweep", "debug_tap"]);
                }
            }
        }
    }
    // more than 64 consecutive stateless steps (one fused node of > 64 operators)
    for chain in long_chains(full) {
        for mode in [Mode::Seq, Mode::Par(3)] {
            let u = Src::Vec(Shape::U, ints(9, &mut rng));
            emit(em, &u, &chain, mode, &["sweep", "long_chain"]);
        }
    }
    // fail-fast must report the FIRST failing element: several distinct failing elements
    for n in [5usize, 12, 30] {
        for (m, r) in [(3i64, 0i64), (4, 1), (2, 1), (7, 6)] {
            let u = Src::Vec(Shape::U, (0..n as i64).map(|i| Val::Int(i * 5 % 31)).collect());
            let steps = vec![Step::Map(EFun::Add(1)), Step::TryMap(EFun::Mul(2), PFun::Not(Box::new(PFun::ModEq(m, r))))];
            emit(em, &u, &steps, Mode::Seq, &["sweep", "try_map"]);
            emit_try(em, &u, &steps, &["sweep", "try_map"]);
        }
    }
    // sorting collectors: rows with REPEATED keys and distinguishable values (the value is the row
    // index), more rows than any small-slice special case of a sort routine (20, 32, 64), keys in
    // runs / alternating / descending, so that a stable sort by key differs from a full sort and
    // from any unstable one
    for n in [0usize, 1, 2, 19, 20, 21, 22, 33, 50, 65, 130, 300] {
        for (pi, keyf) in [|i: usize, _n: usize| (i % 3) as i64, |i, n| ((n - i) / 4) as i64, |i, _n| ((i * 7) % 5) as i64,
                           |_i, _n| 0i64].into_iter().enumerate() {
            if tier == Tier::Quick && (n + pi) % 2 == 1 && n != 21 && n != 50 {
                continue;
            }
            let rows: Vec<Val> = (0..n).map(|i| pair(Val::Int(keyf(i, n)), Val::Int((n - i) as i64 * 3 % 17 + (i as i64) * 100))).collect();
            let kv = Src::Vec(Shape::KV, rows);
            for parts in [1usize, 3, 8] {
                emit_sorted(em, &kv, &[], Mode::Par(parts), 2, &["sweep", "sorted"]);
                if parts == 3 {
                    emit_sorted(em, &kv, &[Step::MapValues(EFun::Add(1)), Step::Filter(PFun::Not(Box::new(PFun::ModEq(7, 3))))],
                                Mode::Par(parts), 2, &["sweep", "sorted"]);
                    emit_sorted(em, &kv, &[Step::MapValues(EFun::Mod(3))], Mode::Par(parts), 1, &["sweep", "sorted"]);
                }
            }
            emit_sorted(em, &kv, &[Step::MapValues(EFun::Mod(4))], Mode::Seq, 0, &["sweep", "sorted"]);
        }
    }
    // branching programs: targeted (the base ends in a filter / map) and random
    for (i, (shape, pre, a, b)) in targeted_branches().into_iter().enumerate() {
        for (n, parts) in [(7usize, None), (9, Some(3)), (2, Some(5))] {
            if tier == Tier::Quick && (i + n) % 2 == 0 {
                continue;
            }
            let src = sweep_src(shape, n, i, &mut rng);
            emit_branch(em, &src, &pre, &a, &b, parts.map_or(Mode::Seq, Mode::Par), &["targeted"]);
        }
    }
    let mut made = 0;
    while made < (if tier == Tier::Quick { 150 } else { 1500 }) {
        let n = gen_len(&mut rng);
        let src = gen_src(&mut rng, n, true, true);
        let parts = gen_parts(&mut rng, src.len());
        let mut o = GenOpts::elementwise();
        o.side_inputs = true;
        o.taps = true;
        o.reorder_class = rng.chance(1, 10);
        let Some((pre, a, b)) = gen_branch(&mut rng, &src, &o, parts) else { continue };
        let mode = if rng.chance(1, 3) { Mode::Seq } else { Mode::Par(parts) };
        emit_branch(em, &src, &pre, &a, &b, mode, &["random"]);
        made += 1;
    }
    // seeded random well-typed element-wise programs
    let mut rng = seed_mix(seed, 0xC02_0002);
    let count = if tier == Tier::Quick { 800 } else { 9000 };
    let mut big: Vec<BigCase> = vec![];
    for (i, (n, p)) in big_grid(tier != Tier::Quick).into_iter().enumerate() {
        if tier != Tier::Quick || i < 3 {
            big.push(("bigprog", range_src(Shape::U, n), big_chain(), Mode::Par(p)));
        }
    }
    big.push(("bigprog", range_src(Shape::U, 70_001), big_chain(), Mode::Seq));
    // chunk-sensitive batch functions with batch sizes beyond any internal buffer cap, over one
    // partition that is longer than the batch (sequential run = one partition = the list
    // interpretation): the slices handed to the function must be exactly `batch` long
    for (n, b) in [(10_001usize, 5000usize), (10_001, 4097), (20_000, 9000), (9000, 100_000)] {
        if tier == Tier::Quick && n != 10_001 {
            continue;
        }
        big.push(("bigprog", range_src(Shape::KV, n), vec![Step::MapValuesBatches(b, BFun::Rev)], Mode::Seq));
        big.push(("bigprog", range_src(Shape::U, n), vec![Step::MapBatches(b, BFun::Rev), Step::MapBatches(b + 1, BFun::Header)], Mode::Seq));
    }
    let mut spread = Spread::new(big, count);
    for _ in 0..count {
        spread.step(em);
        let n = if rng.chance(1, 3) { rng.below(4) as usize } else { rng.below(25) as usize };
        let src = gen_src(&mut rng, n, true, true);
        let parts = rng.below(src.len() as u64 + 3) as usize;
        let mode = if rng.chance(1, 4) { Mode::Seq } else { Mode::Par(parts) };
        let mut o = GenOpts::elementwise();
        o.reorder_class = rng.chance(1, 7);
        o.header = mode == Mode::Seq;
        o.side_inputs = true;
        o.taps = true;
        let nsteps = rng.below(13) as usize;
        let (mut steps, sim) = gen_program(&mut rng, &src, &o, nsteps, parts);
        if sim.shape == Shape::U && rng.chance(1, 4) {
            // fallible map as the last step: all Ok, some Err, all Err
            let p = match rng.below(4) {
                0 => PFun::True,
                1 => PFun::False,
                _ => gen_pfun(&mut rng, sim.rows.first(), 0),
            };
            steps.push(Step::TryMap(gen_efun(&mut rng, sim.rows.first(), 0), p));
            emit_try(em, &src, &steps, &["random"]);
        }
        let mode = maybe_auto(&mut rng, &steps, mode, 8);
        emit(em, &src, &steps, mode, &["random"]);
        if rng.chance(1, 6) && !steps.iter().any(|s| matches!(s, Step::TryMap(..)))
            && !steps.iter().any(|s| matches!(s, Step::MapBatches(_, BFun::Header))) {
            let which = match (mode, sim.shape) {
                (Mode::Seq, _) => 0,
                (_, Shape::KV | Shape::KG | Shape::KW) if rng.chance(2, 3) => 2,
                _ => 1,
            };
            emit_sorted(em, &src, &steps, mode, which, &["random", "sorted"]);
        }
    }
    spread.finish(em);
}

fn run(kind: &str, input: &Value) -> Value {
    match kind {
        "prog" => run_prog_case(input, DIR),
        "bigprog" => run_bigprog_case(input, DIR),
        "sorted" => run_sorted_case(input, DIR),
        "failfast" => run_failfast_case(input, DIR),
        "branch" => run_branch_case(input, DIR),
        _ => serde_json::json!(["invalid"]),
    }
}

fn main() {
    drive(&generate, &run);
}
