//! C07: joins return exactly the relational join of their two inputs.
//! Programs contain the REAL join_inner / join_left / join_right / join_full (right side:
//! `from_vec` on the same pipeline + its own chain); the judge is Corr/C07.v.
use ibv::engine::*;
use ibv::{Emitter, SplitMix64, Tier, drive};
use serde_json::Value;

const DIR: &str = "/verif/run/C07";
const KINDS: [JoinKind; 4] = [JoinKind::Inner, JoinKind::Left, JoinKind::Right, JoinKind::Full];

fn kv(k: i64, v: i64) -> Val {
    pair(Val::Int(k), Val::Int(v))
}

/// right inputs: empty, disjoint from every pattern, overlapping with duplicates, one heavy key
fn rights() -> Vec<Vec<Val>> {
    vec![
        vec![],
        vec![kv(100, 1), kv(101, 2), kv(100, 3)],
        vec![kv(0, 5), kv(1, 6), kv(1, 7), kv(0, 8), kv(7, 1), kv(50, 2)],
        vec![kv(0, 1), kv(0, 2), kv(0, 3), kv(0, 4), kv(7, 9), kv(7, 9)],
        vec![kv(2, 0)],
        // keys that are UNEQUAL to the left side's small keys but share their hash (the harness's
        // Val hashes integers modulo 16), next to really equal ones
        vec![kv(16, 1), kv(17, 2), kv(1, 3), kv(32, 4), kv(48, 5), kv(2, 6), kv(18, 7), kv(-15, 8)],
    ]
}

/// (left source shape, steps) for join kind `kind` and right input `r`
fn sweep_programs(kind: JoinKind, r: &[Val]) -> Vec<(Shape, Vec<Step>)> {
    let j = |rs: Vec<Step>| Step::Join(kind, rs, r.to_vec());
    vec![
        (Shape::KV, vec![j(vec![])]),
        (Shape::KV, vec![Step::MapValues(EFun::Add(1)), Step::Filter(PFun::Lt(3)),
                         j(vec![Step::FilterValues(PFun::Not(Box::new(PFun::ModEq(2, 0))))])]),
        (Shape::KV, vec![Step::GroupByKey, Step::GroupsToList,
                         j(vec![Step::CombineValues(Cid::Sum)])]),
        (Shape::KV, vec![Step::CombineValues(Cid::Count),
                         j(vec![Step::GroupByKey, Step::CombineValuesLifted(Cid::TopK(2)),
                                Step::GroupsToList])]),
        (Shape::KV, vec![j(vec![]), Step::MapValues(EFun::Fst), Step::CombineValues(Cid::Count)]),
        (Shape::U, vec![Step::KeyBy(EFun::Mod(3)), j(vec![Step::DistinctPerKey]), Step::Unkey,
                        Step::Map(EFun::Snd)]),
        (Shape::KV, vec![j(vec![]), Step::GroupByKey]),
        // a join fed by a join: must be rejected
        (Shape::KV, vec![j(vec![]), j(vec![])]),
        (Shape::KV, vec![j(vec![Step::Join(JoinKind::Inner, vec![], vec![kv(0, 0)])])]),
    ]
}

fn generate(seed: u64, tier: Tier, em: &mut Emitter) {
    let mut rng = SplitMix64::new(seed ^ 0xC07);
    let rs = rights();
    sweep_grid(|n, parts, idx| {
        let mode = parts.map_or(Mode::Seq, Mode::Par);
        let nprog = sweep_programs(JoinKind::Inner, &[]).len();
        let combos = KINDS.len() * rs.len() * nprog;
        let per_point = if tier == Tier::Quick { 3 } else { 10 };
        for t in 0..per_point {
            let c = (idx * 11 + t * 61) % combos;
            let kind = KINDS[c % 4];
            let r = &rs[(c / 4) % rs.len()];
            let (shape, steps) = &sweep_programs(kind, r)[c / (4 * rs.len())];
            let src = sweep_src(*shape, n, idx + t, &mut rng);
            emit_prog(em, &src, steps, mode, true, &["sweep", kind.name()]);
        }
    });
    // empty / non-empty sides in all combinations, every kind, both modes
    for kind in KINDS {
        for l in [vec![], vec![kv(1, 1)], vec![kv(1, 1), kv(1, 2), kv(2, 3)], vec![kv(1, 1), kv(17, 2), kv(33, 3)]] {
            for r in [vec![], vec![kv(1, 7)], vec![kv(1, 7), kv(1, 8), kv(3, 9)], vec![kv(17, 7), kv(49, 8), kv(-15, 9)]] {
                for mode in [Mode::Seq, Mode::Par(0), Mode::Par(2), Mode::Par(5)] {
                    let src = Src::Vec(Shape::KV, l.clone());
                    emit_prog(em, &src, &[Step::Join(kind, vec![], r.clone())], mode, true,
                              &["sweep", "sides", kind.name()]);
                }
            }
        }
    }
    // every barrier kind on either side of the join, several partitions per side
    for (src, steps, parts) in join_side_barrier_cases(&mut rng, tier != Tier::Quick) {
        emit_prog(em, &src, &steps, Mode::Par(parts), true, &["sweep", "join_side_barrier"]);
    }
    // a barrier-free side some of whose partitions are emptied by an upstream filter
    for (src, steps, parts, pat) in emptied_join_cases(tier != Tier::Quick) {
        emit_prog(em, &src, &steps, Mode::Par(parts), true, &["sweep", "emptied_partition", pat]);
        if parts == 3 {
            emit_prog(em, &src, &steps, Mode::Seq, true, &["sweep", "emptied_partition", pat]);
        }
    }
    // more than 64 effective partitions on the left side of a join (thorough only)
    for (src, steps, parts) in many_partition_cases(tier != Tier::Quick) {
        if steps.iter().any(|s| matches!(s, Step::Join(..))) {
            emit_prog(em, &src, &steps, Mode::Par(parts), true, &["sweep", "many_partitions"]);
        }
    }
    let mut rng = seed_mix(seed, 0xC07_0002);
    let count = if tier == Tier::Quick { 800 } else { 7000 };
    let mut made = 0;
    while made < count {
        let n = gen_len(&mut rng);
        let src = gen_src(&mut rng, n, true, true);
        let parts = gen_parts(&mut rng, src.len());
        let mut o = GenOpts::all();
        o.joins = false;
        if rng.chance(1, 2) {
            o.barriers = false;
        }
        let nsteps = rng.below(7) as usize;
        let Some((mut steps, sim)) = gen_prefix_to(&mut rng, &src, &o, nsteps, parts, Shape::KV) else {
            continue;
        };
        let mut side = GenOpts::all();
        side.joins = false;
        let join = gen_join(&mut rng, &sim, &side, parts);
        let Some(mut sim) = push_step(&mut steps, &sim, join) else { continue };
        if rng.chance(1, 2) {
            let mut down = GenOpts::all();
            down.joins = rng.chance(1, 8);
            for _ in 0..rng.range(1, 4) {
                let Some((s, _)) = gen_step(&mut rng, &sim, &down, parts) else { break };
                match push_step(&mut steps, &sim, s) {
                    Some(next) => sim = next,
                    None => break,
                }
            }
        }
        let mode = if rng.chance(1, 4) { Mode::Seq } else { Mode::Par(parts) };
        let mode = maybe_auto(&mut rng, &steps, mode, 8);
        emit_prog(em, &src, &steps, mode, true, &["random"]);
        made += 1;
    }
}

fn run(kind: &str, input: &Value) -> Value {
    match kind {
        "prog" => run_prog_case(input, DIR),
        _ => serde_json::json!(["invalid"]),
    }
}

fn main() {
    drive(&generate, &run);
}
