//! C06: built-in combiners are mergeable (any split and merge order equals the fold).
//! Runs the REAL `CombineFn::{create, add_input, merge, finish}` and
//! `LiftableCombiner::build_from_group` of Count, Sum, Min, Max, AverageF64, DistinctCount,
//! DistinctSet and TopK directly (no pipeline), on merge trees / accumulator expressions.
//!
//! kinds
//!   "sweep": in = [values, maxparts, den]; for every configuration (combiner ids 0..6, then TopK
//!            with k = 0..n+1) one run-length encoded row of the finish outcomes over ALL trees:
//!            parts = 1..maxparts, every ordered split into that many parts (empty parts included,
//!            first part's length slowest), leaf mode 0 (add_input) / 1 (build_from_group) /
//!            2 (even parts build, odd parts add), merge order left-nested then right-nested.
//!   "expr":  in = [cid, k, den, expr]; expr = [0] create | [1, e, v] add_input | [2, l, r] merge
//!            | [3, vs] build_from_group | [4, vs] create + add_input each; out = finish outcome.
//!            cid 8 = KMVApproxDistinctCount::new(k): out = [finish of expr, finish of the fold].
//!   "fsweep": non-finite floats.  in = [codes, maxparts]; a value code is 100 = NaN, 101 = +inf,
//!            102 = -inf, 103 = -0.0, any other c = the finite double c/2 (0 = +0.0).  One RLE row
//!            (same tree enumeration as "sweep") for each of AverageF64 over f64, Sum<f64>,
//!            Min<OrdF64>, Max<OrdF64>.  A float outcome is its CLASS "nan" | "pinf" | "ninf", or
//!            {"f": hex bits} when finite (null = finish panicked).
//!   "big":   large groups, compactly described.  in = [cid, k, den, ty, expr]; expr as in "expr" plus
//!            [5, g] build_from_group over generated values | [6, g] create + add_input of each
//!            generated value | [7, g, psize, mode, nest] the generated values cut into consecutive
//!            chunks of psize values, chunk i a leaf (mode 0 add / 1 build / 2 even chunks build),
//!            leaves merged left-nested (nest 0) / right-nested (1) / balanced (2);
//!            g = [start, n, a, b, m, off] stands for ((a*i + b) mod m) + off, i = start..start+n-1.
//!            ty = element type 0: i64 (AverageF64: f64 = v/den), 1: u64 (AverageF64: u32),
//!            2: i32.  The expression is evaluated TWICE on the same combiner instance;
//!            out = [first, second], each an outcome as in "expr" except that DistinctSet / TopK
//!            outputs are digests [len, polynomial hash mod 2^61-1] (DistinctSet sorted first).
//!   "fbig":  large groups with non-finite floats.  in = [g, specials, psize, mode, nest]: value
//!            codes (as in "fsweep") from the generator g, then code `c` written at index `i` for
//!            every [i, c] of specials; cut into chunks of psize, leaf mode, nesting as in tag 7 of
//!            "big".  out = [AverageF64, Sum<f64>, Min<OrdF64>, Max<OrdF64>] outcomes as in "fsweep".
//!   "ovf":   Sum over bounded integer types.  in = [ty, expr]; ty 0 i8, 1 u8, 2 i32, 3 u32 with the
//!            overflow-checked `+` of this (debug) build, 10..13 the same types inside
//!            std::num::Wrapping (what a release build's `+` does); out = the sum, or "panic" when
//!            any create/add_input/merge/build_from_group/finish panicked.
//! outcome: integer | null (finish panicked) | {"f": hex} | sorted int array (DistinctSet) |
//!          int array as returned (TopK).  AverageF64 values are v/den (den a power of two).
use ibv::{Emitter, SplitMix64, Tier, drive};
use ironbeam::collection::{CombineFn, Count, LiftableCombiner};
use ironbeam::utils::OrdF64;
use ironbeam::combiners::{
    AverageF64, DistinctCount, DistinctSet, KMVApproxDistinctCount, Max, Min, Sum, TopK,
};
use serde_json::{Value, json};
use std::panic::{AssertUnwindSafe, catch_unwind};

/// exact hexadecimal rendering of an f64 (Coq reads hex float literals exactly)
fn hexf(x: f64) -> Value {
    let bits = x.to_bits();
    let neg = bits >> 63 == 1;
    let exp = ((bits >> 52) & 0x7ff) as i64;
    let man = bits & ((1u64 << 52) - 1);
    let body = if exp == 0x7ff {
        if man == 0 { "infinity".to_string() } else { "nan".to_string() }
    } else if exp == 0 {
        if man == 0 { "0x0p+0".to_string() } else { format!("0x0.{man:013x}p-1022") }
    } else {
        let e = exp - 1023;
        format!("0x1.{man:013x}p{}{}", if e < 0 { "-" } else { "+" }, e.abs())
    };
    json!({"f": if neg { format!("(-{body})") } else { body }})
}

/// structural rendering of a float outcome: class, and the exact bits only when finite
fn enc_fclass(x: f64) -> Value {
    if x.is_nan() {
        json!("nan")
    } else if x == f64::INFINITY {
        json!("pinf")
    } else if x == f64::NEG_INFINITY {
        json!("ninf")
    } else {
        hexf(x)
    }
}
fn enc_ordf(x: OrdF64) -> Value {
    enc_fclass(x.0)
}
/// value code -> f64 (see the module doc)
fn code_f64(c: i64) -> f64 {
    match c {
        100 => f64::NAN,
        101 => f64::INFINITY,
        102 => f64::NEG_INFINITY,
        103 => -0.0,
        _ => (c as f64) / 2.0,
    }
}
fn code_ordf(c: i64) -> OrdF64 {
    OrdF64(code_f64(c))
}

fn ints(v: &Value) -> Vec<i64> {
    v.as_array().unwrap().iter().map(|x| x.as_i64().unwrap()).collect()
}

// ---------------------------------------------------------------- splits (canonical order)
fn splits(p: usize, l: &[i64]) -> Vec<Vec<Vec<i64>>> {
    if p == 0 {
        return vec![];
    }
    if p == 1 {
        return vec![vec![l.to_vec()]];
    }
    let mut out = Vec::new();
    for i in 0..=l.len() {
        for rest in splits(p - 1, &l[i..]) {
            let mut s = vec![l[..i].to_vec()];
            s.extend(rest);
            out.push(s);
        }
    }
    out
}

fn lifted_of(mode: usize, i: usize) -> bool {
    match mode {
        0 => false,
        1 => true,
        _ => i % 2 == 0,
    }
}

fn leaf<V: Clone + Send + Sync + 'static, A, O, C: LiftableCombiner<V, A, O>>(
    c: &C,
    lifted: bool,
    part: &[V],
) -> A {
    if lifted {
        c.build_from_group(part)
    } else {
        let mut acc = c.create();
        for v in part {
            c.add_input(&mut acc, v.clone());
        }
        acc
    }
}

fn finish_caught<V, A, O, C: CombineFn<V, A, O>>(c: &C, acc: A, enc: &dyn Fn(O) -> Value) -> Value {
    match catch_unwind(AssertUnwindSafe(|| c.finish(acc))) {
        Ok(o) => enc(o),
        Err(_) => Value::Null,
    }
}

/// one RLE row: finish outcome of every tree over `vals`, canonical order
fn sweep_row<V: Clone + Send + Sync + 'static, A, O, C: LiftableCombiner<V, A, O>>(
    c: &C,
    all_splits: &[Vec<Vec<i64>>],
    conv: &dyn Fn(i64) -> V,
    enc: &dyn Fn(O) -> Value,
) -> Value {
    let mut runs: Vec<(u64, Value)> = Vec::new();
    let mut push = |o: Value| match runs.last_mut() {
        Some((n, last)) if *last == o => *n += 1,
        _ => runs.push((1, o)),
    };
    for parts in all_splits {
        let parts: Vec<Vec<V>> = parts.iter().map(|p| p.iter().map(|x| conv(*x)).collect()).collect();
        for mode in 0..3 {
            // left-nested: ((p0 + p1) + p2) + p3
            let mut accs: Vec<A> =
                parts.iter().enumerate().map(|(i, p)| leaf(c, lifted_of(mode, i), p)).collect();
            let mut it = accs.drain(..);
            let mut acc = it.next().unwrap();
            for a in it {
                c.merge(&mut acc, a);
            }
            push(finish_caught(c, acc, enc));
            // right-nested: p0 + (p1 + (p2 + p3))
            let mut accs: Vec<A> =
                parts.iter().enumerate().map(|(i, p)| leaf(c, lifted_of(mode, i), p)).collect();
            let mut acc = accs.pop().unwrap();
            while let Some(mut a) = accs.pop() {
                c.merge(&mut a, acc);
                acc = a;
            }
            push(finish_caught(c, acc, enc));
        }
    }
    Value::Array(runs.into_iter().map(|(n, o)| json!([n, o])).collect())
}

fn eval_expr<V: Clone + Send + Sync + 'static, A, O, C: LiftableCombiner<V, A, O>>(
    c: &C,
    e: &Value,
    conv: &dyn Fn(i64) -> V,
) -> A {
    let tag = e[0].as_i64().unwrap();
    match tag {
        0 => c.create(),
        1 => {
            let mut a = eval_expr(c, &e[1], conv);
            c.add_input(&mut a, conv(e[2].as_i64().unwrap()));
            a
        }
        2 => {
            let mut a = eval_expr(c, &e[1], conv);
            let b = eval_expr(c, &e[2], conv);
            c.merge(&mut a, b);
            a
        }
        3 => {
            let vs: Vec<V> = ints(&e[1]).into_iter().map(conv).collect();
            c.build_from_group(&vs)
        }
        4 => {
            let mut a = c.create();
            for x in ints(&e[1]) {
                c.add_input(&mut a, conv(x));
            }
            a
        }
        5 => {
            let vs: Vec<V> = gen_vals(&e[1]).into_iter().map(conv).collect();
            c.build_from_group(&vs)
        }
        6 => {
            let mut a = c.create();
            for x in gen_vals(&e[1]) {
                c.add_input(&mut a, conv(x));
            }
            a
        }
        7 => {
            let vs: Vec<V> = gen_vals(&e[1]).into_iter().map(conv).collect();
            let psize = (e[2].as_u64().unwrap() as usize).max(1);
            chunked_eval(c, &vs, psize, e[3].as_u64().unwrap() as usize, e[4].as_u64().unwrap())
        }
        _ => panic!("bad expr tag"),
    }
}

/// the values cut into chunks of psize, chunk i a leaf (lifted per mode), merged per nest
fn chunked_eval<V: Clone + Send + Sync + 'static, A, O, C: LiftableCombiner<V, A, O>>(
    c: &C,
    vs: &[V],
    psize: usize,
    mode: usize,
    nest: u64,
) -> A {
    let mut leaves: Vec<A> = vs.chunks(psize).enumerate().map(|(i, p)| leaf(c, lifted_of(mode, i), p)).collect();
    if leaves.is_empty() {
        return c.create();
    }
    match nest {
        0 => {
            let mut it = leaves.drain(..);
            let mut acc = it.next().unwrap();
            for a in it {
                c.merge(&mut acc, a);
            }
            acc
        }
        1 => {
            let mut acc = leaves.pop().unwrap();
            while let Some(mut a) = leaves.pop() {
                c.merge(&mut a, acc);
                acc = a;
            }
            acc
        }
        _ => balanced(c, leaves),
    }
}

/// balanced merge tree: the first ceil(n/2) leaves against the rest, recursively
fn balanced<V: Clone + Send + Sync + 'static, A, O, C: LiftableCombiner<V, A, O>>(c: &C, mut leaves: Vec<A>) -> A {
    if leaves.len() == 1 {
        return leaves.pop().unwrap();
    }
    let h = (leaves.len() + 1) / 2;
    let right = leaves.split_off(h);
    let mut l = balanced(c, leaves);
    let r = balanced(c, right);
    c.merge(&mut l, r);
    l
}

/// g = [start, n, a, b, m, off] -> ((a*i + b) mod m) + off for i = start..start+n-1
fn gen_vals(g: &Value) -> Vec<i64> {
    let p = ints(g);
    let (start, n, a, b, m, off) = (p[0], p[1], p[2], p[3], p[4], p[5]);
    assert!(m >= 1 && (0..=200_000).contains(&n) && start >= 0);
    (start..start + n)
        .map(|i| ((a as i128 * i as i128 + b as i128).rem_euclid(m as i128) + off as i128) as i64)
        .collect()
}

/// [len, polynomial hash mod 2^61-1] of a list output
fn digest(v: &Value) -> Value {
    match v.as_array() {
        Some(a) if a.iter().all(Value::is_i64) || a.iter().all(Value::is_u64) => {
            const P: i128 = (1i128 << 61) - 1;
            let mut h: i128 = 0;
            for x in a {
                let x = x.as_i64().map(|x| x as i128).unwrap_or_else(|| x.as_u64().unwrap() as i128);
                h = (h * 1_000_003 + x.rem_euclid(P)) % P;
            }
            json!([a.len(), h as i64])
        }
        _ => v.clone(),
    }
}

fn enc_int(x: i64) -> Value {
    json!(x)
}
fn enc_u64(x: u64) -> Value {
    json!(x)
}
fn enc_vec(v: Vec<i64>) -> Value {
    json!(v)
}
fn enc_sorted(mut v: Vec<i64>) -> Value {
    v.sort_unstable();
    json!(v)
}
fn id(x: i64) -> i64 {
    x
}


// ---------------------------------------------------------------- sensitivity self-test
// `C06_MUTANT=<name> python3 check.py C06` must exit 1: the named combiner is replaced by a copy
// of the /repo source with one realistic slip.  Never set in a normal run.
mod mutants {
    use ironbeam::collection::{CombineFn, LiftableCombiner};
    use std::cmp::Reverse;
    use std::collections::{BinaryHeap, HashSet};

    pub struct MTopK {
        pub k: usize,
        pub m: &'static str,
    }
    type Heap = BinaryHeap<Reverse<i64>>;
    impl CombineFn<i64, Heap, Vec<i64>> for MTopK {
        fn create(&self) -> Heap {
            BinaryHeap::new()
        }
        fn add_input(&self, acc: &mut Heap, v: i64) {
            acc.push(Reverse(v));
            let over = if self.m == "topk_add_ge" { acc.len() >= self.k } else { acc.len() > self.k };
            if over {
                acc.pop();
            }
        }
        fn merge(&self, acc: &mut Heap, other: Heap) {
            if self.m == "topk_merge_big_other" && other.len() >= 100 && acc.len() == self.k {
                // "a full accumulator only needs the other side's best 100"
                let mut v: Vec<i64> = other.into_iter().map(|Reverse(x)| x).collect();
                v.sort_unstable();
                let keep: Vec<i64> = v.into_iter().rev().take(100).collect();
                for x in keep {
                    acc.push(Reverse(x));
                    acc.pop();
                }
                return;
            }
            let fits = match self.m {
                "topk_fast_plus1" => acc.len() + other.len() <= self.k + 1,
                "topk_fast_only_acc" => acc.len() <= self.k,
                _ => acc.len() + other.len() <= self.k,
            };
            if fits {
                acc.extend(other);
                return;
            }
            let mut v1: Vec<i64> = Vec::new();
            let mut v2: Vec<i64> = Vec::new();
            while let Some(Reverse(x)) = acc.pop() {
                v1.push(x);
            }
            v1.reverse();
            for Reverse(x) in other {
                v2.push(x);
            }
            v2.sort_unstable();
            if self.m != "topk_no_reverse_v2" {
                v2.reverse();
            }
            let (mut i, mut j) = (0, 0);
            let mut result = BinaryHeap::with_capacity(self.k);
            let limit = if self.m == "topk_loop_le" { self.k + 1 } else { self.k };
            while result.len() < limit && (i < v1.len() || j < v2.len()) {
                let take1 = if self.m == "topk_cmp_le" {
                    j >= v2.len() || (i < v1.len() && v1[i] <= v2[j])
                } else {
                    j >= v2.len() || (i < v1.len() && v1[i] >= v2[j])
                };
                let val = if i >= v1.len() {
                    j += 1;
                    v2[j - 1]
                } else if take1 {
                    i += 1;
                    v1[i - 1]
                } else {
                    j += 1;
                    v2[j - 1]
                };
                result.push(Reverse(val));
                if self.m == "topk_skip_tie" && i < v1.len() && j < v2.len() && v1[i] == v2[j] {
                    j += 1; // "dedupe" equal heads
                }
            }
            *acc = result;
        }
        fn finish(&self, mut acc: Heap) -> Vec<i64> {
            let mut v = Vec::new();
            while let Some(Reverse(x)) = acc.pop() {
                v.push(x);
            }
            if self.m != "topk_finish_asc" {
                v.reverse();
            }
            v
        }
    }
    impl LiftableCombiner<i64, Heap, Vec<i64>> for MTopK {
        fn build_from_group(&self, values: &[i64]) -> Heap {
            let mut heap: Heap = BinaryHeap::new();
            if self.m == "topk_build_big_dedup" && values.len() >= 256 {
                // "order the group once" for big groups, with a dedup that does not belong there
                let mut v = values.to_vec();
                v.sort_unstable();
                v.dedup();
                return v.into_iter().rev().take(self.k).map(Reverse).collect();
            }
            for v in values.iter().cloned() {
                heap.push(Reverse(v));
                if self.m != "topk_build_unbounded" && heap.len() > self.k {
                    heap.pop();
                }
            }
            heap
        }
    }

    pub struct MMin(pub &'static str);
    impl CombineFn<i64, Option<i64>, i64> for MMin {
        fn create(&self) -> Option<i64> {
            None
        }
        fn add_input(&self, acc: &mut Option<i64>, v: i64) {
            match acc {
                Some(cur) => {
                    if v < *cur {
                        *cur = v;
                    }
                }
                None => *acc = Some(v),
            }
        }
        fn merge(&self, acc: &mut Option<i64>, other: Option<i64>) {
            if let Some(b) = other {
                match acc {
                    Some(a) => {
                        if b < *a {
                            *a = b;
                        }
                    }
                    None => {
                        if self.0 != "min_merge_drop_none" {
                            *acc = Some(b);
                        }
                    }
                }
            }
        }
        fn finish(&self, acc: Option<i64>) -> i64 {
            if self.0 == "min_finish_default" {
                return acc.unwrap_or_default();
            }
            acc.expect("empty")
        }
    }
    impl LiftableCombiner<i64, Option<i64>, i64> for MMin {
        fn build_from_group(&self, values: &[i64]) -> Option<i64> {
            if self.0 == "min_build_first" {
                return values.first().copied();
            }
            if self.0 == "min_build_chunks" && values.len() >= 128 {
                // chunked scan of a big group that forgets the remainder
                return values.chunks_exact(16).map(|c| *c.iter().min().unwrap()).min();
            }
            values.iter().cloned().min()
        }
    }

    pub struct MAvg(pub &'static str);
    impl CombineFn<f64, (f64, u64), f64> for MAvg {
        fn create(&self) -> (f64, u64) {
            (0.0, 0)
        }
        fn add_input(&self, acc: &mut (f64, u64), v: f64) {
            acc.0 += v;
            acc.1 += 1;
        }
        fn merge(&self, acc: &mut (f64, u64), other: (f64, u64)) {
            acc.0 += other.0;
            acc.1 += if self.0 == "avg_merge_count1" { 1 } else { other.1 };
        }
        fn finish(&self, acc: (f64, u64)) -> f64 {
            if acc.1 == 0 {
                0.0
            } else if self.0 == "avg_mean_of_means" {
                acc.0 / (acc.1 as f64) * 1.0000000000000002
            } else {
                acc.0 / (acc.1 as f64)
            }
        }
    }
    impl LiftableCombiner<f64, (f64, u64), f64> for MAvg {
        fn build_from_group(&self, values: &[f64]) -> (f64, u64) {
            if self.0 == "avg_build_skip_nonfinite" {
                let kept: Vec<f64> = values.iter().copied().filter(|v| v.is_finite()).collect();
                return (kept.iter().sum(), kept.len() as u64);
            }
            if self.0 == "avg_build_f32" && values.len() >= 512 {
                // big groups summed in single precision
                let s: f32 = values.iter().map(|v| *v as f32).sum();
                return (s as f64, values.len() as u64);
            }
            (values.iter().sum(), values.len() as u64)
        }
    }

    pub struct MSum(pub &'static str);
    impl CombineFn<i64, i64, i64> for MSum {
        fn create(&self) -> i64 {
            0
        }
        fn add_input(&self, acc: &mut i64, v: i64) {
            *acc += v;
        }
        fn merge(&self, acc: &mut i64, other: i64) {
            *acc += other;
        }
        fn finish(&self, acc: i64) -> i64 {
            acc
        }
    }
    impl LiftableCombiner<i64, i64, i64> for MSum {
        fn build_from_group(&self, values: &[i64]) -> i64 {
            if self.0 == "sum_build_lanes" && values.len() >= 64 {
                // 8 independent lanes; the remainder of chunks_exact is never added
                let mut lanes = [0i64; 8];
                for chunk in values.chunks_exact(8) {
                    for (l, v) in lanes.iter_mut().zip(chunk) {
                        *l += *v;
                    }
                }
                return lanes.iter().sum();
            }
            if self.0 == "sum_build_pairwise" && values.len() > 1024 {
                // pairwise summation of a big group with an off-by-one split
                let h = values.len() / 2;
                return self.build_from_group(&values[..h]) + self.build_from_group(&values[h + 1..]);
            }
            values.iter().sum()
        }
    }

    pub struct MDistinct(pub &'static str);
    impl CombineFn<i64, HashSet<i64>, Vec<i64>> for MDistinct {
        fn create(&self) -> HashSet<i64> {
            HashSet::new()
        }
        fn add_input(&self, acc: &mut HashSet<i64>, v: i64) {
            acc.insert(v);
        }
        fn merge(&self, acc: &mut HashSet<i64>, other: HashSet<i64>) {
            let replace = if self.0 == "distinct_merge_other_empty" { other.is_empty() } else { acc.is_empty() };
            if replace {
                *acc = other;
            } else {
                acc.extend(other);
            }
        }
        fn finish(&self, acc: HashSet<i64>) -> Vec<i64> {
            acc.into_iter().collect()
        }
    }
    impl LiftableCombiner<i64, HashSet<i64>, Vec<i64>> for MDistinct {
        fn build_from_group(&self, values: &[i64]) -> HashSet<i64> {
            if self.0 == "distinct_build_cap" {
                // pre-sized table that silently stops at its capacity
                return values.iter().take(1024).cloned().collect();
            }
            values.iter().cloned().collect()
        }
    }

    pub struct MCount(pub &'static str);
    impl CombineFn<i64, u64, u64> for MCount {
        fn create(&self) -> u64 {
            0
        }
        fn add_input(&self, acc: &mut u64, _v: i64) {
            *acc += 1;
        }
        fn merge(&self, acc: &mut u64, other: u64) {
            *acc += if self.0 == "count_merge_one" { 1 } else { other };
        }
        fn finish(&self, acc: u64) -> u64 {
            acc
        }
    }
    impl LiftableCombiner<i64, u64, u64> for MCount {
        fn build_from_group(&self, values: &[i64]) -> u64 {
            if self.0 == "count_build_u16" {
                return values.len() as u16 as u64;
            }
            if self.0 == "count_build_distinct" {
                return values.iter().collect::<HashSet<_>>().len() as u64;
            }
            values.len() as u64
        }
    }
}

fn mutant() -> &'static str {
    static M: std::sync::OnceLock<String> = std::sync::OnceLock::new();
    M.get_or_init(|| std::env::var("C06_MUTANT").unwrap_or_default())
}

/// dispatch on the combiner id
macro_rules! with_combiner {
    ($cid:expr, $k:expr, $den:expr, $f:ident, $($arg:expr),*) => {{
        let den = $den as f64;
        let m = mutant();
        match $cid {
            0 if m.starts_with("count_") => $f(&mutants::MCount(m), $($arg,)* &id, &enc_u64),
            1 if m.starts_with("sum_") => $f(&mutants::MSum(m), $($arg,)* &id, &enc_int),
            2 if m.starts_with("min_") => $f(&mutants::MMin(m), $($arg,)* &id, &enc_int),
            4 if m.starts_with("avg_") => $f(&mutants::MAvg(m), $($arg,)* &move |x: i64| (x as f64) / den, &hexf),
            6 if m.starts_with("distinct_") => $f(&mutants::MDistinct(m), $($arg,)* &id, &enc_sorted),
            7 if m.starts_with("topk_") => $f(&mutants::MTopK { k: $k, m }, $($arg,)* &id, &enc_vec),
            0 => $f(&Count, $($arg,)* &id, &enc_u64),
            1 => $f(&Sum::<i64>::new(), $($arg,)* &id, &enc_int),
            2 => $f(&Min::<i64>::new(), $($arg,)* &id, &enc_int),
            3 => $f(&Max::<i64>::new(), $($arg,)* &id, &enc_int),
            4 => $f(&AverageF64, $($arg,)* &move |x: i64| (x as f64) / den, &hexf),
            5 => $f(&DistinctCount::<i64>::new(), $($arg,)* &id, &enc_u64),
            6 => $f(&DistinctSet::<i64>::new(), $($arg,)* &id, &enc_sorted),
            7 => $f(&TopK::<i64>::new($k), $($arg,)* &id, &enc_vec),
            _ => panic!("bad combiner id"),
        }
    }};
}

fn expr_out<V: Clone + Send + Sync + 'static, A, O, C: LiftableCombiner<V, A, O>>(
    c: &C,
    e: &Value,
    conv: &dyn Fn(i64) -> V,
    enc: &dyn Fn(O) -> Value,
) -> Value {
    let acc = eval_expr(c, e, conv);
    finish_caught(c, acc, enc)
}

/// the values that went into an expression (same order as Coq's `avalues`)
fn expr_values(e: &Value, out: &mut Vec<i64>) {
    match e[0].as_i64().unwrap() {
        0 => {}
        1 => {
            out.push(e[2].as_i64().unwrap());
            expr_values(&e[1], out);
        }
        2 => {
            expr_values(&e[1], out);
            expr_values(&e[2], out);
        }
        3 | 4 => out.extend(ints(&e[1])),
        _ => out.extend(gen_vals(&e[1])),
    }
}

/// Sum<T> over a bounded integer type; a panic anywhere (overflow check) is the outcome "panic"
fn ovf_out<T>(e: &Value, conv: &dyn Fn(i64) -> T, enc: &dyn Fn(T) -> i64) -> Value
where
    T: Clone + Send + Sync + 'static + std::ops::Add<Output = T> + Default,
{
    match catch_unwind(AssertUnwindSafe(|| {
        let c = Sum::<T>::new();
        let acc = eval_expr(&c, e, conv);
        enc(c.finish(acc))
    })) {
        Ok(z) => json!(z),
        Err(_) => json!("panic"),
    }
}

/// evaluate the expression twice on the SAME combiner instance
fn big_out<V: Clone + Send + Sync + 'static, A, O, C: LiftableCombiner<V, A, O>>(
    c: &C,
    e: &Value,
    conv: &dyn Fn(i64) -> V,
    enc: &dyn Fn(O) -> Value,
) -> Value {
    let o1 = digest(&expr_out(c, e, conv, enc));
    let o2 = digest(&expr_out(c, e, conv, enc));
    json!([o1, o2])
}

/// the built-ins instantiated at another element type (big cases with ty = 1, 2)
macro_rules! with_typed {
    ($T:ty, $A:ty, $cid:expr, $k:expr, $f:ident, $($arg:expr),*) => {{
        let conv = |x: i64| x as $T;
        let enc1 = |o: $T| json!(o);
        let encc = |o: u64| json!(o);
        let encv = |o: Vec<$T>| json!(o);
        let encs = |mut o: Vec<$T>| {
            o.sort_unstable();
            json!(o)
        };
        match $cid {
            // the Default twins of the `new` constructors
            0 => $f(&Count::default(), $($arg,)* &conv, &encc),
            1 => $f(&Sum::<$T>::default(), $($arg,)* &conv, &enc1),
            2 => $f(&Min::<$T>::default(), $($arg,)* &conv, &enc1),
            3 => $f(&Max::<$T>::default(), $($arg,)* &conv, &enc1),
            4 => $f(&AverageF64::default(), $($arg,)* &|x: i64| x as $A, &hexf),
            5 => $f(&DistinctCount::<$T>::default(), $($arg,)* &conv, &encc),
            6 => $f(&DistinctSet::<$T>::default(), $($arg,)* &conv, &encs),
            7 => $f(&TopK::<$T>::new($k), $($arg,)* &conv, &encv),
            _ => panic!("bad combiner id"),
        }
    }};
}

fn run(kind: &str, input: &Value) -> Value {
    match kind {
        "sweep" => {
            let vals = ints(&input[0]);
            let maxparts = input[1].as_u64().unwrap() as usize;
            let den = input[2].as_i64().unwrap();
            let mut all: Vec<Vec<Vec<i64>>> = Vec::new();
            for p in 1..=maxparts {
                all.extend(splits(p, &vals));
            }
            let mut rows = Vec::new();
            for cid in 0..7 {
                rows.push(with_combiner!(cid, 0usize, den, sweep_row, &all));
            }
            for k in 0..=vals.len() + 1 {
                rows.push(with_combiner!(7, k, den, sweep_row, &all));
            }
            Value::Array(rows)
        }
        "fsweep" => {
            let codes = ints(&input[0]);
            let maxparts = input[1].as_u64().unwrap() as usize;
            let mut all: Vec<Vec<Vec<i64>>> = Vec::new();
            for p in 1..=maxparts {
                all.extend(splits(p, &codes));
            }
            let m = mutant();
            let avg = if m.starts_with("avg_") {
                sweep_row(&mutants::MAvg(m), &all, &code_f64, &enc_fclass)
            } else {
                sweep_row(&AverageF64, &all, &code_f64, &enc_fclass)
            };
            json!([
                avg,
                sweep_row(&Sum::<f64>::new(), &all, &code_f64, &enc_fclass),
                sweep_row(&Min::<OrdF64>::new(), &all, &code_ordf, &enc_ordf),
                sweep_row(&Max::<OrdF64>::new(), &all, &code_ordf, &enc_ordf),
            ])
        }
        "expr" => {
            let cid = input[0].as_i64().unwrap();
            let k = input[1].as_u64().unwrap() as usize;
            let den = input[2].as_i64().unwrap();
            if cid == 8 {
                // KMV: the expression's output next to the plain fold's (both exact f64 bits)
                let c = KMVApproxDistinctCount::<i64>::new(k);
                let t = expr_out(&c, &input[3], &id, &hexf);
                let mut vals = Vec::new();
                expr_values(&input[3], &mut vals);
                let f = expr_out(&c, &json!([4, vals]), &id, &hexf);
                return json!([t, f]);
            }
            with_combiner!(cid, k, den, expr_out, &input[3])
        }
        "fbig" => {
            let mut codes = gen_vals(&input[0]);
            for sp in input[1].as_array().unwrap() {
                let i = sp[0].as_u64().unwrap() as usize;
                codes[i] = sp[1].as_i64().unwrap();
            }
            let psize = (input[2].as_u64().unwrap() as usize).max(1);
            let mode = input[3].as_u64().unwrap() as usize;
            let nest = input[4].as_u64().unwrap();
            let fl: Vec<f64> = codes.iter().map(|c| code_f64(*c)).collect();
            let of: Vec<OrdF64> = codes.iter().map(|c| code_ordf(*c)).collect();
            let m = mutant();
            let avg = if m.starts_with("avg_") {
                let c = mutants::MAvg(m);
                finish_caught(&c, chunked_eval(&c, &fl, psize, mode, nest), &enc_fclass)
            } else {
                finish_caught::<f64, _, _, _>(&AverageF64, chunked_eval(&AverageF64, &fl, psize, mode, nest), &enc_fclass)
            };
            let cs = Sum::<f64>::new();
            let cmin = Min::<OrdF64>::new();
            let cmax = Max::<OrdF64>::new();
            json!([
                avg,
                finish_caught(&cs, chunked_eval(&cs, &fl, psize, mode, nest), &enc_fclass),
                finish_caught(&cmin, chunked_eval(&cmin, &of, psize, mode, nest), &enc_ordf),
                finish_caught(&cmax, chunked_eval(&cmax, &of, psize, mode, nest), &enc_ordf),
            ])
        }
        "ovf" => {
            use std::num::Wrapping as W;
            let e = &input[1];
            match input[0].as_i64().unwrap() {
                0 => ovf_out::<i8>(e, &|x| x as i8, &|o| o as i64),
                1 => ovf_out::<u8>(e, &|x| x as u8, &|o| o as i64),
                2 => ovf_out::<i32>(e, &|x| x as i32, &|o| o as i64),
                3 => ovf_out::<u32>(e, &|x| x as u32, &|o| o as i64),
                10 => ovf_out::<W<i8>>(e, &|x| W(x as i8), &|o| o.0 as i64),
                11 => ovf_out::<W<u8>>(e, &|x| W(x as u8), &|o| o.0 as i64),
                12 => ovf_out::<W<i32>>(e, &|x| W(x as i32), &|o| o.0 as i64),
                13 => ovf_out::<W<u32>>(e, &|x| W(x as u32), &|o| o.0 as i64),
                _ => json!(["bad-type"]),
            }
        }
        "big" => {
            let cid = input[0].as_i64().unwrap();
            let k = input[1].as_u64().unwrap() as usize;
            let den = input[2].as_i64().unwrap();
            let ty = input[3].as_i64().unwrap();
            let e = &input[4];
            if cid == 8 {
                let c = KMVApproxDistinctCount::<i64>::new(k);
                let mut vals = Vec::new();
                expr_values(e, &mut vals);
                let fold = json!([4, vals]);
                let mut outs = Vec::new();
                for _ in 0..2 {
                    let t = expr_out(&c, e, &id, &hexf);
                    let f = expr_out(&c, &fold, &id, &hexf);
                    outs.push(json!([t, f]));
                }
                return Value::Array(outs);
            }
            match ty {
                0 => with_combiner!(cid, k, den, big_out, e),
                1 => with_typed!(u64, u32, cid, k, big_out, e),
                2 => with_typed!(i32, i32, cid, k, big_out, e),
                _ => json!(["bad-type"]),
            }
        }
        _ => json!(["bad-kind"]),
    }
}

// ---------------------------------------------------------------- generation
fn all_seqs(syms: &[i64], maxlen: usize) -> Vec<Vec<i64>> {
    let mut out = vec![vec![]];
    let mut cur: Vec<Vec<i64>> = vec![vec![]];
    for _ in 0..maxlen {
        let mut next = Vec::new();
        for s in &cur {
            for x in syms {
                let mut t = s.clone();
                t.push(*x);
                next.push(t);
            }
        }
        out.extend(next.iter().cloned());
        cur = next;
    }
    out
}

/// number of values in an expression and whether some merge has values on both sides
fn expr_stats(e: &Value) -> (usize, bool) {
    match e[0].as_i64().unwrap() {
        0 => (0, false),
        1 => {
            let (n, m) = expr_stats(&e[1]);
            (n + 1, m)
        }
        2 => {
            let (a, ma) = expr_stats(&e[1]);
            let (b, mb) = expr_stats(&e[2]);
            (a + b, ma || mb || (a > 0 && b > 0))
        }
        3 | 4 => (e[1].as_array().unwrap().len(), false),
        5 | 6 => (e[1][1].as_u64().unwrap() as usize, false),
        _ => {
            let n = e[1][1].as_u64().unwrap() as usize;
            (n, n > (e[2].as_u64().unwrap() as usize).max(1))
        }
    }
}

fn random_expr(rng: &mut SplitMix64, vals: &[i64]) -> Value {
    // cut into 1..8 parts (empty parts allowed), shuffle the parts, build a random tree
    let nparts = 1 + rng.below(8) as usize;
    let mut cuts: Vec<usize> = (0..nparts - 1).map(|_| rng.below(vals.len() as u64 + 1) as usize).collect();
    cuts.sort_unstable();
    let mut parts: Vec<Vec<i64>> = Vec::new();
    let mut prev = 0;
    for c in cuts {
        parts.push(vals[prev..c].to_vec());
        prev = c;
    }
    parts.push(vals[prev..].to_vec());
    if rng.chance(1, 2) {
        for i in (1..parts.len()).rev() {
            let j = rng.below(i as u64 + 1) as usize;
            parts.swap(i, j);
        }
    }
    let mut nodes: Vec<Value> = parts
        .into_iter()
        .map(|p| match rng.below(4) {
            0 => json!([3, p]),
            1 => json!([4, p]),
            2 if p.is_empty() => json!([0]),
            2 => {
                // explicit add chain
                let mut e = json!([0]);
                for v in p {
                    e = json!([1, e, v]);
                }
                e
            }
            _ => {
                // built prefix, remaining values added afterwards
                let cut = rng.below(p.len() as u64 + 1) as usize;
                let mut e = json!([3, p[..cut].to_vec()]);
                for v in &p[cut..] {
                    e = json!([1, e, v]);
                }
                e
            }
        })
        .collect();
    // merge random adjacent pairs until one tree is left (every binary tree shape is reachable)
    while nodes.len() > 1 {
        let i = rng.below(nodes.len() as u64 - 1) as usize;
        let r = nodes.remove(i + 1);
        let l = std::mem::replace(&mut nodes[i], Value::Null);
        nodes[i] = json!([2, l, r]);
    }
    nodes.pop().unwrap()
}

fn emit_expr(em: &mut Emitter, cid: i64, k: usize, den: i64, e: Value, tags: &[&str]) {
    let (n, m) = expr_stats(&e);
    em.case("expr", json!([cid, k, den, e]), n >= 2 && m, tags);
}

fn generate(seed: u64, tier: Tier, em: &mut Emitter) {
    // 1. boundary cases for TopK's merge (fast path / two-pointer path), all k around the sizes
    let pairs: Vec<(Vec<i64>, Vec<i64>)> = vec![
        (vec![], vec![]),
        (vec![5], vec![]),
        (vec![], vec![5]),
        (vec![3, 1], vec![2]),
        (vec![2, 2], vec![2, 2]),
        (vec![1, 2, 3], vec![3, 2, 1]),
        (vec![5, 5, 1], vec![5, 4]),
        (vec![-1, -2], vec![-2, -3, 0]),
        (vec![7, 7, 7], vec![7]),
        (vec![1, 9], vec![8, 2, 8]),
    ];
    for (a, b) in &pairs {
        for k in 0..=a.len() + b.len() + 1 {
            for (la, lb) in [(4, 4), (3, 3), (4, 3), (3, 4)] {
                emit_expr(em, 7, k, 1, json!([2, [la, a], [lb, b]]), &["boundary", "topk"]);
            }
            // merge with a fresh accumulator on either side
            emit_expr(em, 7, k, 1, json!([2, [2, [4, a], [0]], [2, [0], [3, b]]]), &["boundary", "topk"]);
        }
    }
    // identity and empty-group behaviour of every combiner
    for cid in 0..8 {
        for den in [1, 4] {
            for e in [
                json!([0]),
                json!([2, [0], [0]]),
                json!([3, []]),
                json!([2, [0], [4, [2, -1, 2]]]),
                json!([2, [4, [2, -1, 2]], [0]]),
                json!([2, [3, []], [3, [2, -1, 2]]]),
                json!([1, [2, [3, [3]], [4, [-4, 3]]], 0]),
            ] {
                emit_expr(em, cid, 2, den, e, &["boundary", "identity"]);
            }
        }
    }

    // KMV (mergeability only): below k distinct values (exact count) and above (evictions)
    for k in [0usize, 4, 5, 8] {
        for e in [
            json!([0]),
            json!([2, [0], [3, [1, 1, 2]]]),
            json!([2, [4, [1, 2, 3, 4, 5, 6, 7, 8, 9]], [3, [9, 8, 7, 6, 5, 10, 11]]]),
            json!([1, [2, [3, [5, 6, 7, 8]], [2, [0], [4, [1, 2, 3, 4]]]], 6]),
        ] {
            emit_expr(em, 8, k, 1, e, &["boundary", "kmv"]);
        }
    }

    // the remaining cases are emitted in a fixed strided order so that the expensive sweep rows
    // are spread evenly over check.py's correspondence shards
    let mut queue: Vec<(&str, Value, bool, Vec<&str>)> = Vec::new();

    // 2. exhaustive sweep: every sequence up to length 6 over {-1, 0, 2}, every split into 1..4
    //    parts, 3 leaf modes, both merge orders, every combiner, TopK k = 0..n+1
    let maxlen = if tier == Tier::Thorough { 7 } else { 6 };
    for s in all_seqs(&[-1, 0, 2], maxlen) {
        let nt = s.len() >= 2;
        queue.push(("sweep", json!([s, 4, 1]), nt, vec!["exhaustive"]));
    }
    if tier == Tier::Thorough {
        // four values, up to five parts
        for s in all_seqs(&[-2, -1, 0, 3], 5) {
            let nt = s.len() >= 2;
            queue.push(("sweep", json!([s, 5, 2]), nt, vec!["exhaustive", "four-values"]));
        }
    }
    // the same over quarter-valued inputs for the mean (shorter)
    for s in all_seqs(&[-3, 1, 2], 3) {
        let nt = s.len() >= 2;
        queue.push(("sweep", json!([s, 3, 4]), nt, vec!["exhaustive", "quarters"]));
    }

    // 2b. non-finite floats: every sequence of length <= 3 (thorough: 4) over
    //     {NaN, +inf, -inf, -0.0, +0.0, 1.5, -2.5}, every split into 1..4 parts, 3 leaf modes, both
    //     merge orders; plus seeded longer sequences (3 parts)
    let fdom = [100i64, 101, 102, 103, 0, 3, -5];
    for s in all_seqs(&fdom, if tier == Tier::Thorough { 4 } else { 3 }) {
        let nt = s.len() >= 2 && s.iter().any(|c| (100..=102).contains(c));
        queue.push(("fsweep", json!([s, 4]), nt, vec!["exhaustive", "nonfinite"]));
    }
    {
        let mut frng = SplitMix64::new(seed ^ 0xF10A7);
        let nrand = if tier == Tier::Thorough { 1500 } else { 150 };
        for _ in 0..nrand {
            let len = 4 + frng.below(6) as usize;
            let s: Vec<i64> = (0..len)
                .map(|_| match frng.below(10) {
                    0 => 100,
                    1 | 2 => 101,
                    3 => 102,
                    4 => 103,
                    _ => frng.range(-40, 40),
                })
                .collect();
            let nt = s.iter().any(|c| (100..=102).contains(c));
            queue.push(("fsweep", json!([s, 3]), nt, vec!["random", "nonfinite"]));
        }
    }

    // 3. random longer accumulator expressions
    let mut rng = SplitMix64::new(seed ^ 0xC06);
    let n = if tier == Tier::Thorough { 40000 } else { 4000 };
    for _ in 0..n {
        let cid = match rng.below(11) {
            x if x < 8 => x as i64,
            8 | 9 => 7, // TopK three times as often
            _ => 8,     // KMV
        };
        let len = match rng.below(4) {
            0 => rng.below(6),
            1 => rng.below(16),
            _ => rng.below(41),
        } as usize;
        let (lo, hi) = match rng.below(5) {
            0 => (-1, 1),
            1 => (-3, 3),
            2 => (0, 9),
            3 => (-1000, 1000),
            _ => (-(1i64 << 31), 1i64 << 31),
        };
        let vals: Vec<i64> = (0..len).map(|_| rng.range(lo, hi)).collect();
        let den = *rng.pick(&[1i64, 1, 2, 4, 8]);
        let k = match rng.below(6) {
            0 => 0,
            1 => 1,
            2 => len / 2,
            3 => len,
            4 => len + 1,
            _ => rng.below(len as u64 + 2) as usize,
        };
        let k = if cid == 8 { *rng.pick(&[0usize, 4, 5, 8, 16]) } else { k };
        let e = random_expr(&mut rng, &vals);
        let (nv, mg) = expr_stats(&e);
        queue.push(("expr", json!([cid, k, den, e]), nv >= 2 && mg, vec!["random"]));
    }
    // 3b. Sum over bounded integer types: exhaustive short sequences over extreme values (every
    //     split into <= 3 parts, lifted / unlifted) and seeded random expressions
    ovf_cases(seed, tier, &mut queue);

    // 4. big groups (compact descriptions), every combiner, both entry styles
    big_cases(seed, tier, &mut queue);
    ladder_cases(seed, tier, &mut queue);
    fbig_cases(seed, tier, &mut queue);

    let n = queue.len();
    let mut stride = 7919 % n.max(1);
    while stride == 0 || gcd(stride, n) != 1 {
        stride += 1;
    }
    let mut slots: Vec<Option<(&str, Value, bool, Vec<&str>)>> = queue.into_iter().map(Some).collect();
    for i in 0..n {
        let (kind, input, nt, tags) = slots[(i * stride) % n].take().unwrap();
        em.case(kind, input, nt, &tags);
    }
}


// ---------------------------------------------------------------- bounded integer sums
fn ovf_cases(seed: u64, tier: Tier, queue: &mut Vec<(&'static str, Value, bool, Vec<&'static str>)>) {
    let mut rng = SplitMix64::new(seed ^ 0x0F10);
    let ranges: [(i64, i64, i64); 4] = [(0, -128, 127), (1, 0, 255), (2, -(1 << 31), (1 << 31) - 1), (3, 0, (1 << 32) - 1)];
    for (ty, lo, hi) in ranges {
        // extreme and small values of the type
        let mut dom: Vec<i64> = vec![hi, 1, hi / 2 + 1];
        if lo < 0 {
            dom.extend([lo, -1]);
        } else {
            dom.push(0);
        }
        // thorough: i8 up to length 4, the other types over a larger domain
        if tier == Tier::Thorough && ty != 0 {
            dom.extend([hi - 1, lo + 1]);
        }
        let maxlen = if tier == Tier::Thorough && ty == 0 { 4 } else { 3 };
        for s in all_seqs(&dom, maxlen) {
            if s.is_empty() {
                continue;
            }
            for wrapping in [0i64, 10] {
                // the whole group lifted / folded, and every cut into two parts in four leaf styles
                let mut es = vec![json!([3, s]), json!([4, s])];
                for c in 1..s.len() {
                    let (a, b) = (s[..c].to_vec(), s[c..].to_vec());
                    let style = rng.below(4);
                    let (la, lb) = [(3, 3), (4, 4), (3, 4), (4, 3)][style as usize];
                    es.push(json!([2, [la, a], [lb, b]]));
                    if s.len() == 3 && c == 1 {
                        es.push(json!([2, [2, [la, [s[0]]], [lb, [s[1]]]], [la, [s[2]]]]));
                        es.push(json!([2, [la, [s[0]]], [2, [lb, [s[1]]], [la, [s[2]]]]]));
                    }
                }
                if wrapping == 10 && tier != Tier::Thorough && es.len() > 3 {
                    // quick tier: lifted, folded and one seeded split for the wrapping twin
                    let keep = 2 + rng.below(es.len() as u64 - 2) as usize;
                    es = vec![es[0].clone(), es[1].clone(), es[keep].clone()];
                }
                for e in es {
                    queue.push(("ovf", json!([ty + wrapping, e]), s.len() >= 2, vec!["exhaustive", "overflow"]));
                }
            }
        }
        // seeded random expressions: values near the bounds and small ones
        let nrand = if tier == Tier::Thorough { 4000 } else { 150 };
        for _ in 0..nrand {
            let len = rng.below(12) as usize;
            let vals: Vec<i64> = (0..len)
                .map(|_| match rng.below(6) {
                    0 => hi - rng.range(0, 3),
                    1 => lo + rng.range(0, 3),
                    2 => rng.range(lo / 2, hi / 2),
                    3 => rng.range(lo / 8, hi / 8),
                    _ => rng.range(lo.max(-5), 5),
                })
                .collect();
            let e = random_expr(&mut rng, &vals);
            let (nv, mg) = expr_stats(&e);
            let w = *rng.pick(&[0i64, 10]);
            queue.push(("ovf", json!([ty + w, e]), nv >= 2 && mg, vec!["random", "overflow"]));
        }
    }
}

// ---------------------------------------------------------------- big groups
/// group sizes: around every power of two up to 4096, every length 60..=80 (all residues mod 8
/// and mod 16 just above 64), 3 * 2^j, round numbers, ~5000; `huge` = sizes past 4097
fn big_sizes(tier: Tier) -> (Vec<i64>, Vec<i64>) {
    let mut v: Vec<i64> = vec![0, 1];
    for j in 1..=12 {
        let p = 1i64 << j;
        v.extend([p - 1, p, p + 1]);
    }
    v.extend(60..=80);
    v.extend([12, 20, 24, 48, 96, 100, 192, 200, 384, 500, 768, 1000, 1001, 1536, 2000, 3000, 3072]);
    v.extend([4999, 5000, 5001]);
    if tier == Tier::Thorough {
        v.extend(0..=300);
        v.extend([6000, 6144, 7777]);
    }
    v.sort_unstable();
    v.dedup();
    let mut huge: Vec<i64> = vec![8191, 8192, 8193, 16385, 32768, 65535, 65536, 65537, 100000];
    if tier == Tier::Thorough {
        huge.extend([10000, 12288, 16383, 16384, 20000, 32767, 32769, 50000, 131072, 131073]);
    }
    (v, huge)
}

/// value patterns: (a, b, m, off, upper bound on the number of distinct values)
fn big_pattern(rng: &mut SplitMix64, n: i64, which: u64) -> (i64, i64, i64, i64, i64) {
    match which {
        0 => (1, 0, 1 << 32, *rng.pick(&[0i64, -7, 1000]), n),            // ascending
        1 => (-1, n + 5, 1 << 32, *rng.pick(&[0i64, -3]), n),              // descending
        2 => (0, 7, 100, *rng.pick(&[0i64, -7, -9]), 1),                   // constant
        3 => {
            let m = *rng.pick(&[2i64, 3, 5, 10]);
            (1, 0, m, *rng.pick(&[0i64, -1]), m)                           // few distinct, periodic
        }
        4 => (7919 * (2 * rng.range(1, 50) + 1), rng.range(0, 999), 1_000_003, *rng.pick(&[0i64, -500_000]), n), // scrambled, distinct
        5 => {
            let m = *rng.pick(&[17i64, 257, 1031]);
            (48271, rng.range(0, 99), m, *rng.pick(&[0i64, -100]), m)     // scrambled, many ties
        }
        _ => (1_000_003, 12345, (1 << 31) - 1, *rng.pick(&[0i64, -(1 << 30)]), n), // large magnitudes
    }
}

fn big_k(rng: &mut SplitMix64, n: i64) -> i64 {
    match rng.below(8) {
        0 => *rng.pick(&[0i64, 1, 2]),
        1 => *rng.pick(&[7i64, 8, 9, 15, 16, 17]),
        2 => *rng.pick(&[31i64, 32, 33, 63, 64, 65]),
        3 => *rng.pick(&[100i64, 127, 128, 129, 255, 256, 257]),
        4 => n / 2,
        5 => (n - 1).max(0),
        6 => n,
        _ => n + 1,
    }
}

fn big_cases(seed: u64, tier: Tier, queue: &mut Vec<(&'static str, Value, bool, Vec<&'static str>)>) {
    let mut rng = SplitMix64::new(seed ^ 0xB16_C06);
    let (sizes, huge) = big_sizes(tier);
    let mut all: Vec<(i64, bool)> = sizes.iter().map(|n| (*n, false)).collect();
    all.extend(huge.iter().map(|n| (*n, true)));
    // a few seeded sizes as well
    for _ in 0..(if tier == Tier::Thorough { 60 } else { 12 }) {
        all.push((rng.range(2, 5200), false));
    }
    for (n, is_huge) in all {
        for cid in 0..9i64 {
            let nshapes = if is_huge { 3 } else if tier == Tier::Thorough { 8 } else { 4 };
            for shape_ix in 0..nshapes {
                // shapes 0, 1, 2 always: the two entry styles alone, and a lifted split
                let shape = if shape_ix < 3 { shape_ix } else { 3 + rng.below(9) };
                // model budget (list steps in Coq: about 1 us each): n * distinct values for the
                // set based combiners, n * k for TopK; one case in 16 gets a large budget
                let roomy = !is_huge && rng.chance(1, 16);
                let cap: i64 = match (tier, roomy) {
                    (Tier::Thorough, true) => 8_000_000,
                    (Tier::Thorough, false) => 2_000_000,
                    (_, true) => 2_500_000,
                    (_, false) => 250_000,
                };
                // many parts: psize first (the merges cost parts * size^2 in the model)
                let psize = match rng.below(6) {
                    0 => 1,
                    1 => *rng.pick(&[2i64, 3, 7, 8, 9]),
                    2 => *rng.pick(&[63i64, 64, 65, 100]),
                    3 => n / 2 + 1,
                    4 => (n / 16).max(1),
                    _ => rng.range(1, n.max(1)),
                };
                let psize = if is_huge { psize.max(n / 64) } else { psize.max(n / 1100 + 1) };
                let parts = if shape >= 9 { (n + psize - 1) / psize } else { 2 };
                let fits = |size: i64| n * size.min(n) <= cap && parts * size.min(n) * size.min(n) <= 4 * cap;
                // value pattern within the model budget of the set / heap based combiners
                let mut pat = rng.below(7);
                let (mut a, mut b, mut m, mut off, mut dist) = big_pattern(&mut rng, n, pat);
                let mut k = if cid == 8 { *rng.pick(&[0i64, 4, 5, 16, 64, 256, 1024]) } else if cid == 7 { big_k(&mut rng, n) } else { 0 };
                if matches!(cid, 5 | 6 | 8) && !fits(dist) {
                    pat = *rng.pick(&[2u64, 3, 5]);
                    (a, b, m, off, dist) = big_pattern(&mut rng, n, pat);
                    if !fits(dist) {
                        (a, b, m, off, dist) = big_pattern(&mut rng, n, 3);
                    }
                }
                let _ = (dist, pat);
                if cid == 7 && !fits(k) {
                    k = *rng.pick(&[100i64, 64, 65, 33]);
                    if !fits(k) {
                        k = *rng.pick(&[0i64, 1, 2, 7, 8, 9]);
                    }
                }
                if cid == 8 && !fits(k.max(4)) {
                    k = *rng.pick(&[16i64, 64]);
                    if !fits(k) {
                        k = *rng.pick(&[0i64, 4, 5]);
                    }
                }
                // element type: mostly i64; u64 needs values >= 0, i32 needs sum |v| < 2^31
                let vals_abs_max = (m - 1 + off).abs().max(off.abs());
                let mut ty = if cid == 8 { 0 } else { *rng.pick(&[0i64, 0, 0, 1, 2]) };
                if ty == 1 && (off < 0 || (cid == 4 && vals_abs_max >= (1 << 32))) {
                    ty = 0;
                }
                if ty == 2 && (vals_abs_max as i128) * (n.max(1) as i128) >= (1 << 31) {
                    ty = 0;
                }
                let den = if cid == 4 && ty == 0 && n <= 64 { *rng.pick(&[1i64, 2, 4]) } else { 1 };
                let g = |start: i64, len: i64| json!([start, len, a, b, m, off]);
                let c = match rng.below(4) {
                    0 => n / 3,
                    1 => 1.min(n),
                    2 => (n - 1).max(0),
                    _ => rng.range(0, n),
                };
                let e = match shape {
                    0 => json!([5, g(0, n)]),
                    1 => json!([6, g(0, n)]),
                    2 => json!([2, [5, g(0, c)], [5, g(c, n - c)]]),
                    3 => json!([2, [6, g(0, c)], [5, g(c, n - c)]]),
                    4 => json!([2, [5, g(0, c)], [6, g(c, n - c)]]),
                    5 => json!([2, [6, g(0, c)], [6, g(c, n - c)]]),
                    6 => {
                        // inputs added after a big build
                        let t = 3.min(n);
                        let vs = gen_vals(&g(n - t, t));
                        let mut e = json!([5, g(0, n - t)]);
                        for v in vs {
                            e = json!([1, e, v]);
                        }
                        e
                    }
                    7 => json!([2, [0], [2, [5, g(0, n)], [0]]]),
                    8 => json!([2, [2, [3, []], [6, g(0, c)]], [2, [0], [5, g(c, n - c)]]]),
                    _ => {
                        // many parts
                        json!([7, g(0, n), psize, rng.below(3), rng.below(3)])
                    }
                };
                let mut tags = vec!["big"];
                if is_huge {
                    tags.push("huge");
                }
                queue.push(("big", json!([cid, k, den, ty, e]), n >= 2, tags));
            }
        }
    }
}

/// threshold ladders for the heap / set based combiners: the SIZE OF THE ACCUMULATOR (k for TopK
/// and KMV, the number of distinct values for the sets) around every power of two, with both
/// sides of a merge full
fn ladder_cases(seed: u64, tier: Tier, queue: &mut Vec<(&'static str, Value, bool, Vec<&'static str>)>) {
    let mut rng = SplitMix64::new(seed ^ 0x1ADDE7);
    let thorough = tier == Tier::Thorough;
    let leafs = |rng: &mut SplitMix64| *rng.pick(&[(5i64, 5i64), (5, 6), (6, 5), (6, 6), (5, 5)]);
    // ---- TopK: k around the thresholds, parts of k, k+1, 2k, 3k ... values on both sides
    let mut ks: Vec<i64> = vec![15, 16, 17, 20, 32, 33, 63, 64, 65, 100, 101, 127, 128, 129, 255, 256, 257, 512];
    if thorough {
        ks.extend([300, 511, 513, 1000, 1023, 1024, 1025]);
    }
    for k in ks {
        let combos: Vec<(i64, i64)> = vec![(k, k), (k + 1, k), (k - 1, k + 1), (2 * k, 2 * k), (k, 3 * k), (3 * k, k), (k / 2, k / 2 + 1)];
        for (ci, (la, lb)) in combos.iter().enumerate() {
            for pat in [0u64, 1, 4, 5] {
                // large k: a seeded half of the combinations
                if k >= 256 && !thorough && (ci as u64 + pat) % 2 == rng.below(2) {
                    continue;
                }
                let n = la + lb;
                let (a, b, m, off, _) = big_pattern(&mut rng, n, pat);
                let (ta, tb) = leafs(&mut rng);
                let e = json!([2, [ta, [0, la, a, b, m, off]], [tb, [*la, lb, a, b, m, off]]]);
                let e = if rng.chance(1, 2) { e } else { json!([2, e[2].clone(), e[1].clone()]) };
                queue.push(("big", json!([7, k, 1, 0, e]), true, vec!["big", "ladder", "topk"]));
            }
        }
    }
    // ---- DistinctCount / DistinctSet: d distinct values around the thresholds
    let mut ds: Vec<i64> = vec![15, 16, 17, 20, 31, 32, 33, 63, 64, 65, 100, 127, 128, 129, 255, 256, 257, 511, 512, 513, 1024, 1025];
    if thorough {
        ds.extend([1000, 1023, 2047, 2048, 2049, 4095, 4096, 4097]);
    }
    for d in ds {
        for cid in [5i64, 6] {
            // all-distinct scrambled values (prime modulus), offsets make the two halves overlap
            let a = 7919 * (2 * rng.range(1, 50) + 1);
            let g = |start: i64, len: i64| json!([start, len, a, 11, 1_000_003, -500_000]);
            let (ta, tb) = leafs(&mut rng);
            let mut es = vec![
                json!([5, g(0, d)]),
                // two parts sharing half of their values: d distinct values in all
                json!([2, [ta, g(0, d - d / 3)], [tb, g(d / 3, d - d / 3)]]),
            ];
            if d <= 600 || thorough {
                // every value twice: periodic 0..d-1, 2d values
                es.push(json!([5, [0, 2 * d, 1, 0, d, -(d / 2)]]));
                es.push(json!([6, g(0, d)]));
            }
            for e in es {
                queue.push(("big", json!([cid, 0, 1, 0, e]), true, vec!["big", "ladder", "distinct"]));
            }
        }
    }
    if !thorough {
        // one lifted group past 2048 distinct values per set combiner
        for cid in [5i64, 6] {
            queue.push(("big", json!([cid, 0, 1, 0, [5, [0, 2049, 7919 * 3, 11, 1_000_003, 0]]]), true, vec!["big", "ladder", "distinct"]));
        }
    }
    // ---- KMV: k and the number of distinct values around each other
    for k in [4i64, 5, 16, 64, 256, 1024] {
        if k == 1024 && !thorough {
            continue;
        }
        for d in [k - 1, k, k + 1, 2 * k, 4 * k + 1] {
            let a = 7919 * (2 * rng.range(1, 50) + 1);
            let g = |start: i64, len: i64| json!([start, len, a, 11, 1_000_003, -500_000]);
            let (ta, tb) = leafs(&mut rng);
            for e in [
                json!([5, g(0, d)]),
                json!([2, [ta, g(0, d - d / 3)], [tb, g(d / 3, d - d / 3)]]),
                json!([7, [0, 3 * d, 1, 0, d, 0], (d / 4).max(1), rng.below(3), rng.below(3)]),
            ] {
                queue.push(("big", json!([8, k, 1, 0, e]), true, vec!["big", "ladder", "kmv"]));
            }
        }
    }
}

/// large groups with NaN / infinities / -0.0 at chosen positions (first, last, the remainder of a
/// chunking, scattered), every group size of the big family, both entry styles and chunked trees
fn fbig_cases(seed: u64, tier: Tier, queue: &mut Vec<(&'static str, Value, bool, Vec<&'static str>)>) {
    let mut rng = SplitMix64::new(seed ^ 0xFB16);
    let (sizes, huge) = big_sizes(tier);
    let mut all: Vec<i64> = sizes.into_iter().filter(|n| *n >= 1).collect();
    all.extend(huge.iter().filter(|n| **n <= 70000));
    for n in all {
        for shape in 0..3u64 {
            // finite codes in -99..=99 (the doubles -49.5 .. 49.5)
            let a = *rng.pick(&[1i64, 7, 48271, 0]);
            let (m, off) = *rng.pick(&[(199i64, -99i64), (7, -3), (2, 0), (50, -25), (100, 0), (3, -1)]);
            let g = json!([0, n, a, rng.range(0, 50), m, off]);
            let mut specials: Vec<Value> = Vec::new();
            let pos = |rng: &mut SplitMix64| match rng.below(4) {
                0 => 0,
                1 => n - 1,
                2 => (n - 1) - (n - 1) % 8, // start of the remainder of chunks_exact(8)
                _ => rng.range(0, n - 1),
            };
            match rng.below(8) {
                0 => {}
                1 => specials.push(json!([pos(&mut rng), 100])),
                2 => specials.push(json!([pos(&mut rng), 101])),
                3 => specials.push(json!([pos(&mut rng), 102])),
                4 => {
                    specials.push(json!([pos(&mut rng), 101]));
                    specials.push(json!([pos(&mut rng), 102]));
                }
                5 => {
                    for _ in 0..3 {
                        specials.push(json!([pos(&mut rng), 103]));
                    }
                }
                6 => {
                    specials.push(json!([pos(&mut rng), 101]));
                    specials.push(json!([pos(&mut rng), 101]));
                    specials.push(json!([pos(&mut rng), 103]));
                }
                _ => {
                    for _ in 0..4 {
                        specials.push(json!([pos(&mut rng), rng.range(100, 103)]));
                    }
                }
            }
            let (psize, mode) = match shape {
                0 => (n, 1), // the whole group lifted
                1 => (n, 0), // the whole group one value at a time
                _ => ((*rng.pick(&[1i64, 7, 8, 9, 64, 65, 100]).max(&(n / 600 + 1))).min(n), rng.below(3)),
            };
            let nt = n >= 2 && specials.iter().any(|s| s[1].as_i64().unwrap() <= 102);
            queue.push(("fbig", json!([g, specials, psize, mode, rng.below(3)]), nt, vec!["big", "nonfinite"]));
        }
    }
}

fn gcd(a: usize, b: usize) -> usize {
    if b == 0 { a } else { gcd(b, a % b) }
}

fn main() {
    drive(&generate, &run);
}
