//! C03: plan optimisation never changes what a pipeline computes.
//!
//! A case is a node chain: the backwalk of a REAL pipeline built from a step-language program
//! (kind "prog", `ibv::engine`), or a synthetic chain (kind "syn") made of hand-written
//! `Stateless` nodes (custom `DynOp`s with arbitrary capability flags and cost hints),
//! `Materialized` nodes, and barrier nodes harvested from the real builders.  On every chain the
//! REAL private planner passes (`planner::verif_passes`) and the REAL engines
//! (`runner::verif_exec`) are run; the judge is Corr/C03.v.
//!
//! observed = ["ok", descs, opinfo, execs, extra]
//!   descs  = descriptors of [c, fuse c, reorder c, lift c, drop_mid c, reorder(fuse c),
//!            lift(reorder(fuse c)), drop_mid(lift(reorder(fuse c)))]; a node is ["src"] |
//!            ["st",[ids]] | ["gbk"] | ["cv",has_local_groups] | ["cg",fanout|null] | ["cogroup"] |
//!            ["mat"]; an operator's id names the operator OBJECT (Arc data pointer): the first
//!            position of that object among the operators of c (an object may occur several times:
//!            `["ref", k]` items and `apply_transform(arc.clone())`, kind "xf")
//!   opinfo = [key_preserving, value_only, reorder_safe, cost_hint] of each operator of c
//!   execs  = [seq optimised, seq literal, par optimised, par literal] outcomes
//!   extra  = prog: [desc of build_plan().chain, explain() (see explain_json),
//!                   [collect_seq, collect_par] outcomes]
//!            syn:  [the outcome of the literal sequential run of the prefix before each
//!                  non-terminal Materialized node, explain() of the optimised chain]
use ibv::engine::*;
use ibv::{Emitter, SplitMix64, Tier, drive};
use ironbeam::combiners::DistinctSet;
use ironbeam::node::{DynOp, Node};
use ironbeam::planner::{OptimizationDecision, Plan, build_plan, verif_passes as vp};
use ironbeam::runner::verif_exec::{exec_chain_par, exec_chain_seq};
use ironbeam::type_token::{Partition, TypeTag, vec_ops_for};
use ironbeam::{Max, Min, PCollection, Pipeline, Sum, TopK, from_vec};
use serde_json::{Value, json};
use std::marker::PhantomData;
use std::panic::{AssertUnwindSafe, catch_unwind};
use std::sync::Arc;

const DIR: &str = "/verif/run/C03";

// ------------------------------------------------------------------ descriptors

fn op_ptr(op: &Arc<dyn DynOp>) -> usize {
    Arc::as_ptr(op).cast::<()>() as usize
}
fn chain_ops(chain: &[Node]) -> Vec<Arc<dyn DynOp>> {
    let mut out = vec![];
    for n in chain {
        if let Node::Stateless(ops) = n {
            out.extend(ops.iter().cloned());
        }
    }
    out
}
fn desc(chain: &[Node], ids: &[usize]) -> Value {
    Value::Array(
        chain
            .iter()
            .map(|n| match n {
                Node::Source { .. } => json!(["src"]),
                Node::Stateless(ops) => {
                    let v: Vec<usize> = ops
                        .iter()
                        .map(|o| {
                            let p = op_ptr(o);
                            ids.iter().position(|q| *q == p).unwrap_or(ids.len())
                        })
                        .collect();
                    json!(["st", v])
                }
                Node::GroupByKey { .. } => json!(["gbk"]),
                Node::CombineValues { local_groups, .. } => json!(["cv", local_groups.is_some()]),
                Node::CombineGlobal { fanout, .. } => json!(["cg", fanout]),
                Node::CoGroup { .. } => json!(["cogroup"]),
                Node::Materialized(_) => json!(["mat"]),
            })
            .collect(),
    )
}

// ---- the passes under test: the REAL ones, unless the sensitivity self-test asks for a mutant
// (`--opt mutant=<name>`: a local copy of the pass with one realistic slip; never used by check.py)

fn mutant() -> Option<String> {
    ibv::opt("mutant")
}
fn pass_fuse(c: Vec<Node>) -> Vec<Node> {
    match mutant().as_deref() {
        Some(m @ ("fuse_rev" | "fuse_drop_first" | "fuse_across")) => {
            let mut out: Vec<Node> = vec![];
            for n in c {
                if let Node::Stateless(more) = &n {
                    // fuse_across: also merges with a Stateless node two places back
                    let back = if m == "fuse_across" && out.len() >= 2
                        && !matches!(out[out.len() - 1], Node::Stateless(_) | Node::Source { .. })
                        && matches!(out[out.len() - 2], Node::Stateless(_)) { 2 } else { 1 };
                    if out.len() >= back {
                        let idx = out.len() - back;
                        if let Node::Stateless(ops) = &mut out[idx] {
                            match m {
                                "fuse_rev" => {
                                    let mut v = more.clone();
                                    v.extend(ops.iter().cloned());
                                    *ops = v;
                                }
                                "fuse_drop_first" => *ops = more.clone(),
                                _ => ops.extend(more.iter().cloned()),
                            }
                            continue;
                        }
                    }
                }
                out.push(n);
            }
            out
        }
        // seeded change (round 3): a cap on the fused block where the node at the boundary is
        // consumed (j += 1) before the "block full" test and never emitted
        Some("fuse_cap64") => {
            let mut out: Vec<Node> = vec![];
            let mut i = 0usize;
            while i < c.len() {
                if let Node::Stateless(first) = &c[i] {
                    let mut fused = first.clone();
                    let mut j = i + 1;
                    while j < c.len() {
                        if let Node::Stateless(more) = &c[j] {
                            j += 1;
                            if fused.len() + more.len() > 64 {
                                break;
                            }
                            fused.extend(more.iter().cloned());
                        } else {
                            break;
                        }
                    }
                    out.push(Node::Stateless(fused));
                    i = j;
                } else {
                    out.push(c[i].clone());
                    i += 1;
                }
            }
            out
        }
        // the seeded change the coordinator reported: fusion drops back-to-back repeats of one Arc
        Some("fuse_dedup") => vp::fuse(c)
            .into_iter()
            .map(|n| match n {
                Node::Stateless(mut ops) => {
                    ops.dedup_by(|a, b| Arc::ptr_eq(a, b));
                    Node::Stateless(ops)
                }
                other => other,
            })
            .collect(),
        _ => vp::fuse(c),
    }
}
fn pass_reorder(c: Vec<Node>) -> Vec<Node> {
    match mutant().as_deref() {
        Some(m @ ("reorder_any" | "reorder_cost" | "reorder_unstable" | "reorder_nofilter")) => c
            .into_iter()
            .map(|n| {
                if let Node::Stateless(mut ops) = n {
                    let safe = |op: &Arc<dyn DynOp>| {
                        op.value_only() && op.key_preserving() && op.reorder_safe_with_value_only()
                    };
                    let guard = if m == "reorder_any" { ops.iter().any(safe) } else { ops.iter().all(safe) };
                    if guard && ops.len() > 1 {
                        match m {
                            "reorder_cost" => ops.sort_by_key(|op| {
                                let c = if op.cost_hint() == 3 { 0 } else { op.cost_hint() };
                                (i32::from(c != 1), c)
                            }),
                            "reorder_unstable" => {
                                ops.reverse();
                                ops.sort_by_key(|op| (i32::from(op.cost_hint() != 1), op.cost_hint()));
                            }
                            "reorder_nofilter" => ops.sort_by_key(|op| op.cost_hint()),
                            _ => ops.sort_by_key(|op| (i32::from(op.cost_hint() != 1), op.cost_hint())),
                        }
                    }
                    Node::Stateless(ops)
                } else {
                    n
                }
            })
            .collect(),
        _ => vp::reorder(c),
    }
}
fn pass_lift(c: Vec<Node>) -> Vec<Node> {
    match mutant().as_deref() {
        Some(m @ ("lift_any" | "lift_skip_stateless" | "lift_keep_gbk")) => {
            let mut out = vec![];
            let mut i = 0;
            while i < c.len() {
                if let Node::GroupByKey { .. } = &c[i] {
                    // lift_skip_stateless: looks through one Stateless node (and drops it)
                    let mut j = i + 1;
                    if m == "lift_skip_stateless" && j < c.len() && matches!(c[j], Node::Stateless(_)) {
                        j += 1;
                    }
                    if j < c.len() {
                        if let Node::CombineValues { local_pairs, local_groups, merge } = &c[j] {
                            if local_groups.is_some() || m == "lift_any" {
                                if m == "lift_keep_gbk" {
                                    out.push(c[i].clone());
                                }
                                out.push(Node::CombineValues {
                                    local_pairs: local_pairs.clone(),
                                    local_groups: None,
                                    merge: merge.clone(),
                                });
                                i = j + 1;
                                continue;
                            }
                        }
                    }
                }
                out.push(c[i].clone());
                i += 1;
            }
            out
        }
        _ => vp::lift(c),
    }
}
fn pass_drop_mid(c: Vec<Node>) -> Vec<Node> {
    match mutant().as_deref() {
        // seeded change (round 3): also drops every non-empty Stateless block whose summed cost is 0
        Some("drop_zero_cost") => vp::drop_mid(c)
            .into_iter()
            .filter(|n| match n {
                Node::Stateless(ops) => ops.is_empty() || ops.iter().map(|o| u64::from(o.cost_hint())).sum::<u64>() != 0,
                _ => true,
            })
            .collect(),
        Some("drop_terminal") => c.into_iter().filter(|n| !matches!(n, Node::Materialized(_))).collect(),
        Some("drop_first_only") => {
            let last = c.len().saturating_sub(1);
            let mut dropped = false;
            c.into_iter()
                .enumerate()
                .filter(|(i, n)| {
                    if *i != last && matches!(n, Node::Materialized(_)) && !dropped {
                        dropped = true;
                        false
                    } else {
                        true
                    }
                })
                .map(|(_, n)| n)
                .collect()
        }
        Some("drop_source_too") => {
            let last = c.len().saturating_sub(1);
            c.into_iter()
                .enumerate()
                .filter(|(i, n)| {
                    *i == last || !(matches!(n, Node::Materialized(_)) || (*i > 0 && matches!(n, Node::Source { .. })))
                })
                .map(|(_, n)| n)
                .collect()
        }
        _ => vp::drop_mid(c),
    }
}

struct Structure {
    descs: Vec<Value>,
    opinfo: Vec<Value>,
    ids: Vec<usize>,
    optimised: Vec<Node>,
}

/// run every real pass on the chain, alone and composed in build_plan's order
fn structure(raw: &[Node]) -> Structure {
    let ops = chain_ops(raw);
    let ids: Vec<usize> = ops.iter().map(op_ptr).collect();
    let opinfo = ops
        .iter()
        .map(|o| {
            json!([
                o.key_preserving(),
                o.value_only(),
                o.reorder_safe_with_value_only(),
                o.cost_hint()
            ])
        })
        .collect();
    let p1 = pass_fuse(raw.to_vec());
    let p2 = pass_reorder(raw.to_vec());
    let p3 = pass_lift(raw.to_vec());
    let p4 = pass_drop_mid(raw.to_vec());
    let q2 = pass_reorder(p1.clone());
    let q3 = pass_lift(q2.clone());
    let q4 = pass_drop_mid(q3.clone());
    let descs = [raw, &p1, &p2, &p3, &p4, &q2, &q3, &q4].iter().map(|c| desc(c, &ids)).collect();
    Structure { descs, opinfo, ids, optimised: q4 }
}

// ------------------------------------------------------------------ running a chain

fn caught(f: impl FnOnce() -> Value) -> Value {
    catch_unwind(AssertUnwindSafe(f)).unwrap_or_else(|_| json!(["panic"]))
}
fn run_seq<T: Row>(chain: &[Node]) -> Value {
    caught(|| rows_json(exec_chain_seq::<T>(chain.to_vec())))
}
fn run_par<T: Row>(chain: &[Node], parts: usize) -> Value {
    caught(|| rows_json(exec_chain_par::<T>(chain, parts)))
}
fn exec4<T: Row>(opt: &[Node], raw: &[Node], parts: usize) -> Value {
    json!([run_seq::<T>(opt), run_seq::<T>(raw), run_par::<T>(opt, parts), run_par::<T>(raw, parts)])
}

fn shape_of_name(s: &str) -> Option<Shape> {
    Some(match s {
        "u" => Shape::U,
        "kv" => Shape::KV,
        "kg" => Shape::KG,
        "kw" => Shape::KW,
        "l" => Shape::L,
        _ => return None,
    })
}
fn name_of_shape(s: Shape) -> &'static str {
    match s {
        Shape::U => "u",
        Shape::KV => "kv",
        Shape::KG => "kg",
        Shape::KW => "kw",
        Shape::L => "l",
    }
}

/// `$body` with `$t` bound to the Rust row type of a shape
macro_rules! with_row_type {
    ($shape:expr, $t:ident => $body:expr) => {
        match $shape {
            Shape::U => {
                type $t = Val;
                $body
            }
            Shape::KV => {
                type $t = (Val, Val);
                $body
            }
            Shape::KG => {
                type $t = (Val, Vec<Val>);
                $body
            }
            Shape::KW => {
                type $t = (Val, Wrapped);
                $body
            }
            Shape::L => {
                type $t = Vec<Val>;
                $body
            }
        }
    };
}

/// the stable facts a step description states, or null when the wording is not recognised (then
/// the judge does not look at the description; the text of explain is not an observable):
/// ["src", n] | ["src_unknown"] | ["ops", n, [cost hints]] | ["cv", with local pre-aggregation?] |
/// ["fanout", n|null] | ["none"]
fn step_facts(node_type: &str, d: &str) -> Value {
    let between = |a: &str, b: &str| -> Option<&str> {
        let i = d.find(a)? + a.len();
        let j = d[i..].find(b)? + i;
        Some(&d[i..j])
    };
    match node_type {
        "Source" => {
            if d.contains("unknown size") {
                json!(["src_unknown"])
            } else {
                match between("(", " elements)").and_then(|x| x.parse::<u64>().ok()) {
                    Some(n) => json!(["src", n]),
                    None => Value::Null,
                }
            }
        }
        "Stateless" => {
            let n = between("Apply ", " operations").and_then(|x| x.parse::<u64>().ok());
            let list = between("[", "]").map(|l| {
                l.split(", ")
                    .filter(|x| !x.is_empty())
                    .map(|x| x.strip_prefix("op(cost=").and_then(|y| y.strip_suffix(')')).and_then(|y| y.parse::<u64>().ok()))
                    .collect::<Option<Vec<u64>>>()
            });
            match (n, list) {
                (Some(n), Some(Some(costs))) => json!(["ops", n, costs]),
                _ => Value::Null,
            }
        }
        "CombineValues" => {
            if d.contains("with local pre-aggregation") {
                json!(["cv", true])
            } else if d.contains("on pairs") {
                json!(["cv", false])
            } else {
                Value::Null
            }
        }
        "CombineGlobal" => match between("fanout=", " ") {
            Some("unbounded") => json!(["fanout", null]),
            Some(x) => x.parse::<u64>().map_or(Value::Null, |f| json!(["fanout", f])),
            None => Value::Null,
        },
        _ => json!(["none"]),
    }
}

/// everything `Plan::explain` states that is determined by the plan:
/// [steps, [barriers, total_ops, stateless_ops, source_size|null], suggested_partitions|null, opts, cpus]
///   cpus = num_cpus::get(), the machine fact the suggestion is computed from
///   step = [step, node_type, is_barrier, cost_hint, facts]
///   opt  = ["fused", before, after, ops] | ["reordered", ops, by_cost] | ["lifted", removed_barrier]
///        | ["dropped", count] | ["parts", source_len|null, partitions]
fn explain_json(plan: &Plan) -> Value {
    let e = plan.explain();
    let mut steps: Vec<Value> = e
        .steps
        .iter()
        .map(|st| json!([st.step, st.node_type, st.is_barrier, st.cost_hint, step_facts(&st.node_type, &st.description)]))
        .collect();
    let mut barriers = e.cost_estimate.barriers;
    let opts: Vec<Value> = e
        .optimizations
        .iter()
        .map(|o| match o {
            OptimizationDecision::FusedStateless { blocks_before, blocks_after, ops_count } => {
                json!(["fused", blocks_before, blocks_after, ops_count])
            }
            OptimizationDecision::ReorderedValueOps { ops_count, by_cost } => json!(["reordered", ops_count, by_cost]),
            OptimizationDecision::LiftedGBKCombine { removed_barrier } => json!(["lifted", removed_barrier]),
            OptimizationDecision::DroppedMidMaterialized { count } => json!(["dropped", count]),
            OptimizationDecision::PartitionSuggestion { source_len, partitions } => {
                json!(["parts", source_len, partitions])
            }
        })
        .collect();
    if mutant().as_deref() == Some("explain_barrier") && opts.iter().any(|o| o[0] == json!("lifted")) {
        // self-test (the seeded change reported by the coordinator): after a lift, a CombineValues
        // without lifted local is no longer reported as a barrier
        for st in &mut steps {
            if st[1] == json!("CombineValues") && st[4] == json!(["cv", false]) {
                st[2] = json!(false);
                barriers -= 1;
            }
        }
    }
    let mut total_ops = e.cost_estimate.total_ops;
    let mut opts = opts;
    match mutant().as_deref() {
        // further self-test tamperings of what explain reports
        Some("explain_index0") => steps.iter_mut().for_each(|st| st[0] = json!(st[0].as_u64().unwrap() - 1)),
        Some("explain_total") => total_ops += steps.iter().filter(|st| st[1] == json!("Source")).count(),
        Some("explain_stcost") => steps.iter_mut().for_each(|st| {
            if st[1] == json!("Stateless") {
                st[3] = json!(10 * st[4][1].as_u64().unwrap_or(0));
            }
        }),
        Some("explain_nolift") => opts.retain(|o| o[0] != json!("lifted")),
        Some("explain_reorder_changed_only") => opts.retain(|o| o[0] != json!("reordered")),
        Some("explain_cv_mode") => steps.iter_mut().for_each(|st| {
            if st[4] == json!(["cv", false]) {
                st[4] = json!(["cv", true]);
            }
        }),
        _ => {}
    }
    json!([
        steps,
        [barriers, total_ops, e.cost_estimate.stateless_ops, e.cost_estimate.source_size],
        e.suggested_partitions,
        opts,
        num_cpus::get()
    ])
}
/// explain of a bare chain (Plan's fields are public)
fn explain_chain(chain: &[Node]) -> Value {
    explain_json(&Plan { chain: chain.to_vec(), suggested_partitions: None, optimizations: vec![] })
}

// ------------------------------------------------------------------ kind "prog"

fn prog_obs<T: Row>(p: &Pipeline, c: PCollection<T>, parts: usize) -> Value {
    let raw = vp::backwalk(p, c.node_id()).expect("backwalk");
    let s = structure(&raw);
    let execs = exec4::<T>(&s.optimised, &raw, parts);
    let plan = build_plan(p, c.node_id()).expect("build_plan");
    let plan_desc = desc(&plan.chain, &s.ids);
    let explain = if mutant().as_deref() == Some("explain_raw") {
        explain_chain(&raw) // self-test: an explain that describes the unoptimised chain
    } else {
        explain_json(&plan)
    };
    let cs = {
        let c = c.clone();
        caught(move || rows_json(c.collect_seq()))
    };
    let cp = caught(move || rows_json(c.collect_par(threads(), Some(parts))));
    json!(["ok", s.descs, s.opinfo, execs, [plan_desc, explain, [cs, cp]]])
}

fn parse_prog(input: &Value) -> Option<(Src, Vec<Step>, usize)> {
    let a = input.as_array()?;
    if a.len() != 3 {
        return None;
    }
    let src = parse_src(&a[0]).ok()?;
    let steps = parse_steps(&a[1]).ok()?;
    let parts = a[2].as_u64()? as usize;
    steps_shape(&steps, src.shape()).ok()?;
    Some((src, steps, parts))
}

fn run_prog(input: &Value) -> Value {
    let Some((src, steps, parts)) = parse_prog(input) else { return json!(["invalid"]) };
    let p = Pipeline::default();
    let built = match build(&p, &src, &steps, DIR) {
        Ok(b) => b,
        Err(_) => return json!(["invalid"]),
    };
    let file = built.file.clone();
    let out = match built.coll {
        Coll::U(c) => prog_obs(&p, c, parts),
        Coll::KV(c) => prog_obs(&p, c, parts),
        Coll::KG(c) => prog_obs(&p, c, parts),
        Coll::KW(c) => prog_obs(&p, c, parts),
        Coll::L(c) => prog_obs(&p, c, parts),
    };
    if let Some(f) = file {
        let _ = std::fs::remove_file(f);
    }
    out
}

// ------------------------------------------------------------------ kind "syn": building blocks

/// a row type of the synthetic chains, convertible from the model's value (panics when the value
/// does not have the row type's shape - the generator never asks for that)
trait SynRow: Row {
    fn from_val(v: Val) -> Self;
}
impl SynRow for Val {
    fn from_val(v: Val) -> Self {
        v
    }
}
impl SynRow for (Val, Val) {
    fn from_val(v: Val) -> Self {
        match v {
            Val::Pair(a, b) => (*a, *b),
            other => panic!("not a pair: {other:?}"),
        }
    }
}
impl SynRow for (Val, Vec<Val>) {
    fn from_val(v: Val) -> Self {
        match v {
            Val::Pair(a, b) => match *b {
                Val::List(l) => (*a, l),
                other => panic!("not a group: {other:?}"),
            },
            other => panic!("not a pair: {other:?}"),
        }
    }
}
impl SynRow for (Val, Wrapped) {
    fn from_val(v: Val) -> Self {
        match v {
            Val::Pair(a, b) => (*a, Wrapped(*b)),
            other => panic!("not a pair: {other:?}"),
        }
    }
}
impl SynRow for Vec<Val> {
    fn from_val(v: Val) -> Self {
        match v {
            Val::List(l) => l,
            other => panic!("not a list: {other:?}"),
        }
    }
}

/// operator bodies (the table shared with Corr/C03.v: dec_opfn)
#[derive(Clone)]
enum Body {
    Map(EFun),
    Filter(PFun),
    MapV(EFun),
    FiltV(PFun),
}
fn on_snd(v: &Val, f: &EFun) -> Val {
    match v {
        Val::Pair(k, x) => pair((**k).clone(), ef(f, x)),
        _ => v.clone(),
    }
}
fn apply_body(b: &Body, rows: Vec<Val>) -> Vec<Val> {
    match b {
        Body::Map(f) => rows.iter().map(|v| ef(f, v)).collect(),
        Body::Filter(p) => rows.into_iter().filter(|v| pf(p, v)).collect(),
        Body::MapV(f) => rows.iter().map(|v| on_snd(v, f)).collect(),
        Body::FiltV(p) => rows.into_iter().filter(|v| pf(p, &vsnd(v))).collect(),
    }
}
fn parse_body(j: &Value) -> Option<Body> {
    let a = j.as_array()?;
    if a.len() != 2 {
        return None;
    }
    Some(match a[0].as_str()? {
        "map" => Body::Map(parse_efun(&a[1]).ok()?),
        "filter" => Body::Filter(parse_pfun(&a[1]).ok()?),
        "mapv" => Body::MapV(parse_efun(&a[1]).ok()?),
        "filtv" => Body::FiltV(parse_pfun(&a[1]).ok()?),
        _ => return None,
    })
}

/// a user-defined operator: typed like the built-in ones (downcast + expect), any flags, any cost
struct SynOp<I, O> {
    body: Body,
    kp: bool,
    vo: bool,
    rs: bool,
    cost: u8,
    _t: PhantomData<fn(I) -> O>,
}
impl<I: SynRow, O: SynRow> DynOp for SynOp<I, O> {
    fn apply(&self, input: Partition) -> Partition {
        let rows = *input.downcast::<Vec<I>>().expect("SynOp: unexpected input type");
        let vals: Vec<Val> = rows.iter().map(Row::to_val).collect();
        let out: Vec<O> = apply_body(&self.body, vals).into_iter().map(O::from_val).collect();
        Box::new(out) as Partition
    }
    fn key_preserving(&self) -> bool {
        self.kp
    }
    fn value_only(&self) -> bool {
        self.vo
    }
    fn reorder_safe_with_value_only(&self) -> bool {
        self.rs
    }
    fn cost_hint(&self) -> u8 {
        self.cost
    }
}

#[derive(Clone)]
struct OpSpec {
    tin: Shape,
    tout: Shape,
    body: Body,
    kp: bool,
    vo: bool,
    rs: bool,
    cost: u8,
}
fn mk_op_out<I: SynRow>(s: &OpSpec) -> Arc<dyn DynOp> {
    with_row_type!(s.tout, O => Arc::new(SynOp::<I, O> {
        body: s.body.clone(), kp: s.kp, vo: s.vo, rs: s.rs, cost: s.cost, _t: PhantomData,
    }))
}
fn mk_op(s: &OpSpec) -> Arc<dyn DynOp> {
    with_row_type!(s.tin, I => mk_op_out::<I>(s))
}
fn parse_op(j: &Value) -> Option<OpSpec> {
    let a = j.as_array()?;
    if a.len() != 7 {
        return None;
    }
    let cost = a[6].as_u64()?;
    if cost > 255 {
        return None;
    }
    Some(OpSpec {
        tin: shape_of_name(a[0].as_str()?)?,
        tout: shape_of_name(a[1].as_str()?)?,
        body: parse_body(&a[2])?,
        kp: a[3].as_bool()?,
        vo: a[4].as_bool()?,
        rs: a[5].as_bool()?,
        cost: cost as u8,
    })
}

fn typed_rows<T: SynRow>(rows: &[Val]) -> Vec<T> {
    rows.iter().cloned().map(T::from_val).collect()
}
fn source_node(shape: Shape, rows: &[Val]) -> Node {
    with_row_type!(shape, T => Node::Source {
        payload: Arc::new(typed_rows::<T>(rows)),
        vec_ops: vec_ops_for::<T>(),
        elem_tag: TypeTag::of::<T>(),
    })
}
fn mat_node(shape: Shape, rows: &[Val]) -> Node {
    with_row_type!(shape, T => Node::Materialized(Arc::new(typed_rows::<T>(rows))))
}

/// the node a real builder creates: build a two-node pipeline and take the second node
fn harvest<T: Row>(p: &Pipeline, c: &PCollection<T>) -> Node {
    let chain = vp::backwalk(p, c.node_id()).expect("backwalk");
    assert_eq!(chain.len(), 2);
    chain[1].clone()
}
fn gbk_node() -> Node {
    let p = Pipeline::default();
    let c = from_vec(&p, Vec::<(Val, Val)>::new()).group_by_key();
    harvest(&p, &c)
}
fn cv_node(cid: &Cid, lifted: bool) -> Node {
    let p = Pipeline::default();
    if lifted {
        let src = from_vec(&p, Vec::<(Val, Vec<Val>)>::new());
        if cid.list_out() {
            ibv::with_list_comb!(cid, cb => harvest(&p, &src.combine_values_lifted(cb)))
        } else {
            ibv::with_scalar_comb!(cid, cb => harvest(&p, &src.combine_values_lifted(cb)))
        }
    } else {
        let src = from_vec(&p, Vec::<(Val, Val)>::new());
        if cid.list_out() {
            ibv::with_list_comb!(cid, cb => harvest(&p, &src.combine_values(cb)))
        } else {
            ibv::with_scalar_comb!(cid, cb => harvest(&p, &src.combine_values(cb)))
        }
    }
}
fn cg_node(cid: &Cid, lifted: bool, fanout: Option<usize>) -> Node {
    let p = Pipeline::default();
    let src = from_vec(&p, Vec::<Val>::new());
    match (cid.list_out(), lifted) {
        (true, false) => ibv::with_list_comb!(cid, cb => harvest(&p, &src.combine_globally(cb, fanout))),
        (true, true) => {
            ibv::with_list_comb!(cid, cb => harvest(&p, &src.combine_globally_lifted(cb, fanout)))
        }
        (false, false) => {
            ibv::with_scalar_comb!(cid, cb => harvest(&p, &src.combine_globally(cb, fanout)))
        }
        (false, true) => {
            ibv::with_scalar_comb!(cid, cb => harvest(&p, &src.combine_globally_lifted(cb, fanout)))
        }
    }
}

/// the synthetic chain of a JSON description, plus the row type of every Materialized node
/// the operator objects defined so far in a chain description; `["ref", k]` = a clone of the Arc
/// of the k-th definition (the SAME operator instance used again)
#[derive(Default)]
struct Defs(Vec<(Arc<dyn DynOp>, OpSpec)>);
impl Defs {
    fn item(&mut self, j: &Value) -> Option<(Arc<dyn DynOp>, OpSpec)> {
        let a = j.as_array()?;
        if a.len() == 2 && a[0] == json!("ref") {
            return self.0.get(a[1].as_u64()? as usize).cloned();
        }
        let spec = parse_op(j)?;
        let op = mk_op(&spec);
        self.0.push((op.clone(), spec.clone()));
        Some((op, spec))
    }
}

fn build_syn(nodes: &[Value]) -> Option<(Vec<Node>, Vec<Option<Shape>>)> {
    let mut defs = Defs::default();
    let mut chain = vec![];
    let mut mats = vec![];
    for j in nodes {
        let a = j.as_array()?;
        let mut mat = None;
        let node = match (a.first()?.as_str()?, a.len()) {
            ("src", 3) => source_node(shape_of_name(a[1].as_str()?)?, &parse_vals(&a[2]).ok()?),
            ("mat", 3) => {
                let sh = shape_of_name(a[1].as_str()?)?;
                mat = Some(sh);
                mat_node(sh, &parse_vals(&a[2]).ok()?)
            }
            ("st", 2) => {
                let mut ops = vec![];
                for item in a[1].as_array()? {
                    ops.push(defs.item(item)?.0);
                }
                Node::Stateless(ops)
            }
            ("gbk", 1) => gbk_node(),
            ("cv", 3) => cv_node(&parse_cid(&a[1]).ok()?, a[2].as_bool()?),
            ("cg", 4) => {
                let fanout = if a[3].is_null() { None } else { Some(a[3].as_u64()? as usize) };
                cg_node(&parse_cid(&a[1]).ok()?, a[2].as_bool()?, fanout)
            }
            _ => return None,
        };
        chain.push(node);
        mats.push(mat);
    }
    Some((chain, mats))
}

fn parse_syn(input: &Value) -> Option<(Shape, Vec<Node>, Vec<Option<Shape>>, usize)> {
    let a = input.as_array()?;
    if a.len() != 3 {
        return None;
    }
    let term = shape_of_name(a[0].as_str()?)?;
    let (chain, mats) = build_syn(a[1].as_array()?)?;
    Some((term, chain, mats, a[2].as_u64()? as usize))
}

fn run_syn(input: &Value) -> Value {
    let Some((term, raw, mats, parts)) = parse_syn(input) else { return json!(["invalid"]) };
    let s = structure(&raw);
    let execs = with_row_type!(term, T => exec4::<T>(&s.optimised, &raw, parts));
    let mut prefixes = vec![];
    for (i, m) in mats.iter().enumerate() {
        if let Some(sh) = m {
            if i + 1 < raw.len() {
                prefixes.push(with_row_type!(*sh, T => run_seq::<T>(&raw[..i])));
            }
        }
    }
    let explain = explain_chain(if mutant().as_deref() == Some("explain_raw") { &raw } else { &s.optimised });
    json!(["ok", s.descs, s.opinfo, execs, [Value::Array(prefixes), explain]])
}

// ------------------------------------------------------------------ kind "xf"
// a REAL pipeline: from_vec, then one `apply_transform(arc.clone())` per item (the public way to put
// a user operator - possibly the same Arc several times - into a pipeline), and the real barrier
// builders; described in the synthetic-chain syntax (each "st" holds exactly one item, no "mat")

fn xf_apply<T: Row>(c: &PCollection<T>, op: Arc<dyn DynOp>, tout: Shape) -> Coll {
    match tout {
        Shape::U => Coll::U(c.apply_transform::<Val>(op)),
        Shape::KV => Coll::KV(c.apply_transform::<(Val, Val)>(op)),
        Shape::KG => Coll::KG(c.apply_transform::<(Val, Vec<Val>)>(op)),
        Shape::KW => Coll::KW(c.apply_transform::<(Val, Wrapped)>(op)),
        Shape::L => Coll::L(c.apply_transform::<Vec<Val>>(op)),
    }
}
fn coll_shape(c: &Coll) -> Shape {
    match c {
        Coll::U(_) => Shape::U,
        Coll::KV(_) => Shape::KV,
        Coll::KG(_) => Shape::KG,
        Coll::KW(_) => Shape::KW,
        Coll::L(_) => Shape::L,
    }
}
fn build_xf(p: &Pipeline, nodes: &[Value]) -> Option<Coll> {
    let mut defs = Defs::default();
    let first = nodes.first()?.as_array()?;
    if first.len() != 3 || first[0] != json!("src") {
        return None;
    }
    let rows = parse_vals(&first[2]).ok()?;
    let mut coll = match shape_of_name(first[1].as_str()?)? {
        Shape::U => Coll::U(from_vec(p, typed_rows::<Val>(&rows))),
        Shape::KV => Coll::KV(from_vec(p, typed_rows::<(Val, Val)>(&rows))),
        Shape::KG => Coll::KG(from_vec(p, typed_rows::<(Val, Vec<Val>)>(&rows))),
        _ => return None,
    };
    for j in &nodes[1..] {
        let a = j.as_array()?;
        coll = match (a.first()?.as_str()?, a.len(), coll) {
            ("st", 2, c) => {
                let items = a[1].as_array()?;
                if items.len() != 1 {
                    return None;
                }
                let (op, spec) = defs.item(&items[0])?;
                match &c {
                    Coll::U(c) => xf_apply(c, op, spec.tout),
                    Coll::KV(c) => xf_apply(c, op, spec.tout),
                    Coll::KG(c) => xf_apply(c, op, spec.tout),
                    Coll::KW(c) => xf_apply(c, op, spec.tout),
                    Coll::L(c) => xf_apply(c, op, spec.tout),
                }
            }
            ("gbk", 1, Coll::KV(c)) => Coll::KG(c.group_by_key()),
            ("cv", 3, Coll::KV(c)) if a[2] == json!(false) => {
                let cid = parse_cid(&a[1]).ok()?;
                if cid.list_out() {
                    ibv::with_list_comb!(&cid, cb => Coll::KG(c.combine_values(cb)))
                } else {
                    ibv::with_scalar_comb!(&cid, cb => Coll::KV(c.combine_values(cb)))
                }
            }
            ("cv", 3, Coll::KG(c)) if a[2] == json!(true) => {
                let cid = parse_cid(&a[1]).ok()?;
                if cid.list_out() {
                    ibv::with_list_comb!(&cid, cb => Coll::KG(c.combine_values_lifted(cb)))
                } else {
                    ibv::with_scalar_comb!(&cid, cb => Coll::KV(c.combine_values_lifted(cb)))
                }
            }
            _ => return None,
        };
    }
    Some(coll)
}
fn run_xf(input: &Value) -> Value {
    let parsed = (|| {
        let a = input.as_array()?;
        if a.len() != 3 {
            return None;
        }
        Some((shape_of_name(a[0].as_str()?)?, a[1].as_array()?.clone(), a[2].as_u64()? as usize))
    })();
    let Some((term, nodes, parts)) = parsed else { return json!(["invalid"]) };
    let p = Pipeline::default();
    let Some(coll) = build_xf(&p, &nodes) else { return json!(["invalid"]) };
    if coll_shape(&coll) != term {
        return json!(["invalid"]);
    }
    match coll {
        Coll::U(c) => prog_obs(&p, c, parts),
        Coll::KV(c) => prog_obs(&p, c, parts),
        Coll::KG(c) => prog_obs(&p, c, parts),
        Coll::KW(c) => prog_obs(&p, c, parts),
        Coll::L(c) => prog_obs(&p, c, parts),
    }
}

fn run(kind: &str, input: &Value) -> Value {
    match kind {
        "prog" => run_prog(input),
        "syn" => run_syn(input),
        "xf" => run_xf(input),
        _ => json!(["invalid"]),
    }
}

// ------------------------------------------------------------------ generators

/// did the optimiser change the chain (descriptor of the optimised chain differs from the raw one)
fn changed(out: &Value) -> bool {
    out[0] == json!("ok") && out[1][0] != out[1][7]
}

fn emit_prog_case(em: &mut Emitter, src: &Src, steps: &[Step], parts: usize, tags: &[&str]) -> bool {
    if steps_shape(steps, src.shape()).is_err() {
        return false;
    }
    let input = json!([src_json(src), steps_json(steps), parts]);
    let probe = run_prog(&input);
    if probe[0] != json!("ok") {
        return false;
    }
    let mut t: Vec<&str> = tags.to_vec();
    if reorder_changes(steps) {
        t.push("reorder_class");
    }
    if has_barrier(steps) {
        t.push("barrier");
    }
    em.case("prog", input, changed(&probe), &t);
    true
}
fn emit_syn_case(em: &mut Emitter, term: Shape, nodes: &[Value], parts: usize, tags: &[&str]) {
    let input = json!([name_of_shape(term), nodes, parts]);
    let probe = run_syn(&input);
    assert!(probe[0] == json!("ok"), "generator produced an invalid synthetic chain: {input}");
    em.case("syn", input, changed(&probe), tags);
}

fn j_src(sh: Shape, rows: &[Val]) -> Value {
    json!(["src", name_of_shape(sh), vals_json(rows)])
}
fn j_mat(sh: Shape, rows: &[Val]) -> Value {
    json!(["mat", name_of_shape(sh), vals_json(rows)])
}
fn j_op(tin: Shape, tout: Shape, body: Value, flags: (bool, bool, bool), cost: u8) -> Value {
    json!([name_of_shape(tin), name_of_shape(tout), body, flags.0, flags.1, flags.2, cost])
}
fn j_st(ops: Vec<Value>) -> Value {
    json!(["st", ops])
}
fn b_mapv(f: &EFun) -> Value {
    json!(["mapv", efun_json(f)])
}
fn b_filtv(p: &PFun) -> Value {
    json!(["filtv", pfun_json(p)])
}
fn b_map(f: &EFun) -> Value {
    json!(["map", efun_json(f)])
}
fn b_filter(p: &PFun) -> Value {
    json!(["filter", pfun_json(p)])
}
fn j_cv(c: &Cid, lifted: bool) -> Value {
    json!(["cv", cid_json(c), lifted])
}
fn j_cg(c: &Cid, lifted: bool, fanout: Option<usize>) -> Value {
    json!(["cg", cid_json(c), lifted, fanout])
}
const TTT: (bool, bool, bool) = (true, true, true);
const FFF: (bool, bool, bool) = (false, false, false);
const COSTS: [u8; 5] = [0, 1, 2, 3, 10];
fn flags_of(i: usize) -> (bool, bool, bool) {
    (i & 4 != 0, i & 2 != 0, i & 1 != 0)
}

fn kv_rows4() -> Vec<Val> {
    // the C02 witness rows plus a second key
    [(1, 1), (1, 2), (1, 3), (1, 4), (2, 6)].iter().map(|(k, v)| pair(Val::Int(*k), Val::Int(*v))).collect()
}

/// value-level operator bodies on (Val, Val) rows that do not commute with each other
fn vo_bodies() -> Vec<Value> {
    vec![
        b_mapv(&EFun::Add(1)),
        b_filtv(&PFun::ModEq(2, 0)),
        b_mapv(&EFun::Mul(3)),
        b_filtv(&PFun::Lt(4)),
    ]
}

/// the value of a chain prefix on the real sequential engine (for consistent markers)
fn prefix_value(nodes: &[Value], sh: Shape) -> Option<Vec<Val>> {
    let (chain, _) = build_syn(nodes)?;
    let out = with_row_type!(sh, T => run_seq::<T>(&chain));
    if out[0] == json!("ok") { parse_vals(&out[1]).ok() } else { None }
}

const ALL_CIDS: [Cid; 9] = [
    Cid::Sum,
    Cid::Count,
    Cid::Min,
    Cid::Max,
    Cid::TopK(2),
    Cid::TopK(0),
    Cid::Distinct,
    Cid::SumMod(5),
    Cid::Gcd,
];
fn cv_out(c: &Cid) -> Shape {
    if c.list_out() { Shape::KG } else { Shape::KV }
}
fn cg_out(c: &Cid) -> Shape {
    if c.list_out() { Shape::L } else { Shape::U }
}

fn fixed_programs() -> Vec<(Shape, Vec<Step>, &'static str)> {
    let even = PFun::ModEq(2, 0);
    let mut v: Vec<(Shape, Vec<Step>, &'static str)> = vec![
        // the two C02 / C03 reorder witnesses (known-finding class)
        (Shape::KV, vec![Step::MapValues(EFun::Add(1)), Step::FilterValues(even.clone())], "witness_a"),
        (Shape::KV, vec![Step::MapValuesW(EFun::Id), Step::FilterValuesW(PFun::Lt(3)), Step::MapValuesBack(EFun::Id)],
         "witness_b"),
        // value-only blocks already in sort order: the pass sorts, nothing moves
        (Shape::KV, vec![Step::FilterValues(even.clone()), Step::FilterValues(PFun::Lt(20)),
                         Step::MapValuesBatches(2, BFun::Each(EFun::Add(1))), Step::MapValues(EFun::Mul(2))],
         "sorted_block"),
        (Shape::KV, vec![Step::MapValues(EFun::Add(1)), Step::MapValues(EFun::Mul(2))], "equal_costs"),
        // a whole-row operator pins the block
        (Shape::KV, vec![Step::MapValues(EFun::Add(1)), Step::Filter(PFun::Lt(2)), Step::FilterValues(even.clone())],
         "pinned_block"),
        // a barrier separates two value-only operators: not one block
        (Shape::KV, vec![Step::MapValues(EFun::Add(1)), Step::CombineValues(Cid::Sum), Step::FilterValues(even.clone())],
         "split_block"),
        // the Props/C03 example
        (Shape::U, vec![Step::Map(EFun::Add(1)), Step::KeyBy(EFun::Mod(2)), Step::GroupByKey,
                        Step::CombineValuesLifted(Cid::Sum), Step::Unkey], "example"),
        // GroupByKey and a lifted combine separated by a Stateless node: must not lift
        (Shape::KV, vec![Step::GroupByKey, Step::Filter(PFun::Lt(2)), Step::CombineValuesLifted(Cid::Sum)], "no_lift"),
        // two GBK + combine pairs
        (Shape::KV, vec![Step::GroupByKey, Step::CombineValuesLifted(Cid::Sum), Step::GroupByKey,
                         Step::CombineValuesLifted(Cid::Count)], "two_pairs"),
        (Shape::KV, vec![Step::GroupByKey, Step::CombineValuesLifted(Cid::TopK(2)), Step::GroupsToList,
                         Step::MapValues(EFun::Len), Step::FilterValues(PFun::Lt(2))], "pair_then_block"),
        (Shape::KV, vec![Step::DistinctPerKey, Step::MapValues(EFun::Add(1))], "distinct_per_key"),
        (Shape::U, vec![Step::Map(EFun::Mod(5)), Step::Distinct, Step::Map(EFun::Add(1)), Step::Filter(PFun::Lt(4))],
         "distinct"),
        (Shape::KV, vec![Step::TopKPerKey(2), Step::GroupsToList, Step::Unkey], "topk"),
        (Shape::KV, vec![Step::MapValues(EFun::Add(1)),
                         Step::Join(JoinKind::Left, vec![Step::MapValues(EFun::Mul(2)), Step::FilterValues(even.clone())],
                                    kv_rows4()),
                         Step::MapValues(EFun::Fst), Step::Filter(PFun::Lt(2))], "join"),
        (Shape::U, vec![Step::Filter(PFun::Lt(30)), Step::Map(EFun::Add(2)), Step::FlatMap(GFun::UpTo(3)),
                        Step::MapBatches(3, BFun::Each(EFun::Mul(2))), Step::CombineGlobally(Cid::Sum, false, Some(2)),
                        Step::Map(EFun::Add(1)), Step::Map(EFun::Mul(2))], "global"),
        (Shape::KG, vec![Step::CombineValuesLifted(Cid::Min)], "lifted_no_gbk"),
        (Shape::KV, vec![], "empty_program"),
    ];
    for c in ALL_CIDS {
        v.push((Shape::KV, vec![Step::GroupByKey, Step::CombineValuesLifted(c.clone())], "pair"));
    }
    v
}

fn gen_fixed_programs(seed: u64, tier: Tier, em: &mut Emitter) {
    let mut rng = seed_mix(seed, 0xC03_0001);
    let maxlen = if tier == Tier::Thorough { 16 } else { 6 };
    for (shape, steps, tag) in fixed_programs() {
        for n in 0..=maxlen {
            for parts in [0usize, 2, n + 1] {
                if tier == Tier::Quick && n > 2 && (n + parts) % 2 == 1 {
                    continue;
                }
                let src = sweep_src(shape, n, n, &mut rng);
                emit_prog_case(em, &src, &steps, parts, &["fixed", tag]);
            }
        }
    }
    // the documented witness data
    let w = Src::Vec(Shape::KV, kv_rows4()[..4].to_vec());
    emit_prog_case(em, &w, &[Step::MapValues(EFun::Add(1)), Step::FilterValues(PFun::ModEq(2, 0))], 2,
                   &["fixed", "witness_a"]);
}

fn gen_random_programs(seed: u64, tier: Tier, em: &mut Emitter) {
    let mut rng = seed_mix(seed, 0xC03_0002);
    let count = if tier == Tier::Thorough { 6000 } else { 800 };
    let mut kept = 0;
    let mut tries = 0;
    while kept < count && tries < count * 20 {
        tries += 1;
        let n = gen_len(&mut rng);
        let src = gen_src(&mut rng, n, true, true);
        let parts = gen_parts(&mut rng, src.len());
        let mut o = if rng.chance(1, 3) { GenOpts::elementwise() } else { GenOpts::all() };
        o.reorder_class = rng.chance(1, 6);
        let nsteps = 1 + rng.below(10) as usize;
        let (steps, _) = gen_program(&mut rng, &src, &o, nsteps, parts);
        // keep programs the optimiser changes (adjacent stateless steps, or a GBK + combine pair)
        if steps_shape(&steps, src.shape()).is_err() {
            continue;
        }
        let probe = run_prog(&json!([src_json(&src), steps_json(&steps), parts]));
        if !changed(&probe) && !rng.chance(1, 16) {
            continue;
        }
        if emit_prog_case(em, &src, &steps, parts, &["random"]) {
            kept += 1;
        }
    }
}

/// blocks of value-level operators with every flag / cost combination
fn gen_blocks(seed: u64, tier: Tier, em: &mut Emitter) {
    let rows = kv_rows4();
    let bodies = vo_bodies();
    let mut idx = 0usize;
    let mut block = |em: &mut Emitter, ops: Vec<Value>, tag: &str| {
        // alternate: one node per operator (fusion builds the block) / one pre-fused node
        let nodes: Vec<Value> = if idx % 2 == 0 {
            std::iter::once(j_src(Shape::KV, &rows)).chain(ops.into_iter().map(|o| j_st(vec![o]))).collect()
        } else {
            vec![j_src(Shape::KV, &rows), j_st(ops)]
        };
        let parts = [0, 2, 3][idx % 3];
        idx += 1;
        emit_syn_case(em, Shape::KV, &nodes, parts, &["block", tag]);
    };
    // length 2: all 8 x 8 flag combinations x 5 x 5 costs, non-commuting bodies
    for f1 in 0..8 {
        for f2 in 0..8 {
            for c1 in COSTS {
                for c2 in COSTS {
                    let ops = vec![
                        j_op(Shape::KV, Shape::KV, bodies[0].clone(), flags_of(f1), c1),
                        j_op(Shape::KV, Shape::KV, bodies[1].clone(), flags_of(f2), c2),
                    ];
                    block(em, ops, "len2");
                }
            }
        }
    }
    // length 3: all-safe flags x all costs; then one unsafe operator at each position
    let costs3: &[u8] = if tier == Tier::Thorough { &COSTS } else { &[1, 2, 3, 10] };
    for c1 in COSTS {
        for c2 in COSTS {
            for c3 in COSTS {
                let ops = vec![
                    j_op(Shape::KV, Shape::KV, bodies[0].clone(), TTT, c1),
                    j_op(Shape::KV, Shape::KV, bodies[1].clone(), TTT, c2),
                    j_op(Shape::KV, Shape::KV, bodies[2].clone(), TTT, c3),
                ];
                block(em, ops, "len3_safe");
            }
        }
    }
    for pos in 0..3 {
        for f in 0..7 {
            for c1 in costs3 {
                for c2 in costs3 {
                    for c3 in costs3 {
                        if tier == Tier::Quick && (*c1 as usize + *c2 as usize + *c3 as usize + f + pos) % 3 != 0 {
                            continue;
                        }
                        let fl = |p: usize| if p == pos { flags_of(f) } else { TTT };
                        let ops = vec![
                            j_op(Shape::KV, Shape::KV, bodies[3].clone(), fl(0), *c1),
                            j_op(Shape::KV, Shape::KV, bodies[0].clone(), fl(1), *c2),
                            j_op(Shape::KV, Shape::KV, bodies[1].clone(), fl(2), *c3),
                        ];
                        block(em, ops, "len3_mixed");
                    }
                }
            }
        }
    }
    if tier == Tier::Thorough {
        // length 3, all 8^3 flag combinations over three costs
        for f1 in 0..8 {
            for f2 in 0..8 {
                for f3 in 0..8 {
                    for (c1, c2, c3) in [(3u8, 1u8, 2u8), (10, 0, 1), (2, 2, 1)] {
                        let ops = vec![
                            j_op(Shape::KV, Shape::KV, bodies[0].clone(), flags_of(f1), c1),
                            j_op(Shape::KV, Shape::KV, bodies[1].clone(), flags_of(f2), c2),
                            j_op(Shape::KV, Shape::KV, bodies[2].clone(), flags_of(f3), c3),
                        ];
                        block(em, ops, "len3_flags");
                    }
                }
            }
        }
    }
    // a re-typing value operator moved in front of its producer: the optimised run panics
    let ops = vec![
        j_op(Shape::KV, Shape::KW, b_mapv(&EFun::Id), TTT, 3),
        j_op(Shape::KW, Shape::KW, b_filtv(&PFun::Lt(3)), TTT, 1),
    ];
    emit_syn_case(em, Shape::KW, &[j_src(Shape::KV, &rows), j_st(ops)], 2, &["block", "retype"]);
    // two blocks separated by a barrier are sorted separately
    let _ = seed;
    let nodes = vec![
        j_src(Shape::KV, &rows),
        j_st(vec![j_op(Shape::KV, Shape::KV, bodies[0].clone(), TTT, 1)]),
        j_st(vec![j_op(Shape::KV, Shape::KV, bodies[1].clone(), TTT, 3)]),
        j_cv(&Cid::Sum, false),
        j_st(vec![j_op(Shape::KV, Shape::KV, bodies[2].clone(), TTT, 3)]),
        j_st(vec![j_op(Shape::KV, Shape::KV, bodies[3].clone(), TTT, 1)]),
    ];
    emit_syn_case(em, Shape::KV, &nodes, 2, &["block", "two_blocks"]);
    // empty Stateless nodes
    let nodes = vec![j_src(Shape::KV, &rows), j_st(vec![]), j_st(vec![j_op(Shape::KV, Shape::KV, bodies[0].clone(), FFF, 10)]),
                     j_st(vec![])];
    emit_syn_case(em, Shape::KV, &nodes, 2, &["block", "empty_st"]);
}

/// Materialized markers: terminal, non-terminal (consistent and not), several, alone
fn gen_markers(_seed: u64, _tier: Tier, em: &mut Emitter) {
    let rows = kv_rows4();
    let other: Vec<Val> = vec![pair(Val::Int(9), Val::Int(9))];
    let op1 = j_st(vec![j_op(Shape::KV, Shape::KV, b_mapv(&EFun::Add(1)), FFF, 10)]);
    let op2 = j_st(vec![j_op(Shape::KV, Shape::KV, b_filtv(&PFun::ModEq(2, 0)), FFF, 10)]);
    let unkey = j_st(vec![j_op(Shape::KV, Shape::U, b_map(&EFun::Id), FFF, 10)]);
    let src = j_src(Shape::KV, &rows);
    let t = &["marker"];
    for parts in [0usize, 2] {
        // consistent marker between two Stateless nodes (which then fuse... after drop_mid: no)
        let pre = vec![src.clone(), op1.clone()];
        let val = prefix_value(&pre, Shape::KV).expect("prefix value");
        let mut nodes = pre.clone();
        nodes.push(j_mat(Shape::KV, &val));
        nodes.push(op2.clone());
        emit_syn_case(em, Shape::KV, &nodes, parts, &["marker", "consistent"]);
        // the same with an inconsistent payload
        let mut nodes = pre.clone();
        nodes.push(j_mat(Shape::KV, &other));
        nodes.push(op2.clone());
        emit_syn_case(em, Shape::KV, &nodes, parts, &["marker", "inconsistent"]);
        // consistent marker whose row type is not the terminal type
        let mut nodes = pre.clone();
        nodes.push(j_mat(Shape::KV, &val));
        nodes.push(unkey.clone());
        emit_syn_case(em, Shape::U, &nodes, parts, &["marker", "consistent_other_type"]);
        // terminal marker (kept): consistent, inconsistent, wrong type
        let mut nodes = pre.clone();
        nodes.push(j_mat(Shape::KV, &val));
        emit_syn_case(em, Shape::KV, &nodes, parts, &["marker", "terminal"]);
        let mut nodes = pre.clone();
        nodes.push(j_mat(Shape::KV, &other));
        emit_syn_case(em, Shape::KV, &nodes, parts, &["marker", "terminal"]);
        let mut nodes = pre.clone();
        nodes.push(j_mat(Shape::U, &[Val::Int(1)]));
        emit_syn_case(em, Shape::KV, &nodes, parts, &["marker", "terminal"]);
        // marker right after the source, two markers in a row, marker first, marker alone
        emit_syn_case(em, Shape::KV, &[src.clone(), j_mat(Shape::KV, &rows), op1.clone(), op2.clone()], parts, t);
        emit_syn_case(em, Shape::KV, &[src.clone(), j_mat(Shape::KV, &rows), j_mat(Shape::KV, &rows), op1.clone()], parts, t);
        emit_syn_case(em, Shape::KV, &[src.clone(), op1.clone(), j_mat(Shape::KV, &val), j_mat(Shape::KV, &val)], parts, t);
        emit_syn_case(em, Shape::KV, &[j_mat(Shape::KV, &rows), op1.clone()], parts, t);
        emit_syn_case(em, Shape::KV, &[j_mat(Shape::KV, &rows)], parts, t);
        emit_syn_case(em, Shape::KV, &[j_mat(Shape::KV, &rows), j_mat(Shape::KV, &other)], parts, t);
        emit_syn_case(em, Shape::KV, &[src.clone()], parts, t);
        // the empty chain: both engines panic (unwrap of no buffer / chain[0]), every pass returns it
        emit_syn_case(em, Shape::KV, &[], parts, t);
        // a second Source in the middle of a chain is not a marker: no pass may touch it
        emit_syn_case(em, Shape::KV, &[src.clone(), op1.clone(), j_src(Shape::KV, &other), op2.clone()], parts,
                      &["marker", "mid_source"]);
        emit_syn_case(em, Shape::KV, &[src.clone(), j_src(Shape::KV, &other), j_mat(Shape::KV, &other), op1.clone()],
                      parts, &["marker", "mid_source"]);
        // consistent marker after a barrier (payload = the prefix value up to map order)
        let pre = vec![src.clone(), json!(["gbk"])];
        let val = prefix_value(&pre, Shape::KG).expect("prefix value");
        let mut nodes = pre.clone();
        nodes.push(j_mat(Shape::KG, &val));
        nodes.push(j_st(vec![j_op(Shape::KG, Shape::KG, b_filter(&PFun::Lt(2)), FFF, 10)]));
        emit_syn_case(em, Shape::KG, &nodes, parts, &["marker", "consistent", "barrier"]);
        // a marker between GroupByKey and a lifted combine: lift runs before drop_mid, no lifting
        let mut nodes = pre.clone();
        nodes.push(j_mat(Shape::KG, &val));
        nodes.push(j_cv(&Cid::Sum, true));
        emit_syn_case(em, Shape::KV, &nodes, parts, &["marker", "consistent", "barrier", "between_pair"]);
    }
}

/// GroupByKey / combine arrangements
fn gen_barriers(_seed: u64, tier: Tier, em: &mut Emitter) {
    let rows = kv_rows4();
    let groups: Vec<Val> = vec![
        pair(Val::Int(1), Val::List(vec![Val::Int(4), Val::Int(2)])),
        pair(Val::Int(2), Val::List(vec![])),
        pair(Val::Int(1), Val::List(vec![Val::Int(7)])),
    ];
    let src = j_src(Shape::KV, &rows);
    let gbk = json!(["gbk"]);
    let t = &["barrier"];
    let partss: &[usize] = if tier == Tier::Thorough { &[0, 1, 2, 3, 6] } else { &[0, 3] };
    for &parts in partss {
        for c in ALL_CIDS {
            let out = cv_out(&c);
            // the lifting pattern
            emit_syn_case(em, out, &[src.clone(), gbk.clone(), j_cv(&c, true)], parts, &["barrier", "pair"]);
            // GroupByKey followed by a combine without lifted local: fed groups, it panics
            emit_syn_case(em, out, &[src.clone(), gbk.clone(), j_cv(&c, false)], parts, t);
            // combines alone
            emit_syn_case(em, out, &[src.clone(), j_cv(&c, false)], parts, t);
            emit_syn_case(em, out, &[j_src(Shape::KG, &groups), j_cv(&c, true)], parts, t);
            // separated by a Stateless node: must not lift
            let sep = j_st(vec![j_op(Shape::KG, Shape::KG, b_filter(&PFun::Lt(5)), FFF, 10)]);
            emit_syn_case(em, out, &[src.clone(), gbk.clone(), sep, j_cv(&c, true)], parts, &["barrier", "no_lift"]);
            // separated by an EMPTY Stateless node: still not adjacent
            emit_syn_case(em, out, &[src.clone(), gbk.clone(), j_st(vec![]), j_cv(&c, true)], parts,
                          &["barrier", "no_lift"]);
        }
        // two pairs in one chain, the second fed by the first
        emit_syn_case(em, Shape::KV,
                      &[src.clone(), gbk.clone(), j_cv(&Cid::Sum, true), gbk.clone(), j_cv(&Cid::Count, true)],
                      parts, &["barrier", "two_pairs"]);
        // lifted pair followed by a non-lifted pair
        emit_syn_case(em, Shape::KV,
                      &[src.clone(), gbk.clone(), j_cv(&Cid::Max, true), gbk.clone(), j_cv(&Cid::Sum, false)],
                      parts, t);
        // GBK GBK combine: only the second GBK is adjacent to the combine; ill-typed either way
        emit_syn_case(em, Shape::KV, &[src.clone(), gbk.clone(), gbk.clone(), j_cv(&Cid::Sum, true)], parts, t);
        // the pair at the very end / very start of a longer chain, with blocks around it
        let pre = j_st(vec![j_op(Shape::KV, Shape::KV, b_mapv(&EFun::Add(1)), TTT, 1)]);
        let pre2 = j_st(vec![j_op(Shape::KV, Shape::KV, b_filtv(&PFun::Lt(6)), TTT, 1)]);
        let post = j_st(vec![j_op(Shape::KV, Shape::U, b_map(&EFun::Snd), FFF, 10)]);
        for (fan, lifted) in [(None, false), (Some(0), true), (Some(2), false), (Some(3), true)] {
            emit_syn_case(em, Shape::U,
                          &[src.clone(), pre.clone(), pre2.clone(), gbk.clone(), j_cv(&Cid::Sum, true), post.clone(),
                            j_cg(&Cid::Sum, lifted, fan)],
                          parts, &["barrier", "pair", "global"]);
            emit_syn_case(em, Shape::L,
                          &[src.clone(), post.clone(), j_cg(&Cid::TopK(3), lifted, fan)], parts, &["barrier", "global"]);
        }
        // a global Min of nothing panics in every mode, optimised or not
        emit_syn_case(em, Shape::U, &[j_src(Shape::U, &[]), j_cg(&Cid::Min, false, None)], parts, t);
    }
}

/// random chains of up to 8 nodes, mostly well typed
fn gen_random_chains(seed: u64, tier: Tier, em: &mut Emitter) {
    let mut rng = seed_mix(seed, 0xC03_0003);
    let count = if tier == Tier::Thorough { 8000 } else { 1000 };
    for _ in 0..count {
        let n = rng.below(9) as usize;
        let mut shape = *rng.pick(&[Shape::U, Shape::KV, Shape::KV, Shape::KV, Shape::KG]);
        let rows: Vec<Val> = match shape {
            Shape::U => ints(n, &mut rng),
            Shape::KV => pattern_kv(*rng.pick(&PATTERNS), n, &mut rng),
            _ => (0..n)
                .map(|_| pair(Val::Int(rng.range(0, 2)), Val::List(ints(1 + rng.below(3) as usize, &mut rng))))
                .collect(),
        };
        let mut nodes = vec![j_src(shape, &rows)];
        let len = rng.below(8) as usize;
        let mut mats = 0;
        for _ in 0..len {
            if rng.chance(1, 14) {
                // a marker: consistent when the prefix has a value, else arbitrary
                let val = prefix_value(&nodes, shape);
                match val {
                    Some(v) if rng.chance(3, 4) => nodes.push(j_mat(shape, &v)),
                    _ => nodes.push(j_mat(Shape::KV, &kv_rows4())),
                }
                mats += 1;
                continue;
            }
            if rng.chance(1, 40) {
                // ill-typed on purpose
                nodes.push(json!(["gbk"]));
                shape = Shape::KG;
                continue;
            }
            let (node, next) = random_node(&mut rng, shape);
            nodes.push(node);
            shape = next;
        }
        let parts = rng.below(n as u64 + 3) as usize;
        let tags: &[&str] = if mats > 0 { &["random_chain", "marker"] } else { &["random_chain"] };
        emit_syn_case(em, shape, &nodes, parts, tags);
    }
}

fn random_flags(rng: &mut SplitMix64) -> (bool, bool, bool) {
    if rng.chance(1, 2) { TTT } else { flags_of(rng.below(8) as usize) }
}
fn random_scalar_cid(rng: &mut SplitMix64) -> Cid {
    rng.pick(&[Cid::Sum, Cid::Count, Cid::SumMod(7), Cid::Gcd, Cid::Max, Cid::Min]).clone()
}

/// one node that accepts rows of `shape`, and the shape it delivers
fn random_node(rng: &mut SplitMix64, shape: Shape) -> (Value, Shape) {
    let cost = *rng.pick(&COSTS);
    let fl = random_flags(rng);
    match shape {
        Shape::U => match rng.below(6) {
            0 => (j_st(vec![j_op(Shape::U, Shape::U, b_map(&EFun::Add(rng.range(-2, 3))), fl, cost)]), Shape::U),
            1 => (j_st(vec![j_op(Shape::U, Shape::U, b_filter(&PFun::ModEq(3, rng.range(0, 2))), fl, cost)]), Shape::U),
            2 | 3 => (j_st(vec![j_op(Shape::U, Shape::KV, b_map(&EFun::KeyMod(rng.range(1, 3))), fl, cost)]), Shape::KV),
            4 => {
                let c = random_scalar_cid(rng);
                let c = if matches!(c, Cid::Min | Cid::Max) { Cid::Sum } else { c };
                (j_cg(&c, rng.chance(1, 2), *rng.pick(&[None, Some(0), Some(2), Some(3)])), Shape::U)
            }
            _ => (j_cg(&Cid::TopK(2), rng.chance(1, 2), *rng.pick(&[None, Some(2)])), Shape::L),
        },
        Shape::KV => match rng.below(10) {
            0 | 1 => (j_st(vec![j_op(Shape::KV, Shape::KV, b_mapv(&EFun::Add(rng.range(-2, 3))), fl, cost)]), Shape::KV),
            2 | 3 => (j_st(vec![j_op(Shape::KV, Shape::KV, b_filtv(&PFun::ModEq(2, rng.range(0, 1))), fl, cost)]), Shape::KV),
            4 => {
                // a pre-fused block of two
                let c2 = *rng.pick(&COSTS);
                (j_st(vec![
                    j_op(Shape::KV, Shape::KV, b_mapv(&EFun::Mul(2)), fl, cost),
                    j_op(Shape::KV, Shape::KV, b_filtv(&PFun::Lt(rng.range(0, 30))), random_flags(rng), c2),
                ]), Shape::KV)
            }
            5 => (j_st(vec![j_op(Shape::KV, Shape::KV, b_filter(&PFun::Lt(rng.range(0, 4))), fl, cost)]), Shape::KV),
            6 => (j_st(vec![j_op(Shape::KV, Shape::U, b_map(&EFun::Snd), fl, cost)]), Shape::U),
            7 | 8 => (json!(["gbk"]), Shape::KG),
            _ => {
                let c = random_scalar_cid(rng);
                (j_cv(&c, rng.chance(1, 4)), Shape::KV)
            }
        },
        Shape::KG => match rng.below(6) {
            0 | 1 | 2 => {
                let c = if rng.chance(1, 4) { Cid::TopK(2) } else { random_scalar_cid(rng) };
                let out = cv_out(&c);
                (j_cv(&c, true), out)
            }
            3 => (j_st(vec![j_op(Shape::KG, Shape::KG, b_filter(&PFun::Lt(rng.range(0, 4))), fl, cost)]), Shape::KG),
            4 => (j_st(vec![j_op(Shape::KG, Shape::KV, b_mapv(&EFun::Len), fl, cost)]), Shape::KV),
            _ => (j_st(vec![j_op(Shape::KG, Shape::KV, b_mapv(&EFun::Sum), fl, cost)]), Shape::KV),
        },
        Shape::L => (j_st(vec![j_op(Shape::L, Shape::U, b_map(&EFun::Len), fl, cost)]), Shape::U),
        Shape::KW => (j_st(vec![j_op(Shape::KW, Shape::KV, b_mapv(&EFun::Id), fl, cost)]), Shape::KV),
    }
}

fn j_ref(k: usize) -> Value {
    json!(["ref", k])
}
fn emit_xf_case(em: &mut Emitter, term: Shape, nodes: &[Value], parts: usize, tags: &[&str]) {
    let input = json!([name_of_shape(term), nodes, parts]);
    let probe = run_xf(&input);
    assert!(probe[0] == json!("ok"), "generator produced an invalid transform pipeline: {input}");
    em.case("xf", input, changed(&probe), tags);
}

/// the SAME operator object applied several times: consecutive repeats (k = 2, 3), repeats separated
/// by another operator, the same object in two blocks around a barrier / marker - as synthetic chains
/// (one node per item and pre-fused) and as real pipelines through `apply_transform`
fn gen_reuse(seed: u64, tier: Tier, em: &mut Emitter) {
    let rows = kv_rows4();
    let src = j_src(Shape::KV, &rows);
    let kv = Shape::KV;
    // non-idempotent bodies: x*3, x+1 ; an idempotent filter
    let bodies = [b_mapv(&EFun::Mul(3)), b_mapv(&EFun::Add(1)), b_filtv(&PFun::Lt(20))];
    // item lists over two definitions a (= def 0), b (= def 1): the first use of each defines it
    let shapes: [&[usize]; 10] = [
        &[0, 0], &[0, 0, 0], &[0, 1, 0], &[0, 0, 1], &[1, 0, 0], &[0, 1, 1, 0], &[0, 1, 0, 1], &[0, 0, 1, 1],
        &[0, 0, 0, 0], &[0, 1, 1],
    ];
    let flag_sets: &[((bool, bool, bool), (bool, bool, bool))] =
        &[(FFF, FFF), (TTT, TTT), (TTT, (true, true, false)), ((false, true, true), TTT)];
    let cost_sets: &[(u8, u8)] = if tier == Tier::Thorough {
        &[(10, 10), (3, 1), (1, 3), (2, 2), (0, 1), (1, 1), (3, 0), (10, 2)]
    } else {
        &[(10, 10), (3, 1), (1, 3), (2, 2)]
    };
    let mut idx = 0usize;
    for (bi, (ba, bb)) in [(0usize, 1usize), (0, 2), (1, 0)].iter().enumerate() {
        for sh in shapes {
            for (fa, fb) in flag_sets {
                for (ca, cb) in cost_sets {
                    if tier == Tier::Quick && (idx + bi) % 2 == 1 && sh.len() > 3 {
                        idx += 1;
                        continue;
                    }
                    let mut defined = [false, false];
                    let mut next_def = 0usize;
                    let mut def_idx = [0usize, 0usize];
                    let items: Vec<Value> = sh
                        .iter()
                        .map(|&w| {
                            if defined[w] {
                                j_ref(def_idx[w])
                            } else {
                                defined[w] = true;
                                def_idx[w] = next_def;
                                next_def += 1;
                                if w == 0 {
                                    j_op(kv, kv, bodies[*ba].clone(), *fa, *ca)
                                } else {
                                    j_op(kv, kv, bodies[*bb].clone(), *fb, *cb)
                                }
                            }
                        })
                        .collect();
                    let parts = [0usize, 2, 3][idx % 3];
                    let per_node: Vec<Value> =
                        std::iter::once(src.clone()).chain(items.iter().map(|o| j_st(vec![o.clone()]))).collect();
                    match idx % 3 {
                        0 => emit_syn_case(em, kv, &per_node, parts, &["reuse", "per_node"]),
                        1 => emit_syn_case(em, kv, &[src.clone(), j_st(items.clone())], parts, &["reuse", "prefused"]),
                        _ => emit_xf_case(em, kv, &per_node, parts, &["reuse", "apply_transform"]),
                    }
                    idx += 1;
                }
            }
        }
    }
    // the documented shape of the seeded change: x*3 applied twice / three times through one Arc
    let a = j_op(kv, kv, bodies[0].clone(), FFF, 10);
    let b = j_op(kv, kv, bodies[1].clone(), FFF, 10);
    for parts in [0usize, 2] {
        for k in [2usize, 3] {
            let mut nodes = vec![src.clone(), j_st(vec![a.clone()])];
            for _ in 1..k {
                nodes.push(j_st(vec![j_ref(0)]));
            }
            emit_xf_case(em, kv, &nodes, parts, &["reuse", "apply_transform", "repeat"]);
            emit_syn_case(em, kv, &nodes, parts, &["reuse", "per_node", "repeat"]);
        }
        // separated by another operator; the same object on both sides of a barrier / of a marker
        let sep = vec![src.clone(), j_st(vec![a.clone()]), j_st(vec![b.clone()]), j_st(vec![j_ref(0)])];
        emit_xf_case(em, kv, &sep, parts, &["reuse", "apply_transform", "separated"]);
        emit_syn_case(em, kv, &sep, parts, &["reuse", "per_node", "separated"]);
        let around = vec![src.clone(), j_st(vec![a.clone()]), j_st(vec![j_ref(0)]), j_cv(&Cid::Sum, false),
                          j_st(vec![j_ref(0)]), j_st(vec![j_ref(0)])];
        emit_xf_case(em, kv, &around, parts, &["reuse", "apply_transform", "around_barrier"]);
        emit_syn_case(em, kv, &around, parts, &["reuse", "per_node", "around_barrier"]);
        let around2 = vec![src.clone(), j_st(vec![a.clone()]), json!(["gbk"]), j_cv(&Cid::Sum, true),
                           j_st(vec![j_ref(0)]), j_st(vec![b.clone()]), j_st(vec![j_ref(1)])];
        emit_xf_case(em, kv, &around2, parts, &["reuse", "apply_transform", "around_pair"]);
        let pre = vec![src.clone(), j_st(vec![a.clone()])];
        let val = prefix_value(&pre, kv).expect("prefix value");
        let mut nodes = pre.clone();
        nodes.push(j_mat(kv, &val));
        nodes.push(j_st(vec![j_ref(0)]));
        nodes.push(j_st(vec![j_ref(0)]));
        emit_syn_case(em, kv, &nodes, parts, &["reuse", "per_node", "around_marker"]);
        // an empty Stateless node between two uses of one object
        emit_syn_case(em, kv, &[src.clone(), j_st(vec![a.clone()]), j_st(vec![]), j_st(vec![j_ref(0)])], parts,
                      &["reuse", "per_node", "repeat"]);
    }
    // random sequences over three objects
    let mut rng = seed_mix(seed, 0xC03_0004);
    let count = if tier == Tier::Thorough { 2000 } else { 150 };
    for i in 0..count {
        let nobj = 1 + rng.below(3) as usize;
        let specs: Vec<Value> = (0..nobj)
            .map(|_| {
                let body = bodies[rng.below(3) as usize].clone();
                j_op(kv, kv, body, random_flags(&mut rng), *rng.pick(&COSTS))
            })
            .collect();
        let len = 2 + rng.below(5) as usize;
        let mut def_idx: Vec<Option<usize>> = vec![None; nobj];
        let mut next_def = 0usize;
        let mut nodes = vec![src.clone()];
        let mut block: Vec<Value> = vec![];
        let fused = i % 3 == 1;
        for _ in 0..len {
            if i % 3 != 2 && rng.chance(1, 6) {
                if !block.is_empty() {
                    nodes.push(j_st(std::mem::take(&mut block)));
                }
                nodes.push(j_cv(&Cid::Sum, false));
                continue;
            }
            let w = rng.below(nobj as u64) as usize;
            let item = match def_idx[w] {
                Some(k) => j_ref(k),
                None => {
                    def_idx[w] = Some(next_def);
                    next_def += 1;
                    specs[w].clone()
                }
            };
            if fused {
                block.push(item);
            } else {
                nodes.push(j_st(vec![item]));
            }
        }
        if !block.is_empty() {
            nodes.push(j_st(block));
        }
        let parts = rng.below(5) as usize;
        if i % 3 == 2 {
            emit_xf_case(em, kv, &nodes, parts, &["reuse", "apply_transform", "random"]);
        } else {
            emit_syn_case(em, kv, &nodes, parts, &["reuse", if fused { "prefused" } else { "per_node" }, "random"]);
        }
    }
}

/// x -> (2x + i) mod m: cheap, and every operator of a long chain matters for the result
fn long_fun(i: usize) -> EFun {
    EFun::Comp(
        Box::new(EFun::Mul(2)),
        Box::new(EFun::Comp(Box::new(EFun::Add(i as i64 + 1)), Box::new(EFun::Mod(1_000_003)))),
    )
}

/// long runs of Stateless nodes (a cap / off-by-one in fusion shows only beyond 64 operators), and
/// blocks made only of zero-cost operators
fn gen_long(_seed: u64, tier: Tier, em: &mut Emitter) {
    let kv = Shape::KV;
    let rows = kv_rows4();
    let src = j_src(kv, &rows);
    let op = |i: usize, fl: (bool, bool, bool), cost: u8| j_op(kv, kv, b_mapv(&long_fun(i)), fl, cost);
    let sizes: &[usize] = if tier == Tier::Thorough {
        &[1, 31, 32, 33, 62, 63, 64, 65, 66, 67, 70, 96, 127, 128, 129, 130, 192, 193, 257]
    } else {
        &[63, 64, 65, 66, 70, 130]
    };
    // blocks around the small-slice threshold of the standard sorts (20 / 21 elements)
    for (k, n) in [5usize, 19, 20, 21, 22, 24, 33, 40, 50].into_iter().enumerate() {
        let parts = [0usize, 2, 3][k % 3];
        for (name, cost) in [("unsorted_equal_costs", (|i: usize| if i % 4 == 3 { 1 } else { 3 }) as fn(usize) -> u8),
                             ("unsorted_three_costs", |i: usize| [3u8, 5, 1, 3, 3, 2][i % 6])] {
            let unsorted: Vec<Value> = std::iter::once(src.clone())
                .chain((0..n).map(|i| j_st(vec![op(i, TTT, cost(i))])))
                .collect();
            emit_xf_case(em, kv, &unsorted, parts, &["long", "apply_transform", name]);
            if k % 2 == 0 {
                emit_syn_case(em, kv, &unsorted, parts, &["long", "per_node", name]);
            }
        }
    }
    for (k, &n) in sizes.iter().enumerate() {
        let parts = [0usize, 2, 3][k % 3];
        let per_node: Vec<Value> =
            std::iter::once(src.clone()).chain((0..n).map(|i| j_st(vec![op(i, FFF, 10)]))).collect();
        emit_syn_case(em, kv, &per_node, parts, &["long", "per_node"]);
        emit_xf_case(em, kv, &per_node, parts, &["long", "apply_transform"]);
        // one pre-fused block; a pre-fused block followed by single nodes
        emit_syn_case(em, kv, &[src.clone(), j_st((0..n).map(|i| op(i, FFF, 10)).collect())], parts,
                      &["long", "prefused"]);
        let mut mixed = vec![src.clone(), j_st((0..n / 2).map(|i| op(i, FFF, 10)).collect())];
        mixed.extend((n / 2..n).map(|i| j_st(vec![op(i, FFF, 10)])));
        emit_syn_case(em, kv, &mixed, parts, &["long", "mixed"]);
        // all value-only with equal costs: the block is sorted (stably) and nothing moves
        if k % 2 == 0 {
            let safe: Vec<Value> =
                std::iter::once(src.clone()).chain((0..n).map(|i| j_st(vec![op(i, TTT, 3)]))).collect();
            emit_xf_case(em, kv, &safe, parts, &["long", "apply_transform", "safe_equal_costs"]);
        }
        // all value-only, UNSORTED, with many equal costs (every fourth operator is cheap): the
        // reorder pass must move the cheap ones to the front and keep every other relative order
        // (a stable sort - blocks of more than 20 operators expose an unstable one)
        {
            let unsorted: Vec<Value> = std::iter::once(src.clone())
                .chain((0..n).map(|i| j_st(vec![op(i, TTT, if i % 4 == 3 { 1 } else { 3 })])))
                .collect();
            emit_xf_case(em, kv, &unsorted, parts, &["long", "apply_transform", "unsorted_equal_costs"]);
            emit_syn_case(em, kv, &unsorted, parts, &["long", "per_node", "unsorted_equal_costs"]);
        }
        // a real program of n map steps through the step language
        if n != 64 && n != 66 || tier == Tier::Thorough {
            let data: Vec<Val> = (0..5).map(|i| Val::Int(3 * i + 1)).collect();
            let steps: Vec<Step> = (0..n).map(|i| Step::Map(long_fun(i))).collect();
            emit_prog_case(em, &Src::Vec(Shape::U, data), &steps, parts, &["long", "program"]);
        }
        // the same operator object n times
        if n == 70 || tier == Tier::Thorough {
            let mut reuse = vec![src.clone(), j_st(vec![op(0, FFF, 10)])];
            reuse.extend((1..n).map(|_| j_st(vec![j_ref(0)])));
            emit_xf_case(em, kv, &reuse, parts, &["long", "apply_transform", "reuse"]);
        }
    }
    // two long runs separated by a barrier (each fused on its own), and by a consistent marker
    for (a, b) in [(65usize, 66usize), (64, 70)] {
        let mut nodes = vec![src.clone()];
        nodes.extend((0..a).map(|i| j_st(vec![op(i, FFF, 10)])));
        nodes.push(j_cv(&Cid::Sum, false));
        nodes.extend((a..a + b).map(|i| j_st(vec![op(i, FFF, 10)])));
        emit_syn_case(em, kv, &nodes, 2, &["long", "per_node", "two_runs"]);
        emit_xf_case(em, kv, &nodes, 3, &["long", "apply_transform", "two_runs"]);
    }
    let mut pre = vec![src.clone()];
    pre.extend((0..65).map(|i| j_st(vec![op(i, FFF, 10)])));
    let val = prefix_value(&pre, kv).expect("prefix value");
    let mut nodes = pre.clone();
    nodes.push(j_mat(kv, &val));
    nodes.extend((65..131).map(|i| j_st(vec![op(i, FFF, 10)])));
    emit_syn_case(em, kv, &nodes, 2, &["long", "per_node", "around_marker"]);

    // blocks made only of zero-cost operators: alone before a barrier, as the terminal step, between
    // markers, next to a costly block (then the fused block has a non-zero sum)
    let z = |i: usize, fl: (bool, bool, bool)| op(i, fl, 0);
    for fl in [FFF, TTT] {
        for parts in [0usize, 2] {
            let t = &["zero_cost"];
            emit_syn_case(em, kv, &[src.clone(), j_st(vec![z(0, fl)])], parts, t);
            emit_xf_case(em, kv, &[src.clone(), j_st(vec![z(0, fl)])], parts, t);
            emit_syn_case(em, kv, &[src.clone(), j_st(vec![z(0, fl), z(1, fl)]), j_cv(&Cid::Sum, false)], parts, t);
            emit_xf_case(em, kv, &[src.clone(), j_st(vec![z(0, fl)]), j_st(vec![z(1, fl)]), j_cv(&Cid::Sum, false)], parts, t);
            emit_xf_case(em, kv, &[src.clone(), j_st(vec![z(0, fl)]), json!(["gbk"]), j_cv(&Cid::Sum, true),
                                   j_st(vec![z(1, fl)])], parts, t);
            emit_syn_case(em, kv, &[src.clone(), j_st(vec![op(0, fl, 3)]), j_cv(&Cid::Sum, false), j_st(vec![z(1, fl)]),
                                    j_st(vec![z(2, fl)])], parts, t);
            emit_syn_case(em, kv, &[src.clone(), j_mat(kv, &rows), j_st(vec![z(0, fl)]), j_mat(kv, &rows)], parts, t);
            emit_syn_case(em, kv, &[src.clone(), j_st(vec![z(0, fl)]), j_st(vec![op(1, fl, 2)])], parts, t);
        }
    }
}

fn generate(seed: u64, tier: Tier, em: &mut Emitter) {
    let _ = std::fs::create_dir_all(DIR);
    let _ = cg_out(&Cid::Sum);
    gen_fixed_programs(seed, tier, em);
    gen_markers(seed, tier, em);
    gen_barriers(seed, tier, em);
    gen_blocks(seed, tier, em);
    gen_reuse(seed, tier, em);
    gen_long(seed, tier, em);
    gen_random_chains(seed, tier, em);
    gen_random_programs(seed, tier, em);
}

fn main() {
    drive(&generate, &run);
}
