//! C08: collections are lazy, immutable and re-runnable; branches do not interfere.
//!
//! kind "hist":   in = [nthreads, programs, schedule]
//!   programs[t] = list of calls of thread t on ONE shared `Pipeline`:
//!     ["src", [[k,v],..]]            from_vec
//!     ["map", c, [t,k]]              parent.map(|(k,v)| (k, v.bump(c)))
//!     [builder, a, b, [t,k]]         any other public transform builder, see the table `Op`
//!                                    (filter, flat_map, map_values, filter_values, map_batches,
//!                                    map_values_batches, combine_values, combine_globally(_lifted),
//!                                    apply_transform, distinct, distinct_per_key, gbk_lifted, key_by,
//!                                    group_by_key, top_k_per_key, key_by_window, group_by_window,
//!                                    group_by_key_and_window); 2 locks per inserted node
//!     ["join", kind, [t,k], [t,k]]   left.join_{inner,left,right,full}(&right) -> RAW handle, then
//!                                    raw.map(wrap) -> general handle   (two handles, 5 + 2 locks)
//!     ["collect", mode, [t,k]]       mode 0: collect_seq(); mode p>0: collect_par(None, Some(p))
//!   a reference [t,k] is the k-th handle produced by thread t (a join produces two).
//!   schedule = sequence of thread ids.  Real std::threads run the programs; a cooperative
//!   scheduler, driven through `ironbeam::verif::set_yield_hook`, parks every thread at each
//!   `yield_point("pipeline")` (= immediately before each acquisition of the pipeline mutex) and
//!   before the start of each call, and grants turns in schedule order; a granted thread runs
//!   until its next yield point.  After the schedule the threads are drained in thread order.
//!   out = ["ok", turns, results] | ["invalid"] | ["hang"]
//!     turns   = [[tid, call index, lock index inside the call, closure-call counter after the turn], ..]
//!     results = per thread, per call: ["h", node_id, nlocks] | ["hh", raw_id, id, nlocks]
//!               | ["c", ["ok", rows] | ["err", class], nlocks] | ["panic"] | ["unavailable"]
//! kind "stress": in = [nthreads, programs]; same programs, no hook, threads run freely and
//!   only wait for the handles they reference.  out = ["ok", results, final counter].
//!
//! Values: rows are (i64 key, Val); Val = int | pair | none | some, JSON: z | [a,b] | null | [a].
use ibv::{Emitter, SplitMix64, Tier, drive};
use ironbeam::verif::set_yield_hook;
use ironbeam::collection::LiftableCombiner;
use ironbeam::{CombineFn, DynOp, PCollection, Partition, Pipeline, Timestamped, Window, from_vec};
use serde_json::{Value, json};
use std::cell::Cell;
use std::collections::HashMap;
use std::panic::{AssertUnwindSafe, catch_unwind};
use std::sync::atomic::{AtomicUsize, Ordering};
use std::sync::{Arc, Condvar, Mutex};
use std::time::{Duration, Instant};

// ------------------------------------------------------------------ values

#[derive(Clone, PartialEq, Eq, Hash, Debug)]
enum Val {
    I(i64),
    P(Box<Val>, Box<Val>),
    N,
    S(Box<Val>),
}
/// order by score first (top_k_per_key then keeps the values with the largest scores), ties
/// broken structurally so that Ord is consistent with Eq
impl Ord for Val {
    fn cmp(&self, o: &Val) -> std::cmp::Ordering {
        (self.score(), format!("{self:?}")).cmp(&(o.score(), format!("{o:?}")))
    }
}
impl PartialOrd for Val {
    fn partial_cmp(&self, o: &Val) -> Option<std::cmp::Ordering> {
        Some(self.cmp(o))
    }
}
impl Val {
    fn bump(&self, c: i64) -> Val {
        match self {
            Val::I(z) => Val::I(z + c),
            Val::P(a, b) => Val::P(Box::new(a.bump(c)), Box::new(b.bump(c))),
            Val::N => Val::N,
            Val::S(a) => Val::S(Box::new(a.bump(c))),
        }
    }
    fn score(&self) -> i64 {
        match self {
            Val::I(z) => *z,
            Val::P(a, b) => a.score() + b.score(),
            Val::N => 0,
            Val::S(a) => a.score(),
        }
    }
    fn json(&self) -> Value {
        match self {
            Val::I(z) => json!(z),
            Val::P(a, b) => json!([a.json(), b.json()]),
            Val::N => Value::Null,
            Val::S(a) => json!([a.json()]),
        }
    }
}
fn opt(v: Option<Val>) -> Val {
    v.map_or(Val::N, |x| Val::S(Box::new(x)))
}
type Row = (i64, Val);
fn rows_json(rows: &[Row]) -> Value {
    Value::Array(rows.iter().map(|(k, v)| json!([k, v.json()])).collect())
}

// ------------------------------------------------------------------ the builder table
// Every public transform builder of ironbeam has its own copy of "insert_node; connect; return
// a new handle".  A derive op of a history is one of these builders (followed, where the
// builder changes the element type, by a `map` back to Row so that every general handle is a
// PCollection<Row>).  `nodes` = number of nodes the op inserts = half its pipeline locks.
// Value-only operators (map_values, filter_values, map_values_batches) are chosen to commute
// pairwise: the planner's re-ordering of value-only runs is the open finding C02/C03-reorder
// and not this property's subject.
#[derive(Clone, Copy, Debug, PartialEq, Eq)]
enum Op {
    Map,
    Filter,
    FlatMap,
    MapValues,
    FilterValues,
    MapBatches,
    MapValuesBatches,
    CombineValues,
    CombineGlobally,
    CombineGloballyLifted,
    ApplyTransform,
    Distinct,
    DistinctPerKey,
    GbkLifted,
    KeyBy,
    GroupByKey,
    TopKPerKey,
    KeyByWindow,
    GroupByWindow,
    GroupByKeyAndWindow,
}
const OPS: [Op; 20] = [
    Op::Map,
    Op::Filter,
    Op::FlatMap,
    Op::MapValues,
    Op::FilterValues,
    Op::MapBatches,
    Op::MapValuesBatches,
    Op::CombineValues,
    Op::CombineGlobally,
    Op::CombineGloballyLifted,
    Op::ApplyTransform,
    Op::Distinct,
    Op::DistinctPerKey,
    Op::GbkLifted,
    Op::KeyBy,
    Op::GroupByKey,
    Op::TopKPerKey,
    Op::KeyByWindow,
    Op::GroupByWindow,
    Op::GroupByKeyAndWindow,
];
impl Op {
    fn name(self) -> &'static str {
        match self {
            Op::Map => "map",
            Op::Filter => "filter",
            Op::FlatMap => "flat_map",
            Op::MapValues => "map_values",
            Op::FilterValues => "filter_values",
            Op::MapBatches => "map_batches",
            Op::MapValuesBatches => "map_values_batches",
            Op::CombineValues => "combine_values",
            Op::CombineGlobally => "combine_globally",
            Op::CombineGloballyLifted => "combine_globally_lifted",
            Op::ApplyTransform => "apply_transform",
            Op::Distinct => "distinct",
            Op::DistinctPerKey => "distinct_per_key",
            Op::GbkLifted => "gbk_lifted",
            Op::KeyBy => "key_by",
            Op::GroupByKey => "group_by_key",
            Op::TopKPerKey => "top_k_per_key",
            Op::KeyByWindow => "key_by_window",
            Op::GroupByWindow => "group_by_window",
            Op::GroupByKeyAndWindow => "group_by_key_and_window",
        }
    }
    fn from_name(n: &str) -> Option<Op> {
        OPS.iter().copied().find(|o| o.name() == n)
    }
    /// nodes inserted (each: one insert_node lock + one connect lock)
    fn nodes(self) -> usize {
        match self {
            Op::Distinct | Op::GbkLifted | Op::KeyBy | Op::GroupByKey | Op::TopKPerKey => 2,
            Op::DistinctPerKey | Op::KeyByWindow => 3,
            Op::GroupByWindow | Op::GroupByKeyAndWindow => 4,
            _ => 1,
        }
    }
    fn params_ok(self, a: i64, b: i64) -> bool {
        match self {
            Op::Filter | Op::FilterValues => a > 0 && (0..a).contains(&b),
            Op::MapBatches => (1..=8).contains(&a) && b.abs() < 1000,
            Op::MapValuesBatches => (1..=8).contains(&a),
            Op::CombineGlobally | Op::CombineGloballyLifted => (0..=8).contains(&a),
            Op::KeyBy => (1..=8).contains(&a),
            Op::TopKPerKey => (0..=8).contains(&a),
            Op::KeyByWindow | Op::GroupByWindow | Op::GroupByKeyAndWindow => (1..=100).contains(&a),
            _ => a.abs() < 1000,
        }
    }
    fn gen_params(self, rng: &mut SplitMix64) -> (i64, i64) {
        match self {
            Op::Filter | Op::FilterValues => {
                let m = rng.range(2, 3);
                (m, rng.range(0, m - 1))
            }
            Op::MapBatches => (rng.range(1, 3), rng.range(1, 3)),
            Op::MapValuesBatches => (rng.range(1, 3), 0),
            Op::CombineGlobally | Op::CombineGloballyLifted => (rng.range(0, 3), 0),
            Op::KeyBy => (rng.range(2, 3), 0),
            Op::TopKPerKey => (rng.range(0, 2), 0),
            Op::KeyByWindow | Op::GroupByWindow | Op::GroupByKeyAndWindow => (rng.range(2, 5), 0),
            Op::Map | Op::FlatMap | Op::ApplyTransform => (rng.range(1, 3), 0),
            _ => (0, 0),
        }
    }
}

#[derive(Clone)]
struct Tick(Arc<AtomicUsize>);
impl Tick {
    fn hit(&self) {
        self.0.fetch_add(1, Ordering::SeqCst);
    }
}
fn some(v: &Val) -> Val {
    Val::S(Box::new(v.clone()))
}
fn fanout(a: i64) -> Option<usize> {
    if a == 0 { None } else { Some(a as usize) }
}
/// sum of the scores of the values, per key (CombineFn user code: counted)
struct ScoreSum(Tick);
impl CombineFn<Val, i64, Val> for ScoreSum {
    fn create(&self) -> i64 {
        0
    }
    fn add_input(&self, acc: &mut i64, v: Val) {
        self.0.hit();
        *acc += v.score();
    }
    fn merge(&self, acc: &mut i64, other: i64) {
        *acc += other;
    }
    fn finish(&self, acc: i64) -> Val {
        Val::I(acc)
    }
}
impl LiftableCombiner<Val, i64, Val> for ScoreSum {}
/// sum of key + score over all rows, one output row (0, sum)
struct RowSum(Tick);
impl CombineFn<Row, i64, Row> for RowSum {
    fn create(&self) -> i64 {
        0
    }
    fn add_input(&self, acc: &mut i64, r: Row) {
        self.0.hit();
        *acc += r.0 + r.1.score();
    }
    fn merge(&self, acc: &mut i64, other: i64) {
        *acc += other;
    }
    fn finish(&self, acc: i64) -> Row {
        (0, Val::I(acc))
    }
}
impl LiftableCombiner<Row, i64, Row> for RowSum {}
/// custom operator for apply_transform
struct BumpOp(i64, Tick);
impl DynOp for BumpOp {
    fn apply(&self, input: Partition) -> Partition {
        self.1.hit();
        let v = *input.downcast::<Vec<Row>>().expect("BumpOp expects Vec<Row>");
        Box::new(v.into_iter().map(|(k, x)| (k, x.bump(self.0))).collect::<Vec<Row>>())
    }
}
fn len_sum(scores: impl Iterator<Item = i64>) -> Val {
    let (mut n, mut s) = (0i64, 0i64);
    for x in scores {
        n += 1;
        s += x;
    }
    pair(Val::I(n), Val::I(s))
}

fn build_derive(tk: &Tick, op: Op, a: i64, b: i64, p: PCollection<Row>) -> PCollection<Row> {
    let (t1, t2, t3) = (tk.clone(), tk.clone(), tk.clone());
    match op {
        Op::Map => p.map(move |(k, v): &Row| {
            t1.hit();
            (*k, v.bump(a))
        }),
        Op::Filter => p.filter(move |(_, v): &Row| {
            t1.hit();
            v.score().rem_euclid(a) == b
        }),
        Op::FlatMap => p.flat_map(move |(k, v): &Row| {
            t1.hit();
            if v.score().rem_euclid(2) == 0 {
                vec![(*k, v.clone()), (*k, v.bump(a))]
            } else {
                vec![(*k, v.clone())]
            }
        }),
        Op::MapValues => p.map_values(move |v: &Val| {
            t1.hit();
            some(v)
        }),
        Op::FilterValues => p.filter_values(move |v: &Val| {
            t1.hit();
            v.score().rem_euclid(a) == b
        }),
        Op::MapBatches => p.map_batches(a as usize, move |batch: &[Row]| {
            t1.hit();
            batch.iter().map(|(k, v)| (*k, v.bump(b))).collect::<Vec<Row>>()
        }),
        Op::MapValuesBatches => p.map_values_batches(a as usize, move |vs: &[Val]| {
            t1.hit();
            vs.iter().map(some).collect::<Vec<Val>>()
        }),
        Op::CombineValues => p.combine_values(ScoreSum(t1)),
        Op::CombineGlobally => p.combine_globally(RowSum(t1), fanout(a)),
        Op::CombineGloballyLifted => p.combine_globally_lifted(RowSum(t1), fanout(a)),
        Op::ApplyTransform => p.apply_transform::<Row>(Arc::new(BumpOp(a, t1))),
        Op::Distinct => p.distinct(),
        Op::DistinctPerKey => p.distinct_per_key(),
        Op::GbkLifted => p.group_by_key().combine_values_lifted(ScoreSum(t1)),
        Op::KeyBy => p
            .key_by(move |(_, v): &Row| {
                t1.hit();
                v.score().rem_euclid(a)
            })
            .map(move |(k2, (k, v)): &(i64, Row)| {
                t2.hit();
                (*k2, pair(Val::I(*k), v.clone()))
            }),
        Op::GroupByKey => p.group_by_key().map(move |(k, vs): &(i64, Vec<Val>)| {
            t1.hit();
            (*k, len_sum(vs.iter().map(Val::score)))
        }),
        Op::TopKPerKey => p.top_k_per_key(a as usize).map(move |(k, vs): &(i64, Vec<Val>)| {
            t1.hit();
            (*k, Val::I(vs.iter().map(Val::score).sum()))
        }),
        Op::KeyByWindow => p
            .attach_timestamps(move |(_, v): &Row| {
                t1.hit();
                v.score().max(0) as u64
            })
            .key_by_window(a as u64, 0)
            .map(move |(w, (k, v)): &(Window, Row)| {
                t2.hit();
                (w.start as i64, pair(Val::I(*k), v.clone()))
            }),
        Op::GroupByWindow => p
            .attach_timestamps(move |(_, v): &Row| {
                t1.hit();
                v.score().max(0) as u64
            })
            .group_by_window(a as u64, 0)
            .map(move |(w, rows): &(Window, Vec<Row>)| {
                t2.hit();
                (w.start as i64, len_sum(rows.iter().map(|(k, v)| *k + v.score())))
            }),
        Op::GroupByKeyAndWindow => p
            .map_values(move |v: &Val| {
                t1.hit();
                Timestamped::new(v.score().max(0) as u64, v.clone())
            })
            .group_by_key_and_window(a as u64, 0)
            .map(move |((k, w), vs): &((i64, Window), Vec<Val>)| {
                t3.hit();
                (*k * 1000 + w.start as i64, len_sum(vs.iter().map(Val::score)))
            }),
    }
}

// ------------------------------------------------------------------ programs

type Ref = (usize, usize);
#[derive(Clone, Debug)]
enum Call {
    Src(Vec<(i64, i64)>),
    /// one public transform builder (table `Op`) with two integer parameters
    Derive(Op, i64, i64, Ref),
    Join(u8, Ref, Ref),
    Collect(usize, Ref),
}
impl Call {
    /// number of pipeline-lock acquisitions (= yield points) of the call
    fn steps(&self) -> usize {
        match self {
            Call::Src(_) => 1,
            Call::Derive(op, ..) => 2 * op.nodes(),
            Call::Join(..) => 7,
            Call::Collect(..) => 3,
        }
    }
    fn inserts(&self) -> usize {
        match self {
            Call::Src(_) => 1,
            Call::Derive(op, ..) => op.nodes(),
            Call::Join(..) => 3,
            Call::Collect(..) => 0,
        }
    }
    fn json(&self) -> Value {
        match self {
            Call::Src(d) => json!(["src", d.iter().map(|(k, v)| json!([k, v])).collect::<Vec<_>>()]),
            Call::Derive(Op::Map, c, _, r) => json!(["map", c, [r.0, r.1]]),
            Call::Derive(op, a, b, r) => json!([op.name(), a, b, [r.0, r.1]]),
            Call::Join(k, l, r) => json!(["join", k, [l.0, l.1], [r.0, r.1]]),
            Call::Collect(m, x) => json!(["collect", m, [x.0, x.1]]),
        }
    }
}
fn programs_json(ps: &[Vec<Call>]) -> Value {
    Value::Array(ps.iter().map(|p| Value::Array(p.iter().map(Call::json).collect())).collect())
}

fn parse_ref(v: &Value) -> Option<Ref> {
    let a = v.as_array()?;
    if a.len() != 2 {
        return None;
    }
    Some((a[0].as_u64()? as usize, a[1].as_u64()? as usize))
}
fn parse_call(v: &Value) -> Option<Call> {
    let a = v.as_array()?;
    match (a.first()?.as_str()?, a.len()) {
        ("src", 2) => {
            let mut d = Vec::new();
            for r in a[1].as_array()? {
                let r = r.as_array()?;
                if r.len() != 2 {
                    return None;
                }
                d.push((r[0].as_i64()?, r[1].as_i64()?));
            }
            Some(Call::Src(d))
        }
        ("map", 3) => Some(Call::Derive(Op::Map, a[1].as_i64()?, 0, parse_ref(&a[2])?)),
        (name, 4) if Op::from_name(name).is_some() => {
            let op = Op::from_name(name)?;
            let (x, y) = (a[1].as_i64()?, a[2].as_i64()?);
            if !op.params_ok(x, y) {
                return None;
            }
            Some(Call::Derive(op, x, y, parse_ref(&a[3])?))
        }
        ("join", 4) => {
            let k = a[1].as_u64()?;
            if k > 3 {
                return None;
            }
            Some(Call::Join(k as u8, parse_ref(&a[2])?, parse_ref(&a[3])?))
        }
        ("collect", 3) => Some(Call::Collect(a[1].as_u64()? as usize, parse_ref(&a[2])?)),
        _ => None,
    }
}
fn parse_programs(n: &Value, v: &Value) -> Option<Vec<Vec<Call>>> {
    let n = n.as_u64()? as usize;
    let a = v.as_array()?;
    if a.len() != n || n == 0 || n > 8 {
        return None;
    }
    let mut out = Vec::new();
    for p in a {
        let mut calls = Vec::new();
        for c in p.as_array()? {
            calls.push(parse_call(c)?);
        }
        out.push(calls);
    }
    Some(out)
}

/// is the k-th handle produced by program `p` a general one (not the raw output of a join)?
fn handle_kinds(p: &[Call]) -> Vec<bool> {
    let mut out = Vec::new();
    for c in p {
        match c {
            Call::Src(_) | Call::Derive(..) => out.push(true),
            Call::Join(..) => {
                out.push(false);
                out.push(true);
            }
            Call::Collect(..) => {}
        }
    }
    out
}

// ------------------------------------------------------------------ step-count simulation
// (validates an input and drives the generator; it knows nothing about values)

struct Sim<'a> {
    programs: &'a [Vec<Call>],
    kinds: Vec<Vec<bool>>,
    pos: Vec<(usize, usize)>, // next (call, step) of each thread
    produced: Vec<usize>,     // handles completed by each thread
}
impl<'a> Sim<'a> {
    fn new(programs: &'a [Vec<Call>]) -> Self {
        Sim {
            programs,
            kinds: programs.iter().map(|p| handle_kinds(p)).collect(),
            pos: vec![(0, 0); programs.len()],
            produced: vec![0; programs.len()],
        }
    }
    fn done(&self, t: usize) -> bool {
        self.pos[t].0 >= self.programs[t].len()
    }
    fn avail(&self, r: Ref, need_general: bool) -> bool {
        r.0 < self.programs.len()
            && r.1 < self.produced[r.0]
            && (!need_general || self.kinds[r.0][r.1])
    }
    /// one turn of thread t; Err = the call it starts uses a handle that is not available
    fn turn(&mut self, t: usize) -> Result<Option<(usize, usize)>, ()> {
        if t >= self.programs.len() {
            return Err(());
        }
        if self.done(t) {
            return Ok(None);
        }
        let (ci, st) = self.pos[t];
        let call = &self.programs[t][ci];
        if st == 0 {
            let ok = match call {
                Call::Src(_) => true,
                Call::Derive(_, _, _, r) => self.avail(*r, true),
                Call::Join(_, l, r) => self.avail(*l, true) && self.avail(*r, true),
                Call::Collect(_, r) => self.avail(*r, false),
            };
            if !ok {
                return Err(());
            }
        }
        // handles appear with the last lock of the API call that returns them
        match call {
            Call::Src(_) if st == 0 => self.produced[t] += 1,
            Call::Derive(op, ..) if st + 1 == 2 * op.nodes() => self.produced[t] += 1,
            Call::Join(..) if st == 4 || st == 6 => self.produced[t] += 1,
            _ => {}
        }
        self.pos[t] = if st + 1 == call.steps() { (ci + 1, 0) } else { (ci, st + 1) };
        Ok(Some((ci, st)))
    }
}

/// the turns (tid, call, step) of schedule + drain, or None when the input is not a valid history
fn simulate(programs: &[Vec<Call>], schedule: &[usize]) -> Option<Vec<(usize, usize, usize)>> {
    let mut sim = Sim::new(programs);
    let mut turns = Vec::new();
    for &t in schedule {
        if let Some((c, s)) = sim.turn(t).ok()? {
            turns.push((t, c, s));
        }
    }
    for t in 0..programs.len() {
        while !sim.done(t) {
            let (c, s) = sim.turn(t).ok()??;
            turns.push((t, c, s));
        }
    }
    Some(turns)
}

// ------------------------------------------------------------------ cooperative scheduler

thread_local! {
    static TID: Cell<Option<usize>> = const { Cell::new(None) };
    static PASS_FIRST: Cell<bool> = const { Cell::new(false) };
    static CALL: Cell<usize> = const { Cell::new(0) };
    static STEP: Cell<usize> = const { Cell::new(0) };
}

#[derive(Clone, Copy, PartialEq, Debug)]
enum St {
    Running,
    Waiting,
    Done,
}
struct SchedState {
    turn: Option<usize>,
    st: Vec<St>,
    pos: Vec<(usize, usize)>,
    abort: bool,
}
struct Sched {
    m: Mutex<SchedState>,
    cv: Condvar,
}
const STEP_LIMIT: Duration = Duration::from_secs(20);

impl Sched {
    fn new(n: usize) -> Arc<Self> {
        Arc::new(Self {
            m: Mutex::new(SchedState {
                turn: None,
                st: vec![St::Running; n],
                pos: vec![(0, 0); n],
                abort: false,
            }),
            cv: Condvar::new(),
        })
    }
    /// park thread t at position (call, step) until it is granted a turn
    fn park(&self, t: usize, call: usize, step: usize) {
        let mut g = self.m.lock().unwrap();
        if g.abort {
            return;
        }
        g.st[t] = St::Waiting;
        g.pos[t] = (call, step);
        self.cv.notify_all();
        while g.turn != Some(t) && !g.abort {
            g = self.cv.wait(g).unwrap();
        }
        if g.turn == Some(t) {
            g.turn = None;
        }
    }
    /// hook body
    fn at_yield(&self) {
        let Some(t) = TID.with(Cell::get) else { return };
        let step = STEP.with(Cell::get);
        STEP.with(|s| s.set(step + 1));
        if PASS_FIRST.with(Cell::get) {
            PASS_FIRST.with(|p| p.set(false));
            return;
        }
        self.park(t, CALL.with(Cell::get), step);
    }
    fn finish(&self, t: usize) {
        let mut g = self.m.lock().unwrap();
        g.st[t] = St::Done;
        self.cv.notify_all();
    }
    fn give_up(&self) {
        let mut g = self.m.lock().unwrap();
        g.abort = true;
        self.cv.notify_all();
    }
    fn quiesce(&self) -> bool {
        let deadline = Instant::now() + STEP_LIMIT;
        let mut g = self.m.lock().unwrap();
        while g.st.iter().any(|s| *s == St::Running) {
            let now = Instant::now();
            if now >= deadline {
                return false;
            }
            g = self.cv.wait_timeout(g, deadline - now).unwrap().0;
        }
        true
    }
    /// grant one turn; Ok(None) = the thread had already finished (grant skipped);
    /// Ok(Some(pos)) = it was parked at pos and has now run up to its next park / its end
    fn grant(&self, t: usize) -> Result<Option<(usize, usize)>, ()> {
        let deadline = Instant::now() + STEP_LIMIT;
        let mut g = self.m.lock().unwrap();
        if t >= g.st.len() || g.st[t] == St::Done {
            return Ok(None);
        }
        let pos = g.pos[t];
        g.st[t] = St::Running;
        g.turn = Some(t);
        self.cv.notify_all();
        while g.st[t] == St::Running {
            let now = Instant::now();
            if now >= deadline {
                return Err(());
            }
            g = self.cv.wait_timeout(g, deadline - now).unwrap().0;
        }
        Ok(Some(pos))
    }
    fn done(&self, t: usize) -> bool {
        self.m.lock().unwrap().st[t] == St::Done
    }
}

// ------------------------------------------------------------------ running the real API

#[derive(Clone)]
enum H {
    G(PCollection<Row>),
    JI(PCollection<(i64, (Val, Val))>),
    JL(PCollection<(i64, (Val, Option<Val>))>),
    JR(PCollection<(i64, (Option<Val>, Val))>),
    JF(PCollection<(i64, (Option<Val>, Option<Val>))>),
}

struct Shared {
    pipeline: Pipeline,
    table: Mutex<HashMap<Ref, H>>,
    table_cv: Condvar,
    counter: Arc<AtomicUsize>,
    wait_for_handles: bool, // stress mode: block until a referenced handle exists
}
impl Shared {
    fn publish(&self, r: Ref, h: H) {
        self.table.lock().unwrap().insert(r, h);
        self.table_cv.notify_all();
    }
    fn get(&self, r: Ref) -> Option<H> {
        let deadline = Instant::now() + STEP_LIMIT;
        let mut g = self.table.lock().unwrap();
        loop {
            if let Some(h) = g.get(&r) {
                return Some(h.clone());
            }
            if !self.wait_for_handles {
                return None;
            }
            let now = Instant::now();
            if now >= deadline {
                return None;
            }
            g = self.table_cv.wait_timeout(g, deadline - now).unwrap().0;
        }
    }
    fn general(&self, r: Ref) -> Option<PCollection<Row>> {
        match self.get(r)? {
            H::G(p) => Some(p),
            _ => None,
        }
    }
}

fn err_class(e: &anyhow::Error) -> &'static str {
    if e.to_string().contains("nested CoGroup") { "nested_cogroup" } else { "other" }
}
fn collect_one<T: Clone + Send + Sync + 'static>(
    p: PCollection<T>,
    mode: usize,
    f: impl Fn(&T) -> Row,
) -> Value {
    let r = if mode == 0 { p.collect_seq() } else { p.collect_par(None, Some(mode)) };
    match r {
        Ok(v) => json!(["ok", rows_json(&v.iter().map(f).collect::<Vec<_>>())]),
        Err(e) => json!(["err", err_class(&e)]),
    }
}
fn pair(a: Val, b: Val) -> Val {
    Val::P(Box::new(a), Box::new(b))
}

/// one call of thread t on the real API; `next` = index of the next handle this thread produces
fn exec_call(sh: &Shared, t: usize, next: &mut usize, call: &Call) -> Value {
    let y0 = STEP.with(Cell::get);
    let locks = || STEP.with(Cell::get) - y0;
    match call {
        Call::Src(d) => {
            let rows: Vec<Row> = d.iter().map(|(k, v)| (*k, Val::I(*v))).collect();
            let h = from_vec(&sh.pipeline, rows);
            let id = h.node_id().raw();
            sh.publish((t, *next), H::G(h));
            *next += 1;
            json!(["h", id, locks()])
        }
        Call::Derive(op, a, b, r) => {
            let Some(p) = sh.general(*r) else {
                *next += 1; // keep the (thread, index) numbering of the program text
                return json!(["unavailable"]);
            };
            let h = build_derive(&Tick(Arc::clone(&sh.counter)), *op, *a, *b, p);
            let id = h.node_id().raw();
            sh.publish((t, *next), H::G(h));
            *next += 1;
            json!(["h", id, locks()])
        }
        Call::Join(kind, l, r) => {
            let (Some(lp), Some(rp)) = (sh.general(*l), sh.general(*r)) else {
                *next += 2;
                return json!(["unavailable"]);
            };
            let cnt = Arc::clone(&sh.counter);
            let (raw_id, h) = match kind {
                0 => {
                    let raw = lp.join_inner(&rp);
                    let id = raw.node_id().raw();
                    sh.publish((t, *next), H::JI(raw.clone()));
                    (id, raw.map(move |(k, (v, w))| {
                        cnt.fetch_add(1, Ordering::SeqCst);
                        (*k, pair(v.clone(), w.clone()))
                    }))
                }
                1 => {
                    let raw = lp.join_left(&rp);
                    let id = raw.node_id().raw();
                    sh.publish((t, *next), H::JL(raw.clone()));
                    (id, raw.map(move |(k, (v, w))| {
                        cnt.fetch_add(1, Ordering::SeqCst);
                        (*k, pair(v.clone(), opt(w.clone())))
                    }))
                }
                2 => {
                    let raw = lp.join_right(&rp);
                    let id = raw.node_id().raw();
                    sh.publish((t, *next), H::JR(raw.clone()));
                    (id, raw.map(move |(k, (v, w))| {
                        cnt.fetch_add(1, Ordering::SeqCst);
                        (*k, pair(opt(v.clone()), w.clone()))
                    }))
                }
                _ => {
                    let raw = lp.join_full(&rp);
                    let id = raw.node_id().raw();
                    sh.publish((t, *next), H::JF(raw.clone()));
                    (id, raw.map(move |(k, (v, w))| {
                        cnt.fetch_add(1, Ordering::SeqCst);
                        (*k, pair(opt(v.clone()), opt(w.clone())))
                    }))
                }
            };
            let id = h.node_id().raw();
            sh.publish((t, *next + 1), H::G(h));
            *next += 2;
            json!(["hh", raw_id, id, locks()])
        }
        Call::Collect(mode, r) => {
            let Some(h) = sh.get(*r) else { return json!(["unavailable"]) };
            let out = match h {
                H::G(p) => collect_one(p, *mode, |(k, v)| (*k, v.clone())),
                H::JI(p) => collect_one(p, *mode, |(k, (v, w))| (*k, pair(v.clone(), w.clone()))),
                H::JL(p) => collect_one(p, *mode, |(k, (v, w))| (*k, pair(v.clone(), opt(w.clone())))),
                H::JR(p) => collect_one(p, *mode, |(k, (v, w))| (*k, pair(opt(v.clone()), w.clone()))),
                H::JF(p) => {
                    collect_one(p, *mode, |(k, (v, w))| (*k, pair(opt(v.clone()), opt(w.clone()))))
                }
            };
            json!(["c", out, locks()])
        }
    }
}

fn thread_body(sh: &Shared, sc: Option<&Sched>, t: usize, program: &[Call]) -> Vec<Value> {
    TID.with(|c| c.set(if sc.is_some() { Some(t) } else { None }));
    let mut results = Vec::new();
    let mut next = 0usize;
    for (ci, call) in program.iter().enumerate() {
        if let Some(sc) = sc {
            sc.park(t, ci, 0);
        }
        CALL.with(|c| c.set(ci));
        STEP.with(|c| c.set(0));
        PASS_FIRST.with(|c| c.set(sc.is_some()));
        let before = next;
        match catch_unwind(AssertUnwindSafe(|| exec_call(sh, t, &mut next, call))) {
            Ok(v) => results.push(v),
            Err(_) => {
                next = before + usize::from(!matches!(call, Call::Collect(..)))
                    + usize::from(matches!(call, Call::Join(..)));
                results.push(json!(["panic"]));
            }
        }
    }
    if let Some(sc) = sc {
        sc.finish(t);
    }
    results
}

fn new_shared(wait: bool) -> Arc<Shared> {
    Arc::new(Shared {
        pipeline: Pipeline::default(),
        table: Mutex::new(HashMap::new()),
        table_cv: Condvar::new(),
        counter: Arc::new(AtomicUsize::new(0)),
        wait_for_handles: wait,
    })
}

fn run_hist(programs: &[Vec<Call>], schedule: &[usize]) -> Value {
    if simulate(programs, schedule).is_none() {
        return json!(["invalid"]);
    }
    let n = programs.len();
    let sh = new_shared(false);
    let sc = Sched::new(n);
    let hook_sc = Arc::clone(&sc);
    set_yield_hook(Some(Arc::new(move |site: &'static str| {
        if site == "pipeline" {
            hook_sc.at_yield();
        }
    })));
    let mut joins = Vec::new();
    for (t, prog) in programs.iter().enumerate() {
        let (prog, sh, sc) = (prog.clone(), Arc::clone(&sh), Arc::clone(&sc));
        joins.push(std::thread::spawn(move || thread_body(&sh, Some(&sc), t, &prog)));
    }
    let mut turns = Vec::new();
    let mut okay = sc.quiesce();
    let go = |t: usize, turns: &mut Vec<Value>| -> bool {
        match sc.grant(t) {
            Ok(Some((c, s))) => {
                turns.push(json!([t, c, s, sh.counter.load(Ordering::SeqCst)]));
                true
            }
            Ok(None) => true,
            Err(()) => false,
        }
    };
    if okay {
        for &t in schedule {
            if !go(t, &mut turns) {
                okay = false;
                break;
            }
        }
    }
    if okay {
        'outer: for t in 0..n {
            while !sc.done(t) {
                if !go(t, &mut turns) {
                    okay = false;
                    break 'outer;
                }
            }
        }
    }
    if !okay {
        sc.give_up();
    }
    let mut results = Vec::new();
    for j in joins {
        results.push(j.join().map_or_else(|_| json!(["thread-panic"]), Value::Array));
    }
    set_yield_hook(None);
    if !okay {
        return json!(["hang"]);
    }
    json!(["ok", turns, results])
}

fn run_stress(programs: &[Vec<Call>]) -> Value {
    // valid when the sequential order "thread 0's calls one at a time round-robin" exists:
    // the generator only emits programs whose references point backwards in a global order.
    set_yield_hook(None);
    let sh = new_shared(true);
    let mut joins = Vec::new();
    let barrier = Arc::new(std::sync::Barrier::new(programs.len()));
    for (t, prog) in programs.iter().enumerate() {
        let (prog, sh, b) = (prog.clone(), Arc::clone(&sh), Arc::clone(&barrier));
        joins.push(std::thread::spawn(move || {
            b.wait();
            thread_body(&sh, None, t, &prog)
        }));
    }
    let mut results = Vec::new();
    for j in joins {
        results.push(j.join().map_or_else(|_| json!(["thread-panic"]), Value::Array));
    }
    json!(["ok", results, sh.counter.load(Ordering::SeqCst)])
}

fn run(kind: &str, input: &Value) -> Value {
    match kind {
        "hist" => {
            let Some(programs) = parse_programs(&input[0], &input[1]) else {
                return json!(["invalid"]);
            };
            let Some(sched) = input[2].as_array() else { return json!(["invalid"]) };
            let mut schedule = Vec::new();
            for s in sched {
                match s.as_u64() {
                    Some(t) if (t as usize) < programs.len() => schedule.push(t as usize),
                    _ => return json!(["invalid"]),
                }
            }
            if input.as_array().map_or(0, Vec::len) != 3 {
                return json!(["invalid"]);
            }
            run_hist(&programs, &schedule)
        }
        "stress" => {
            let Some(programs) = parse_programs(&input[0], &input[1]) else {
                return json!(["invalid"]);
            };
            if input.as_array().map_or(0, Vec::len) != 2 || !stress_valid(&programs) {
                return json!(["invalid"]);
            }
            run_stress(&programs)
        }
        _ => json!(["bad-kind"]),
    }
}

/// free-running programs cannot deadlock when some sequential order of whole calls is valid:
/// run the threads round-robin, one whole call at a time, skipping threads that would block.
fn stress_valid(programs: &[Vec<Call>]) -> bool {
    let mut sim = Sim::new(programs);
    loop {
        let mut progress = false;
        let mut all_done = true;
        for t in 0..programs.len() {
            if sim.done(t) {
                continue;
            }
            all_done = false;
            let save = (sim.pos.clone(), sim.produced.clone());
            if sim.turn(t).is_ok() {
                while sim.pos[t].1 != 0 {
                    sim.turn(t).unwrap();
                }
                progress = true;
            } else {
                sim.pos = save.0;
                sim.produced = save.1;
            }
        }
        if all_done {
            return true;
        }
        if !progress {
            return false;
        }
    }
}

// ------------------------------------------------------------------ generation

fn gen_rows(rng: &mut SplitMix64) -> Vec<(i64, i64)> {
    let n = *rng.pick(&[0usize, 1, 2, 2, 3, 3, 4, 5]);
    (0..n).map(|_| (rng.range(0, 2), rng.range(0, 9))).collect()
}

struct Gen {
    programs: Vec<Vec<Call>>,
    produced: Vec<Vec<bool>>, // completed handles per thread: general?
}
impl Gen {
    fn refs(&self, general_only: bool) -> Vec<Ref> {
        let mut out = Vec::new();
        for (t, hs) in self.produced.iter().enumerate() {
            for (k, g) in hs.iter().enumerate() {
                if *g || !general_only {
                    out.push((t, k));
                }
            }
        }
        out
    }
    fn pick_ref(&self, rng: &mut SplitMix64, general_only: bool) -> Option<Ref> {
        let rs = self.refs(general_only);
        if rs.is_empty() {
            return None;
        }
        Some(*rng.pick(&rs))
    }
    fn new_call(&self, rng: &mut SplitMix64, collect_bias: u64) -> Call {
        loop {
            let roll = rng.below(10 + collect_bias);
            let c = match roll {
                0 | 1 => Some(Call::Src(gen_rows(rng))),
                2 | 3 | 4 => self.pick_ref(rng, true).map(|r| {
                    // map and filter_values a bit more often than the other builders
                    let op = match rng.below(12) {
                        0 => Op::Map,
                        1 => Op::FilterValues,
                        _ => *rng.pick(&OPS),
                    };
                    let (a, b) = op.gen_params(rng);
                    Call::Derive(op, a, b, r)
                }),
                5 | 6 => match (self.pick_ref(rng, true), self.pick_ref(rng, true)) {
                    (Some(l), Some(r)) => Some(Call::Join(rng.below(4) as u8, l, r)),
                    _ => None,
                },
                _ => self
                    .pick_ref(rng, false)
                    .map(|r| Call::Collect(*rng.pick(&[0usize, 0, 1, 2, 3]), r)),
            };
            match c {
                Some(c) => return c,
                None => {
                    if self.refs(false).is_empty() {
                        return Call::Src(gen_rows(rng));
                    }
                }
            }
        }
    }
}

/// a random valid history: programs and schedule are grown together, step by step
fn gen_hist(rng: &mut SplitMix64, n: usize, ncalls: usize) -> (Vec<Vec<Call>>, Vec<usize>) {
    let mut g = Gen { programs: vec![Vec::new(); n], produced: vec![Vec::new(); n] };
    let mut cur: Vec<Option<usize>> = vec![None; n]; // step inside the current call
    let mut schedule = Vec::new();
    let mut budget = ncalls;
    // sticky scheduling: sometimes stay on a thread, sometimes switch after every lock
    let stick = rng.below(4);
    let mut last = 0usize;
    loop {
        let busy: Vec<usize> = (0..n).filter(|t| cur[*t].is_some()).collect();
        if budget == 0 && busy.is_empty() {
            break;
        }
        let t = if budget == 0 {
            *rng.pick(&busy)
        } else if stick > 0 && rng.below(4) < stick && (cur[last].is_some() || budget > 0) {
            last
        } else {
            rng.below(n as u64) as usize
        };
        last = t;
        if cur[t].is_none() {
            if budget == 0 {
                continue;
            }
            let call = g.new_call(rng, if budget * 2 < ncalls { 4 } else { 0 });
            g.programs[t].push(call);
            budget -= 1;
            cur[t] = Some(0);
        }
        let st = cur[t].unwrap();
        let call = g.programs[t].last().unwrap().clone();
        match (&call, st) {
            (Call::Src(_), 0) | (Call::Join(..), 6) => {
                g.produced[t].push(true);
            }
            (Call::Derive(op, ..), st) if st + 1 == 2 * op.nodes() => {
                g.produced[t].push(true);
            }
            (Call::Join(..), 4) => g.produced[t].push(false),
            _ => {}
        }
        cur[t] = if st + 1 == call.steps() { None } else { Some(st + 1) };
        schedule.push(t);
    }
    // sometimes leave the tail to the drain
    if rng.chance(1, 4) && !schedule.is_empty() {
        let cut = rng.below(schedule.len() as u64 + 1) as usize;
        let mut s2 = schedule.clone();
        s2.truncate(cut);
        if simulate(&g.programs, &s2).is_some() {
            schedule = s2;
        }
    }
    (g.programs, schedule)
}

fn nontrivial_hist(programs: &[Vec<Call>], schedule: &[usize]) -> bool {
    let Some(turns) = simulate(programs, schedule) else { return false };
    // a thread is pre-empted between two locks of one call by a turn of another thread
    let mut preempted = false;
    for w in turns.windows(2) {
        let (t, c, s) = w[0];
        if w[1].0 != t && s + 1 < programs[t][c].steps() {
            preempted = true;
        }
    }
    let kinds: Vec<Vec<bool>> = programs.iter().map(|p| handle_kinds(p)).collect();
    let _ = kinds;
    let collects_derived = programs.iter().flatten().any(|c| match c {
        Call::Collect(_, (t, k)) => {
            // the k-th handle of thread t is not a bare source
            let mut idx = 0usize;
            let mut derived = false;
            for call in &programs[*t] {
                let n = match call {
                    Call::Collect(..) => 0,
                    Call::Join(..) => 2,
                    _ => 1,
                };
                if *k >= idx && *k < idx + n {
                    derived = !matches!(call, Call::Src(_));
                }
                idx += n;
            }
            derived
        }
        _ => false,
    });
    preempted && collects_derived
}

fn interleavings(counts: &mut Vec<usize>, cur: &mut Vec<usize>, out: &mut Vec<Vec<usize>>) {
    if counts.iter().all(|c| *c == 0) {
        out.push(cur.clone());
        return;
    }
    for t in 0..counts.len() {
        if counts[t] > 0 {
            counts[t] -= 1;
            cur.push(t);
            interleavings(counts, cur, out);
            cur.pop();
            counts[t] += 1;
        }
    }
}

fn emit_hist(em: &mut Emitter, programs: &[Vec<Call>], schedule: &[usize], tags: &[&str]) {
    let nt = nontrivial_hist(programs, schedule);
    em.case("hist", json!([programs.len(), programs_json(programs), schedule]), nt, tags);
}

/// every valid interleaving of the locks of the given programs
fn emit_exhaustive(em: &mut Emitter, programs: &[Vec<Call>], tag: &str) -> usize {
    let mut counts: Vec<usize> =
        programs.iter().map(|p| p.iter().map(Call::steps).sum()).collect();
    let mut all = Vec::new();
    interleavings(&mut counts, &mut Vec::new(), &mut all);
    let mut n = 0;
    for s in all {
        if simulate(programs, &s).is_some() {
            emit_hist(em, programs, &s, &["exhaustive", tag]);
            n += 1;
        }
    }
    n
}

fn exhaustive_sets(tier: Tier) -> Vec<(&'static str, Vec<Vec<Call>>)> {
    use Call::{Collect, Join, Src};
    #[allow(non_snake_case)]
    fn Map(c: i64, r: Ref) -> Call {
        Call::Derive(Op::Map, c, 0, r)
    }
    #[allow(non_snake_case)]
    fn Filter(m: i64, x: i64, r: Ref) -> Call {
        Call::Derive(Op::Filter, m, x, r)
    }
    #[allow(non_snake_case)]
    fn D(op: Op, a: i64, b: i64, r: Ref) -> Call {
        Call::Derive(op, a, b, r)
    }
    let a = vec![(0, 1), (1, 2), (0, 3)];
    let b = vec![(0, 5), (2, 7)];
    let mut v = vec![
        // collect an ancestor while another thread derives from it and collects the sibling
        (
            "E1",
            vec![
                vec![Src(a.clone()), Map(1, (0, 0)), Collect(0, (0, 1))],
                vec![Filter(2, 1, (0, 0)), Collect(0, (0, 0))],
            ],
        ),
        // the insert/connect window of two derives of the same parent
        (
            "E2",
            vec![
                vec![Src(a.clone()), Map(1, (0, 0))],
                vec![Map(2, (0, 0))],
                vec![Collect(0, (0, 0))],
            ],
        ),
        // a join (5 + 2 locks) against a derive of its left input and a collect of the join
        (
            "E3",
            vec![
                vec![Src(a.clone()), Join(0, (0, 0), (0, 0))],
                vec![Src(b.clone()), Map(1, (0, 0))],
            ],
        ),
        (
            "E4",
            vec![
                vec![Src(a.clone()), Src(b.clone()), Join(1, (0, 0), (0, 1))],
                vec![Collect(0, (0, 1)), Map(1, (0, 1))],
            ],
        ),
    ];
    // other builder families: in-place modification of the parent would show in the collects of
    // the ancestor (0,1) around the filter_values / of the source around distinct + group_by_key
    v.push((
        "E7",
        vec![
            vec![Src(a.clone()), D(Op::MapValues, 0, 0, (0, 0)), D(Op::FilterValues, 2, 1, (0, 1))],
            vec![Collect(0, (0, 1)), Collect(1, (0, 1))],
        ],
    ));
    v.push((
        "E8",
        vec![
            vec![Src(a.clone()), D(Op::Distinct, 0, 0, (0, 0))],
            vec![D(Op::GroupByKey, 0, 0, (0, 0)), Collect(0, (0, 0))],
        ],
    ));
    if tier == Tier::Thorough {
        v.push((
            "E2b",
            vec![
                vec![Src(b.clone()), Map(1, (0, 0))],
                vec![Map(2, (0, 0)), Collect(2, (1, 0))],
                vec![Collect(0, (0, 0))],
            ],
        ));
        v.push((
            "E5",
            vec![
                vec![Src(a.clone()), Join(3, (0, 0), (1, 0)), Collect(0, (0, 2))],
                vec![Src(b.clone()), Filter(2, 1, (1, 0)), Collect(1, (1, 1))],
            ],
        ));
        v.push((
            "E6",
            vec![
                vec![Src(a), Join(2, (0, 0), (0, 0))],
                vec![Collect(0, (0, 0))],
                vec![Map(1, (0, 0))],
            ],
        ));
    }
    v
}

fn gen_stress(rng: &mut SplitMix64, n: usize, ncalls: usize) -> Vec<Vec<Call>> {
    // a sequential global order of whole calls, dealt to random threads
    let mut g = Gen { programs: vec![Vec::new(); n], produced: vec![Vec::new(); n] };
    for i in 0..ncalls {
        let t = rng.below(n as u64) as usize;
        let call = g.new_call(rng, if i * 2 > ncalls { 4 } else { 0 });
        match &call {
            Call::Join(..) => {
                g.produced[t].push(false);
                g.produced[t].push(true);
            }
            Call::Collect(..) => {}
            _ => g.produced[t].push(true),
        }
        g.programs[t].push(call);
    }
    g.programs
}

fn generate(seed: u64, tier: Tier, em: &mut Emitter) {
    // 1. exhaustive interleavings of small fixed programs
    for (tag, programs) in exhaustive_sets(tier) {
        emit_exhaustive(em, &programs, tag);
    }
    // 2. seeded random histories, 1..4 threads
    let mut rng = SplitMix64::new(seed ^ 0xC08);
    let n_hist = if tier == Tier::Thorough { 20000 } else { 5000 };
    for i in 0..n_hist {
        let n = 1 + (i % 4);
        let ncalls = 2 + rng.below(11) as usize;
        let (programs, schedule) = gen_hist(&mut rng, n, ncalls);
        emit_hist(em, &programs, &schedule, &["random"]);
    }
    // 3. free-running stress, 4 threads (2..4 in the thorough tier)
    let n_stress = if tier == Tier::Thorough { 600 } else { 60 };
    for i in 0..n_stress {
        let n = if tier == Tier::Thorough { 2 + (i % 3) } else { 4 };
        let ncalls = 10 + rng.below(30) as usize;
        let programs = gen_stress(&mut rng, n, ncalls);
        let total_inserts: usize = programs.iter().flatten().map(Call::inserts).sum();
        let nt = programs.iter().filter(|p| !p.is_empty()).count() >= 2 && total_inserts >= 4;
        em.case("stress", json!([n, programs_json(&programs)]), nt, &["stress"]);
    }
}

fn main() {
    drive(&generate, &run);
}
